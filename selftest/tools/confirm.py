#!/usr/bin/env python3
"""confirm.py Cxx : verify seeded change in /tmp/cd/Cxx in its own verify worktree; writes /tmp/cd/Cxx/confirmed.json"""
import sys, os, json, subprocess, re, shutil
pid = sys.argv[1]
out = "/tmp/cd/%s" % pid
wt = "/tmp/wt/verifyd-%s" % pid
meta = json.load(open(out + "/meta.json"))
def sh(cmd, cwd=wt, timeout=900):
    try:
        r = subprocess.run(cmd, shell=True, cwd=cwd, stdout=subprocess.PIPE, stderr=subprocess.STDOUT, text=True, timeout=timeout)
        return r.returncode, r.stdout
    except subprocess.TimeoutExpired as e:
        return 124, (e.stdout or b"").decode() if isinstance(e.stdout, bytes) else (e.stdout or "")
def summ(o):
    return re.findall(r"test result: (\w+)\. (\d+) passed; (\d+) failed", o)
subprocess.run("git -C /repo worktree remove --force %s 2>/dev/null; git -C /repo worktree add -q --detach %s HEAD" % (wt, wt), shell=True)
res = {"procedure": "scratch worktree %s at /repo HEAD: demo test on clean tree; git apply patch.diff; cargo build --offline (default and all features); cargo test --workspace --offline --lib (pinned 44); demo test again" % wt}
try:
    os.makedirs(wt + "/tests", exist_ok=True)
    shutil.copy(out + "/demo.rs", wt + "/tests/demo_cd.rs")
    cmd = meta["demo_cmd"]
    cmd = re.sub(r"^cd \S+ && ", "", cmd)
    env = "CARGO_NET_OFFLINE=true CARGO_TARGET_DIR=/tmp/wt/target-%s " % pid
    rc, o = sh(env + cmd)
    res["demo_on_clean"] = summ(o) or [("rc", str(rc), o[-300:])]
    rc, o = sh("git apply %s/patch.diff" % out)
    res["apply"] = rc
    rc1, o1 = sh(env + "cargo build --offline")
    rc2, o2 = sh(env + "cargo build --offline --features fn_meta,resman,fn_res,interruptible,graph_info")
    res["build"] = [rc1, rc2]
    rc, o = sh(env + "cargo test --workspace --offline --lib")
    res["pinned_suite_on_mutant"] = summ(o) or [("rc", str(rc), o[-300:])]
    rc, o = sh(env + "timeout 600 " + cmd)
    res["demo_on_mutant"] = summ(o) or [("rc", str(rc), o[-300:])]
    res["demo_on_mutant_rc"] = rc
finally:
    subprocess.run("git -C /repo worktree remove --force %s; rm -rf /tmp/wt/target-%s" % (wt, pid), shell=True)
ok = (res.get("demo_on_clean") and all(x[0] == "ok" for x in res["demo_on_clean"]) and res.get("apply") == 0 and res.get("build") == [0, 0]
      and any(x[0] == "ok" and x[1] == "44" for x in res.get("pinned_suite_on_mutant", [])) and res.get("demo_on_mutant_rc") not in (0, None))
res["confirmed"] = bool(ok)
json.dump(res, open(out + "/confirmed.json", "w"), indent=1)
print(pid, "CONFIRMED" if ok else "NOT-CONFIRMED", json.dumps(res)[:600])
