// expect: E0277 cannot be sent between threads safely
// Twin of try_for_each_concurrent_mut_is_send with a non-Send error type.
use std::future::Future;
use fn_graph::FnGraph;
fn assert_send<T: Send>(_: &T) {}
pub fn try_for_each_concurrent_mut_is_send<F, E, C, Fut>(g: &mut FnGraph<F>, c: C)
where
    F: Send + Sync,
    E: std::fmt::Debug,
    C: Fn(&mut F) -> Fut + Send + Sync,
    Fut: Future<Output = Result<(), E>> + Send,
{
    let fut = g.try_for_each_concurrent_mut(None::<usize>, c);
    assert_send(&fut);
}
fn main() {}
