// expect: ok
// Compiling twin of neg_two_mut_runs: the same two runs, one after the other.
use fn_graph::FnGraph;
pub fn two_mut_runs_in_sequence<F>(g: &mut FnGraph<F>) {
    let a = g.for_each_concurrent_mut(None::<usize>, |_f: &mut F| async {});
    drop(a);
    let b = g.for_each_concurrent_mut(None::<usize>, |_f: &mut F| async {});
    drop(b);
}
fn main() {}
