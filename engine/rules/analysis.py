"""Generic analyses over the MIR fact base (DESIGN.md A1-A5).

  * Expr        intra-body expression reconstruction (A1)
  * Flow        inter-body, field-sensitive, flow-insensitive value sources
                with an adaptor model table (A3 provenance / A4 taint)
  * awaits()    recognition of `.await` sites and their Ready arms (A2)
  * control dependence / guard helpers

Nothing here executes analysed code; every answer is derived from the CFGs.
"""
from facts import callee_path, is_param_call, fmt_place

# ---------------------------------------------------------------------------
# helpers on raw MIR json

WRAPPER_VARIANTS = {"Some", "Ok", "Ready", "Continue", "Interrupted", "NoInterrupt", "Left", "Right"}
# Failure-carrying variants are kept apart from the success payload by a tag
# in the access path ("E"), so an error value is never confused with a state.
TAGGED_VARIANTS = {"Err": "E", "Break": "E"}
WRAPPER_ADTS = {
    "std::option::Option", "std::result::Result", "std::task::Poll", "std::ops::ControlFlow",
    "core::option::Option", "core::result::Result", "core::task::Poll", "core::ops::ControlFlow",
    "interruptible::PollOutcome", "futures::future::Either", "std::pin::Pin", "core::pin::Pin",
    "tokio::sync::RwLock",
}


def strip_proj(proj):
    """Projection list -> tuple path of field indices; Deref/Index dropped,
    wrapper-variant downcasts and their payload field collapsed."""
    out = []
    skip_field = False
    for e in proj:
        if e == "*" or e in ("opaque", "unbinder"):
            continue
        if isinstance(e, dict):
            if "f" in e:
                if skip_field:
                    skip_field = False
                    continue
                out.append(e["f"])
            elif "d" in e:
                if e.get("name") in WRAPPER_VARIANTS:
                    skip_field = True
                elif e.get("name") in TAGGED_VARIANTS:
                    out.append(TAGGED_VARIANTS[e["name"]])
                    skip_field = True
                else:
                    out.append("v%d" % e["d"])
            elif "i" in e or "ci" in e or "sub" in e:
                continue
    return tuple(out)


class Defs:
    """Definition sites of every local of a body."""

    def __init__(self, body):
        self.body = body
        self.by_local = {}
        self.through = {}     # writes through a pointer held in the local: `*p = v`
        for bb, blk in enumerate(body.blocks):
            for si, s in enumerate(blk["stmts"]):
                if s["k"] == "assign":
                    if s["pl"]["p"] and s["pl"]["p"][0] == "*":
                        self.through.setdefault(s["pl"]["l"], []).append(("stmt", bb, si, s))
                    else:
                        self.by_local.setdefault(s["pl"]["l"], []).append(("stmt", bb, si, s))
            t = blk["term"]
            if t["k"] == "call":
                self.by_local.setdefault(t["dest"]["l"], []).append(("call", bb, None, t))
            elif t["k"] == "yield":
                self.by_local.setdefault(t["resume_arg"]["l"], []).append(("yield", bb, None, t))

    def of(self, local):
        return self.by_local.get(local, [])

    def unique_full(self, local):
        """The single whole-local definition, if the local is defined exactly
        once and without projection."""
        ds = self.of(local)
        if len(ds) != 1:
            return None
        kind, bb, si, x = ds[0]
        pl = x["pl"] if kind == "stmt" else (x["dest"] if kind == "call" else x["resume_arg"])
        if pl["p"]:
            return None
        return ds[0]


def get_defs(body):
    d = getattr(body, "_defs", None)
    if d is None:
        d = Defs(body)
        body._defs = d
    return d


# ---------------------------------------------------------------------------
# A1: expression reconstruction

class E(tuple):
    """Expression node: a tuple whose first element is the kind."""
    __slots__ = ()

    @property
    def kind(self):
        return self[0]


def expr_operand(body, op, depth=0):
    if op["k"] == "const":
        if "fn" in op:
            return E(("fnconst", op["fn"]["path"], op["fn"]))
        if op.get("uneval") and depth < 6:
            # a named constant of the crate (`const RANK_STEP: Rank = Rank(1)`): its initialiser, when that is a single
            # assignment of a literal / aggregate of literals
            cb = body.fb.bodies.get(op["uneval"]) if getattr(body, "fb", None) is not None else None
            if cb is not None and cb.kind == "other" and len(cb.blocks) == 1 and cb.blocks[0]["term"].get("k") == "return":
                st = [s_ for s_ in cb.blocks[0]["stmts"] if s_["k"] == "assign" and s_["pl"]["l"] == 0 and not s_["pl"]["p"]]
                if len(st) == 1 and len([s_ for s_ in cb.blocks[0]["stmts"] if s_["k"] == "assign"]) == 1 and \
                        (st[0]["rv"]["k"] == "use" and st[0]["rv"]["op"]["k"] == "const" or
                         st[0]["rv"]["k"] == "agg" and all(o["k"] == "const" and not o.get("uneval") for o in st[0]["rv"]["ops"])):
                    return expr_rvalue(cb, st[0]["rv"], depth + 1, (0, 0))
        return E(("const", op.get("bits", op["val"]), op["ty"]))
    if op["k"] in ("copy", "move"):
        return expr_place(body, op["pl"], depth)
    return E(("unknown", str(op)))


def expr_place(body, pl, depth=0):
    base = expr_local(body, pl["l"], depth)
    e = base
    for pr in pl["p"]:
        if pr == "*":
            e = E(("deref", e))
        elif isinstance(pr, dict):
            if "f" in pr:
                e = E(("field", e, pr["f"]))
            elif "d" in pr:
                e = E(("downcast", e, pr.get("name", str(pr["d"]))))
            elif "i" in pr:
                e = E(("index", e, expr_local(body, pr["i"], depth)))
            else:
                e = E(("proj", e, str(pr)))
    return simplify(e)


def expr_local(body, local, depth=0):
    if depth > 40:
        return E(("local", local))
    if local == 0:
        return E(("local", 0))
    if 1 <= local <= body.arg_count:
        if local == 1 and body.kind in ("closure", "coroutine"):
            return E(("env",))
        return E(("arg", local))
    d = get_defs(body).unique_full(local)
    if d is None:
        return E(("local", local))
    kind, bb, si, x = d
    if kind == "stmt":
        return expr_rvalue(body, x["rv"], depth + 1, (bb, si))
    if kind == "call":
        return expr_call(body, bb, x, depth + 1)
    return E(("resume", bb))


def expr_call(body, bb, t, depth=0):
    c = t.get("callee")
    args = tuple(expr_operand(body, a, depth) for a in t["args"])
    if c is None:
        return E(("callv", expr_operand(body, t["func"], depth), args, bb))
    return E(("call", c["path"], args, bb))


def expr_rvalue(body, rv, depth, at):
    k = rv["k"]
    if k == "use":
        return expr_operand(body, rv["op"], depth)
    if k in ("ref", "rawptr"):
        return E(("ref", rv.get("bk", "raw"), expr_place(body, rv["pl"], depth)))
    if k == "copy_for_deref":
        return expr_place(body, rv["pl"], depth)
    if k == "cast":
        return E(("cast", expr_operand(body, rv["op"], depth), rv["ty"]))
    if k == "binop":
        return E(("binop", rv["op"], expr_operand(body, rv["a"], depth), expr_operand(body, rv["b"], depth)))
    if k == "unop":
        return E(("unop", rv["op"], expr_operand(body, rv["a"], depth)))
    if k == "discr":
        return E(("discr", expr_place(body, rv["pl"], depth)))
    if k == "agg":
        ops = tuple(expr_operand(body, o, depth) for o in rv["ops"])
        return E(("agg", rv["ak"], rv.get("def"), rv.get("variant"), ops, at))
    if k == "repeat":
        return E(("repeat", expr_operand(body, rv["op"], depth), rv["n"]))
    return E(("unknown", rv.get("dbg", k)))


def simplify(e):
    """field(binop XWithOverflow, 0) -> binop X; deref(ref x) -> x;
    field(agg, i) -> op i."""
    if e.kind == "field":
        inner, idx = e[1], e[2]
        if inner.kind == "binop" and inner[1].endswith("WithOverflow"):
            if idx == 0:
                return E(("binop", inner[1][:-len("WithOverflow")], inner[2], inner[3]))
            return E(("overflow_flag", inner))
        if inner.kind == "agg" and inner[1] in ("tuple", "adt", "closure", "coroutine") and isinstance(idx, int) and idx < len(inner[4]):
            return inner[4][idx]
        if inner.kind == "downcast" and inner[1].kind == "agg" and inner[1][1] == "adt" and inner[1][3] == inner[2] \
                and isinstance(idx, int) and idx < len(inner[1][4]):
            return inner[1][4][idx]
    if e.kind == "deref":
        inner = e[1]
        if inner.kind == "ref":
            return inner[2]
    return e


def strip_refs(e):
    """Remove ref/deref/cast wrappers."""
    while e.kind in ("ref", "deref", "cast"):
        e = e[2] if e.kind == "ref" else e[1]
    return e


def fmt_expr(e, body=None):
    k = e.kind
    if k == "const":
        return "const(%s)" % (e[1],)
    if k == "fnconst":
        return "fn(%s)" % e[1]
    if k == "local":
        n = body.local_names().get(e[1]) if body else None
        return "_%d%s" % (e[1], "/*%s*/" % n if n else "")
    if k == "arg":
        n = body.local_names().get(e[1]) if body else None
        return "arg%d%s" % (e[1], "/*%s*/" % n if n else "")
    if k == "env":
        return "env"
    if k == "field":
        if e[1].kind in ("env",) or (e[1].kind == "deref" and e[1][1].kind == "env"):
            n = body.upvar_names().get(e[2]) if body else None
            return "upvar%s%s" % (e[2], "/*%s*/" % n if n else "")
        return "%s.%s" % (fmt_expr(e[1], body), e[2])
    if k == "deref":
        return "*%s" % fmt_expr(e[1], body)
    if k == "ref":
        return "&%s%s" % ("mut " if e[1] == "mut" else "", fmt_expr(e[2], body))
    if k == "downcast":
        return "(%s as %s)" % (fmt_expr(e[1], body), e[2])
    if k == "index":
        return "%s[%s]" % (fmt_expr(e[1], body), fmt_expr(e[2], body))
    if k == "call":
        return "%s(%s)" % (e[1], ", ".join(fmt_expr(a, body) for a in e[2]))
    if k == "callv":
        return "(%s)(%s)" % (fmt_expr(e[1], body), ", ".join(fmt_expr(a, body) for a in e[2]))
    if k == "binop":
        return "%s(%s, %s)" % (e[1], fmt_expr(e[2], body), fmt_expr(e[3], body))
    if k == "unop":
        return "%s(%s)" % (e[1], fmt_expr(e[2], body))
    if k == "discr":
        return "discr(%s)" % fmt_expr(e[1], body)
    if k == "agg":
        return "%s{%s}(%s)" % (e[1], e[2] or "", ", ".join(fmt_expr(a, body) for a in e[4]))
    if k == "cast":
        return "cast(%s)" % fmt_expr(e[1], body)
    return str(tuple(e))


def walk_expr(e):
    yield e
    for x in e[1:]:
        if isinstance(x, E):
            for y in walk_expr(x):
                yield y
        elif isinstance(x, tuple):
            for z in x:
                if isinstance(z, E):
                    for y in walk_expr(z):
                        yield y


def expr_calls(e, path=None):
    return [x for x in walk_expr(e) if x.kind == "call" and (path is None or x[1] == path)]


def upvar_index(e):
    """If e denotes (a projection of) a captured variable, its upvar index."""
    e0 = e
    while True:
        if e0.kind == "field" and (e0[1].kind == "env" or (e0[1].kind == "deref" and e0[1][1].kind == "env")):
            return e0[2]
        if e0.kind in ("deref", "cast"):
            e0 = e0[1]
        elif e0.kind == "ref":
            e0 = e0[2]
        elif e0.kind in ("field", "downcast", "index"):
            e0 = e0[1]
        else:
            return None


# ---------------------------------------------------------------------------
# A2: await sites

class Await:
    __slots__ = ("body", "into_bb", "awaitee_local", "poll_bb", "ready_bb", "result_local", "yield_bbs",
                 "operand", "line", "after_bb")

    def __repr__(self):
        return "Await(L%s into=bb%s poll=bb%s ready=bb%s)" % (self.line, self.into_bb, self.poll_bb, self.ready_bb)


def awaits(body):
    """All `.await` sites of a coroutine body, recognised by the Await
    desugaring: into_future -> loop { poll -> switch -> Ready arm | yield }."""
    cached = getattr(body, "_awaits", None)
    if cached is not None:
        return cached
    out = []
    for bb, t in body.calls():
        c = t.get("callee")
        if not c or c["name"] != "into_future" or t["sp"].get("desugar") != "Await":
            continue
        a = Await()
        a.body = body
        a.into_bb = bb
        a.line = t["sp"]["line"]
        a.operand = t["args"][0]
        a.awaitee_local = None
        a.poll_bb = None
        a.ready_bb = None
        a.result_local = None
        a.yield_bbs = []
        a.after_bb = None
        # awaitee local: assigned from into_future result in the target block
        dest = t["dest"]["l"]
        nxt = t["target"]
        for s in body.blocks[nxt]["stmts"]:
            if s["k"] == "assign" and s["rv"]["k"] == "use" and s["rv"]["op"].get("pl", {}).get("l") == dest:
                a.awaitee_local = s["pl"]["l"]
        # walk forward to the poll call (within the await expansion)
        seen = set()
        st = [nxt]
        while st:
            b = st.pop()
            if b in seen:
                continue
            seen.add(b)
            tt = body.blocks[b]["term"]
            if tt["k"] == "call" and tt.get("callee") and tt["callee"]["name"] == "poll" and tt["sp"].get("desugar") == "Await":
                a.poll_bb = b
                break
            if tt["sp"].get("desugar") != "Await" and b != nxt:
                continue
            st.extend(body.succs(b))
        if a.poll_bb is not None:
            pt = body.blocks[a.poll_bb]["term"]
            pl = pt["dest"]["l"]
            sw = body.blocks[pt["target"]]["term"]
            if sw["k"] == "switch":
                for v, tb in sw["targets"]:
                    if v == "0":
                        rb = tb
                        # follow false edges
                        while body.blocks[rb]["term"]["k"] == "false_edge" and not body.blocks[rb]["stmts"]:
                            rb = body.blocks[rb]["term"]["target"]
                        a.ready_bb = rb
                        for s in body.blocks[rb]["stmts"]:
                            if s["k"] == "assign" and s["rv"]["k"] == "use":
                                sp = s["rv"]["op"].get("pl")
                                if sp and sp["l"] == pl:
                                    a.result_local = s["pl"]["l"]
                    elif v == "1":
                        # pending arm: find the yield
                        pb = tb
                        hops = 0
                        while hops < 6:
                            tt = body.blocks[pb]["term"]
                            if tt["k"] == "yield":
                                a.yield_bbs.append(pb)
                                break
                            ss = body.succs(pb)
                            if not ss:
                                break
                            pb = ss[0]
                            hops += 1
        out.append(a)
    body._awaits = out
    return out


def await_of_block(body, bb):
    """The await whose expansion contains block bb (between into_future and
    the Ready arm), if any."""
    for a in awaits(body):
        if a.poll_bb is None or a.ready_bb is None:
            continue
        if body.dominates(a.into_bb, bb) and not body.dominates(a.ready_bb, bb):
            return a
    return None


# ---------------------------------------------------------------------------
# control dependence (guards)

def guards_of(body, bb):
    """Switch blocks on which `bb` is control dependent, as
    [(switch_bb, taken_values)] where taken_values is the set of switch values
    (strings, or 'otherwise') through which bb is reachable while the other
    successors can avoid it."""
    out = []
    succ = body.normal_succ()
    loops = getattr(body, "_loops_by_hdr", None)
    if loops is None:
        loops = {}
        for (src, hdr) in body.back_edges():
            loops.setdefault(hdr, set()).update(body.natural_loop(src, hdr))
        body._loops_by_hdr = loops
    for sb, blk in enumerate(body.blocks):
        t = blk["term"]
        if t["k"] != "switch":
            continue
        if not body.dominates(sb, bb):
            continue
        # a test inside an earlier loop that bb comes after: bb runs once that loop is done, whichever way it was left
        after_loop = False
        for hdr, L in loops.items():
            if sb in L and bb not in L:
                exits = {x for y in L for x in succ[y] if x not in L and body.blocks[x]["term"]["k"] != "unreachable"}
                if exits and all(x == bb or bb in body.reachable_fwd(x) for x in exits):
                    after_loop = True
        if after_loop:
            continue
        arms = [(v, tb) for v, tb in t["targets"]] + [("otherwise", t["otherwise"])]
        # an arm that only leads to `unreachable` (exhaustive match) decides nothing
        arms = [(v, tb) for v, tb in arms if body.blocks[tb]["term"]["k"] != "unreachable"]
        reach = {}
        for v, tb in arms:
            # within one loop iteration: back edges are not followed
            reach[v] = bb in body.reachable_fwd(tb) if tb != bb else True
        if all(reach.values()):
            # every arm can reach bb: need a stricter notion -- does bb
            # post-dominate? approximate with: arm reaches bb without passing
            # through a loop header dominating the switch.
            continue
        if any(reach.values()):
            out.append((sb, frozenset(v for v, r in reach.items() if r)))
    return out


def switch_expr(body, sb):
    t = body.blocks[sb]["term"]
    return expr_operand(body, t["discr"])


# ---------------------------------------------------------------------------
# A3/A4: inter-body value sources

# Foreign functions through which a value flows unchanged from argument i to
# the result (wrappers, guards, references, conversions).  name -> arg index.
TRANSPARENT = {
    "std::option::Option::<T>::as_ref": 0, "std::option::Option::<T>::as_mut": 0,
    "std::option::Option::<T>::take": 0, "std::option::Option::<T>::expect": 0,
    "std::option::Option::<T>::unwrap": 0, "std::option::Option::<T>::inspect": 0,
    "std::option::Option::<T>::as_deref": 0, "std::option::Option::<T>::unwrap_or_default": 0,
    "std::option::Option::<&T>::copied": 0, "std::option::Option::<&T>::cloned": 0,
    "std::result::Result::<T, E>::expect": 0, "std::result::Result::<T, E>::unwrap": 0,
    "std::result::Result::<T, E>::ok": 0,
    "std::clone::Clone::clone": 0,
    "std::ops::Deref::deref": 0, "std::ops::DerefMut::deref_mut": 0,
    "std::convert::AsRef::as_ref": 0, "std::convert::AsMut::as_mut": 0,
    "std::convert::Into::into": 0, "std::convert::From::from": 0,
    "std::future::IntoFuture::into_future": 0, "std::iter::IntoIterator::into_iter": 0,
    "std::pin::Pin::<Ptr>::new_unchecked": 0, "std::pin::Pin::<Ptr>::new": 0,
    "std::pin::Pin::<&'a mut T>::get_mut": 0, "std::pin::Pin::<Ptr>::as_mut": 0,
    "std::pin::Pin::<&'a mut T>::get_unchecked_mut": 0,
    "tokio::sync::RwLock::<T>::new": 0, "tokio::sync::RwLock::<T>::try_write": 0,
    "tokio::sync::RwLock::<T>::try_read": 0, "tokio::sync::RwLock::<T>::get_mut": 0,
    "tokio::sync::RwLock::<T>::into_inner": 0,
    "futures::StreamExt::left_stream": 0, "futures::StreamExt::right_stream": 0,
    "futures::StreamExt::boxed": 0, "futures::StreamExt::boxed_local": 0,
    "futures::future::maybe_done": 0,
    "std::slice::<impl [T]>::iter": 0,
    "std::slice::<impl [T]>::iter_mut": 0,
    "std::vec::Vec::<T, A>::as_slice": 0, "std::vec::Vec::<T, A>::as_mut_slice": 0,
    "std::iter::Iterator::rev": 0, "std::iter::Iterator::copied": 0, "std::iter::Iterator::cloned": 0,
    "std::iter::Iterator::by_ref": 0, "std::iter::Iterator::peekable": 0,
    "std::ops::Index::index": 0, "std::ops::IndexMut::index_mut": 0,
    "daggy::Walker::iter": 0,
    "daggy::Dag::<N, E, Ix>::graph": 0,       # the Dag's inner petgraph: same nodes and edges
    "std::mem::drop": None,
    "std::mem::take": 0, "std::mem::replace": 0,
    "interruptible::InterruptibleStreamExt::interruptible_with": 0,
    "std::ops::Try::branch": 0,
    "std::ops::Try::from_output": 0,
}

# result[$out + rest] >= arg[i][rest]   (async fns of dependencies whose awaited
# output wraps/guards the argument)
FUTURE_TRANSPARENT = {
    "tokio::sync::RwLock::<T>::write": 0,
    "tokio::sync::RwLock::<T>::read": 0,
}

# result[rest] >= arg[i][($out,)+rest]   (polling a future / taking its output)
OUTPUT_OF = {
    "futures::Future::poll": 0,
    "std::future::Future::poll": 0,
    "futures::future::MaybeDone::<Fut>::take_output": 0,
}

# result[rest] >= arg[i][($item,)+rest]  (taking the next item)
ITEM_OF = {
    "tokio::sync::mpsc::Receiver::<T>::poll_recv": 0,
    "tokio::sync::mpsc::Receiver::<T>::recv": 0,     # (future; $out handled below)
    "tokio::sync::mpsc::Receiver::<T>::try_recv": 0,
    "std::iter::Iterator::next": 0,
    "futures::StreamExt::poll_next_unpin": 0,
    "futures::Stream::poll_next": 0,
    "daggy::petgraph::visit::Topo::<N, VM>::next": 0,
    "daggy::Walker::walk_next": 0,
    "std::collections::VecDeque::<T, A>::pop_front": 0,
    "std::collections::VecDeque::<T, A>::pop_back": 0,
    "std::vec::Vec::<T, A>::pop": 0,
}

# Adaptors taking closures.  For closure argument at position `f`:
#   params: {closure_param_local: [(arg index, path prefix)...]}
#   and how the adaptor's result relates to the closure's return value.
#   'ret' path prefixes: result[prefix_result + rest] >= closure_return[prefix_ret + rest]
ADAPTORS = {
    # futures streams
    "futures::StreamExt::fold": {"f": 2, "params": {2: [(1, ()), ("ret", ("$out",))], 3: [(0, ("$item",))]},
                                 "result": [("ret", ("$out",), ("$out",)), (1, ("$out",), ())]},
    "futures::TryStreamExt::try_fold": {"f": 2, "params": {2: [(1, ()), ("ret", ("$out",))], 3: [(0, ("$item",))]},
                                        "result": [("ret", ("$out",), ("$out",)), (1, ("$out",), ())]},
    "futures::StreamExt::for_each_concurrent": {"f": 2, "params": {2: [(0, ("$item",))]}, "result": []},
    "futures::StreamExt::for_each": {"f": 1, "params": {2: [(0, ("$item",))]}, "result": []},
    "futures::StreamExt::map": {"f": 1, "params": {2: [(0, ("$item",))]},
                                "result": [("ret", ("$item",), ())], "fnitem_result": [(0, ("$item",), ("$item",))]},
    "futures::StreamExt::filter_map": {"f": 1, "params": {2: [(0, ("$item",))]},
                                       "result": [("ret", ("$item",), ("$out",))]},
    "futures::StreamExt::filter": {"f": 1, "params": {2: [(0, ("$item",))]}, "result": [(0, ("$item",), ("$item",))]},
    "futures::StreamExt::inspect": {"f": 1, "params": {2: [(0, ("$item",))]}, "result": [(0, ("$item",), ("$item",))]},
    "futures::StreamExt::then": {"f": 1, "params": {2: [(0, ("$item",))]}, "result": [("ret", ("$item",), ("$out",))]},
    "futures::StreamExt::collect": {"f": None, "params": {}, "result": [(0, ("$out", "$item"), ("$item",))]},
    "futures::stream::poll_fn": {"f": 0, "params": {2: []}, "result": [("ret", ("$item",), ())]},
    # unfold(init, |state| async { Some((item, state)) }): items are field 0 of the closure future's output, the state is init or field 1
    "futures::stream::unfold": {"f": 1, "params": {2: [(0, ()), ("ret", ("$out", 1))]}, "result": [("ret", ("$item",), ("$out", 0))]},
    "futures::stream::try_unfold": {"f": 1, "params": {2: [(0, ()), ("ret", ("$out", 1))]}, "result": [("ret", ("$item",), ("$out", 0))]},
    "futures::future::poll_fn": {"f": 0, "params": {2: []}, "result": [("ret", ("$out",), ())]},
    "std::future::poll_fn": {"f": 0, "params": {2: []}, "result": [("ret", ("$out",), ())]},
    "futures::future::ready": {"f": None, "params": {}, "result": [(0, ("$out",), ())]},
    "std::future::ready": {"f": None, "params": {}, "result": [(0, ("$out",), ())]},
    # Option / Poll / Result
    "std::option::Option::<T>::map": {"f": 1, "params": {2: [(0, ())]}, "result": [("ret", (), ())],
                                      "fnitem_result": [(0, (), ())]},
    "std::option::Option::<T>::inspect": {"f": 1, "params": {2: [(0, ())]}, "result": [(0, (), ())]},
    "std::option::Option::<T>::and_then": {"f": 1, "params": {2: [(0, ())]}, "result": [("ret", (), ())]},
    # map_or(self, default, f) / map_or_else(self, default_fn, f): the closure sees the payload, the result is its result or the default
    "std::option::Option::<T>::map_or": {"f": 2, "params": {2: [(0, ())]}, "result": [("ret", (), ()), (1, (), ())]},
    "std::option::Option::<T>::map_or_else": {"f": 2, "params": {2: [(0, ())]}, "result": [("ret", (), ())]},
    "std::option::Option::<T>::is_some_and": {"f": 1, "params": {2: [(0, ())]}, "result": [("ret", (), ())]},
    "std::option::Option::<T>::filter": {"f": 1, "params": {2: [(0, ())]}, "result": [(0, (), ())]},
    "std::task::Poll::<T>::map": {"f": 1, "params": {2: [(0, ())]}, "result": [("ret", (), ())],
                                  "fnitem_result": [(0, (), ())]},
    "std::result::Result::<T, E>::map": {"f": 1, "params": {2: [(0, ())]}, "result": [("ret", (), ()), (0, (), ())],
                                         "fnitem_result": [(0, (), ())], "ok_ret_err_arg": 0},
    "std::result::Result::<T, E>::map_err": {"f": 1, "params": {2: [(0, ())]}, "result": [("ret", (), ()), (0, (), ())],
                                             "fnitem_result": [(0, (), ())]},
    "std::result::Result::<T, E>::and_then": {"f": 1, "params": {2: [(0, ())]}, "result": [("ret", (), ()), (0, (), ())]},
    # `[T; N]::map(f)`: the elements (unmarked path) are what `f` returns for the elements of the receiver
    "std::array::<impl [T; N]>::map": {"f": 1, "params": {2: [(0, ())]}, "result": [("ret", (), ())]},
    # iterators
    "std::iter::Iterator::map": {"f": 1, "params": {2: [(0, ("$item",))]}, "result": [("ret", ("$item",), ())],
                                 "fnitem_result": [(0, ("$item",), ("$item",))]},
    # flat_map(f): the closure sees the items of the receiver; the result's items are the items of what the closure returns
    "std::iter::Iterator::flat_map": {"f": 1, "params": {2: [(0, ("$item",))]}, "result": [("ret", ("$item",), ("$item",))]},
    "std::iter::Iterator::filter": {"f": 1, "params": {2: [(0, ("$item",))]}, "result": [(0, ("$item",), ("$item",))]},
    "std::iter::Iterator::filter_map": {"f": 1, "params": {2: [(0, ("$item",))]}, "result": [("ret", ("$item",), ())]},
    "std::iter::Iterator::inspect": {"f": 1, "params": {2: [(0, ("$item",))]}, "result": [(0, ("$item",), ("$item",))]},
    "std::iter::Iterator::for_each": {"f": 1, "params": {2: [(0, ("$item",))]}, "result": []},
    "std::iter::Iterator::try_for_each": {"f": 1, "params": {2: [(0, ("$item",))]}, "result": [("ret", (), ())]},
    "std::iter::Iterator::any": {"f": 1, "params": {2: [(0, ("$item",))]}, "result": [("ret", (), ())]},
    "std::iter::Iterator::all": {"f": 1, "params": {2: [(0, ("$item",))]}, "result": [("ret", (), ())]},
    "std::iter::Iterator::find": {"f": 1, "params": {2: [(0, ("$item",))]}, "result": [(0, (), ("$item",))]},
    "std::iter::Iterator::position": {"f": 1, "params": {2: [(0, ("$item",))]}, "result": []},
    "std::iter::Iterator::fold": {"f": 2, "params": {2: [(1, ()), ("ret", ())], 3: [(0, ("$item",))]},
                                  "result": [("ret", (), ()), (1, (), ())]},
    "std::iter::Iterator::try_fold": {"f": 2, "params": {2: [(1, ()), ("ret", ())], 3: [(0, ("$item",))]},
                                      "result": [("ret", (), ()), (1, (), ())]},
    "std::iter::Iterator::zip": {"f": None, "params": {}, "result": [(0, ("$item", 0), ("$item",)), (1, ("$item", 1), ("$item",))]},
    "std::iter::Iterator::enumerate": {"f": None, "params": {}, "result": [(0, ("$item", 1), ("$item",))]},
    # collect: the collection itself is an allocation site; its items are the iterator's items
    "std::iter::Iterator::collect": {"f": None, "params": {}, "result": [(0, ("$item",), ("$item",))]},
    "std::iter::from_fn": {"f": 0, "params": {}, "result": [("ret", ("$item",), ())]},
    "std::slice::<impl [T]>::sort_by": {"f": 1, "params": {2: [(0, ("$item",))], 3: [(0, ("$item",))]}, "result": []},
    "std::slice::<impl [T]>::sort_by_key": {"f": 1, "params": {2: [(0, ("$item",))]}, "result": []},
    "std::slice::<impl [T]>::sort_by_cached_key": {"f": 1, "params": {2: [(0, ("$item",))]}, "result": []},
    "std::slice::<impl [T]>::sort_unstable_by": {"f": 1, "params": {2: [(0, ("$item",))], 3: [(0, ("$item",))]}, "result": []},
    "std::slice::<impl [T]>::sort_unstable_by_key": {"f": 1, "params": {2: [(0, ("$item",))]}, "result": []},
}

# futures whose output is the next item of the stream / channel argument:
# result[($out,)+rest] >= arg[i][($item,)+rest]
NEXT_ITEM_FUTURE = {
    "futures::StreamExt::next": 0,
    "tokio::sync::mpsc::Receiver::<T>::recv": 0,
    "tokio::sync::mpsc::UnboundedReceiver::<T>::recv": 0,
    "futures::TryStreamExt::try_next": 0,
}

# container writes: the items of the container include the pushed value
PUSH_FNS_FLOW = {
    "std::vec::Vec::<T, A>::push": 1, "std::collections::VecDeque::<T, A>::push_back": 1,
    "std::collections::VecDeque::<T, A>::push_front": 1, "std::vec::Vec::<T, A>::insert": 2,
}

# container reads: result >= arg0[$item] stripped (element of collection)
ELEMENT_OF = {
    "std::ops::Index::index", "std::ops::IndexMut::index_mut",
}


class Src(tuple):
    """Abstract value source.  ('alloc', body, bb, path, callee) |
    ('const', val) | ('param', fn, idx, path) | ('userfut', param) |
    ('agg', body, bb, si, def) | ('op', body, bb, si) | ('unknown', why) |
    ('closure_param', body, idx, path) | ('ctx',)"""
    __slots__ = ()

    @property
    def kind(self):
        return self[0]


def norm_path(path):
    """failure tags are idempotent: Break(Err(e)) and Err(e) denote the same error"""
    out = []
    for x in path:
        if x == "E" and out and out[-1] == "E":
            continue
        out.append(x)
    return tuple(out)


class Flow:
    context_sensitive_calls = True
    merge_call_targets = frozenset()
    alloc_wrappers = {}
    relabel_alloc_fns = frozenset()

    def __init__(self, fb):
        self.fb = fb
        self.table = {}
        self.changed = False
        self._closure_sites = None
        self._call_sites = None
        self.unknown_adaptors = set()

    # -- indices -----------------------------------------------------------
    def closure_sites(self):
        """closure/coroutine def id -> [(body, bb, si, stmt)] construction sites"""
        if self._closure_sites is None:
            m = {}
            for b in self.fb.bodies.values():
                for bb, si, s in b.stmts():
                    if s["k"] == "assign" and s["rv"]["k"] == "agg" and s["rv"]["ak"] in ("closure", "coroutine", "coroutine_closure"):
                        m.setdefault(s["rv"]["def"], []).append((b, bb, si, s))
            self._closure_sites = m
        return self._closure_sites

    def call_sites(self):
        """callee path -> [(body, bb, term)]"""
        if self._call_sites is None:
            m = {}
            for b in self.fb.bodies.values():
                for bb, t in b.calls():
                    p = callee_path(t)
                    if p:
                        m.setdefault(p, []).append((b, bb, t))
                    # a trait-method call resolved to a crate-local impl is also a call site of that impl
                    r = (t.get("callee") or {}).get("resolved")
                    if isinstance(r, dict) and r.get("path") and r["path"] != p and r["path"] in self.fb.bodies:
                        m.setdefault(r["path"], []).append((b, bb, t))
            self._call_sites = m
        return self._call_sites

    # -- public API ----------------------------------------------------------
    def sources_place(self, body, pl, rest=(), mode="prov"):
        return self.query(("P", body.id, pl["l"], norm_path(strip_proj(pl["p"]) + tuple(rest)), mode))

    def sources_operand(self, body, op, rest=(), mode="prov"):
        if op["k"] == "const":
            return frozenset([Src(("const", op.get("bits", op["val"]), op["ty"], body.id))])
        return self.sources_place(body, op["pl"], rest, mode)

    def sources_local(self, body, local, path=(), mode="prov"):
        return self.query(("P", body.id, local, norm_path(path), mode))

    def query(self, key):
        # iterate to a fixpoint over the (monotone) table
        for _ in range(50):
            self.changed = False
            self._visiting = set()
            self._done = set()
            r = self._eval(key)
            if not self.changed:
                return r
        return self.table.get(key, frozenset())

    # -- evaluation ----------------------------------------------------------
    def _eval(self, key):
        if key in self._done:
            return self.table.get(key, frozenset())
        if key in self._visiting:
            return self.table.get(key, frozenset())
        self._visiting.add(key)
        _, bid, local, path, mode = key
        body = self.fb.bodies[bid]
        res = set(self.table.get(key, ()))
        if len(path) > 12:
            res.add(Src(("unknown", "path too deep")))
        else:
            res |= self._compute(body, local, path, mode)
        self._visiting.discard(key)
        self._done.add(key)
        fr = frozenset(res)
        if fr != self.table.get(key):
            self.table[key] = fr
            self.changed = True
        return fr

    def _q(self, body, local, path, mode):
        return self._eval(("P", body.id, local, norm_path(path), mode))

    def _q_operand(self, body, op, rest, mode):
        if op["k"] == "const":
            if "fn" in op:
                return {Src(("fnitem", op["fn"]["path"]))}
            return {Src(("const", op.get("bits", op["val"]), op["ty"], body.id))}
        if op["k"] not in ("copy", "move"):
            return {Src(("unknown", "operand"))}
        pl = op["pl"]
        return self._q(body, pl["l"], strip_proj(pl["p"]) + tuple(rest), mode)

    def _compute(self, body, local, path, mode):
        res = set()
        if local == 0 and False:
            pass
        if 1 <= local <= body.arg_count:
            res |= self._arg_sources(body, local, path, mode)
        for kind, bb, si, x in get_defs(body).of(local):
            if kind == "stmt":
                dpath = strip_proj(x["pl"]["p"])
                if path[:len(dpath)] == dpath:
                    res |= self._rvalue(body, x["rv"], path[len(dpath):], mode, bb, si)
                elif dpath[:len(path)] == path and mode.startswith("taint"):
                    res |= self._rvalue(body, x["rv"], (), mode, bb, si)
            elif kind == "call":
                dpath = strip_proj(x["dest"]["p"])
                if path[:len(dpath)] == dpath:
                    res |= self._call(body, bb, x, path[len(dpath):], mode)
            elif kind == "yield":
                res.add(Src(("ctx",)))
        if mode.startswith("taint"):
            for kind, bb, si, x in get_defs(body).through.get(local, []):
                res |= self._rvalue(body, x["rv"], (), mode, bb, si)
        if path and path[0] == "$item":
            # values pushed into this container in the same body
            for cbb, t in body.calls():
                p_ = callee_path(t)
                if p_ in PUSH_FNS_FLOW and t["args"] and t["args"][0]["k"] != "const":
                    a0 = strip_refs(expr_operand(body, t["args"][0]))
                    if a0 == E(("local", local)) or a0 == E(("arg", local)):
                        res |= self._q_operand(body, t["args"][PUSH_FNS_FLOW[p_]], path[1:], mode)
        return res

    def _rvalue(self, body, rv, rest, mode, bb, si):
        k = rv["k"]
        if k == "use":
            return self._q_operand(body, rv["op"], rest, mode)
        if k in ("ref", "rawptr", "copy_for_deref"):
            pl = rv["pl"]
            return self._q(body, pl["l"], strip_proj(pl["p"]) + tuple(rest), mode)
        if k == "cast":
            return self._q_operand(body, rv["op"], rest, mode)
        if k == "agg":
            ak = rv["ak"]
            ops = rv["ops"]
            if ak == "adt" and rv.get("variant") in TAGGED_VARIANTS and len(ops) == 1:
                tag = TAGGED_VARIANTS[rv["variant"]]
                if rest and rest[0] == tag:
                    return self._q_operand(body, ops[0], rest[1:], mode)
                if mode.startswith("taint") and not rest:
                    return self._q_operand(body, ops[0], (), mode)
                return set()
            if ak == "adt" and rv["def"] in WRAPPER_ADTS or (ak == "adt" and rv.get("variant") in WRAPPER_VARIANTS and len(ops) == 1):
                if rest and rest[0] == "E":
                    return set()
                if ops:
                    return self._q_operand(body, ops[0], rest, mode)
                # None / Pending / ... carry no payload
                return set()
            if ak in ("closure", "coroutine", "coroutine_closure") and rest and rest[0] in ("$out", "$item"):
                # the value produced by running this async block / closure
                cb = self.fb.bodies.get(rv["def"])
                if cb is not None and rest[0] == "$out":
                    return self._q(cb, 0, rest[1:], mode)
                return {Src(("unknown", "item of closure"))}
            if ak == "adt" and rest and isinstance(rest[0], str) and rest[0][:1] == "v" and rest[0][1:].isdigit():
                # `if let Holder::Open(tx) = &holder`: the payload of variant N of a crate-local enum; a different variant
                # (`Holder::Closed`) carries nothing
                if rv.get("vidx") is not None and int(rest[0][1:]) != rv["vidx"]:
                    return set()
                rest = rest[1:]
            if rest and isinstance(rest[0], int):
                if rest[0] < len(ops):
                    return self._q_operand(body, ops[rest[0]], rest[1:], mode)
                return {Src(("unknown", "field out of range"))}
            if ak == "adt" and rest and rest[0] == "$item" and mode.startswith("prov"):
                # a crate-local struct with a hand-written `Stream` impl: its items are what poll_next returns, with the
                # fields of `self` standing for the operands of THIS construction
                pn = self.local_stream_impl(rv.get("def"))
                if pn is not None:
                    out = set()
                    for x in self._q(pn, 0, tuple(rest[1:]), "prov@" + pn.id):
                        if x.kind == "param" and x[1] == pn.id and x[2] == 1 and x[3] and isinstance(x[3][0], int) and x[3][0] < len(ops):
                            out |= self._q_operand(body, ops[x[3][0]], tuple(x[3][1:]), mode)
                        else:
                            out.add(x)
                    return out
            out = {Src(("agg", body.id, bb, si, rv.get("def") or ak))}
            if mode.startswith("taint") or rest:
                for o in ops:
                    out |= self._q_operand(body, o, rest if not rest or not isinstance(rest[0], int) else rest[1:], mode)
            return out
        if k in ("binop", "unop"):
            out = set()
            out.add(Src(("op", body.id, bb, si, rv["op"])))
            if mode.startswith("taint"):
                out |= self._q_operand(body, rv["a"], (), mode)
                if k == "binop":
                    out |= self._q_operand(body, rv["b"], (), mode)
            return out
        if k == "discr":
            if mode.startswith("taint"):
                pl = rv["pl"]
                return self._q(body, pl["l"], strip_proj(pl["p"]), mode)
            return {Src(("op", body.id, bb, si, "discr"))}
        if k == "repeat":
            return self._q_operand(body, rv["op"], rest, mode)
        return {Src(("unknown", "rvalue " + k))}

    # -- calls ---------------------------------------------------------------
    def _call(self, body, bb, t, rest, mode):
        c = t.get("callee")
        args = t["args"]
        if c is None:
            # call through a value (closure local / fn pointer)
            ct = t.get("callee_ty") or {}
            if ct.get("k") == "param":
                return {Src(("usercall", ct.get("def")))}
            if ct.get("k") in ("closure",):
                cb = self.fb.bodies.get(ct.get("def"))
                if cb is not None:
                    return self._q(cb, 0, rest, mode)
            return {Src(("unknown", "indirect call"))}
        path = c["path"]
        pc = is_param_call(t)
        if pc:
            internal = self.internal_callback(body, pc)
            if internal is not None and len(internal) > 1 and "@" in mode and mode.split("@", 1)[1] == body.root:
                # summary of the helper: the result of "whatever closure this call site passes" (instantiated per call site)
                sigr = self.fb.fns.get(body.root) or {}
                pos = [i for i, x in enumerate(sigr.get("inputs", [])) if x["s"].lstrip("&").replace("mut ", "").strip() == pc]
                if len(pos) == 1:
                    return {Src(("paramcall", body.root, pos[0] + 1, tuple(rest)))}
            if internal is not None:
                # a private higher-order helper calling the crate's own closure: the result is that closure's result
                out = set()
                for cb in internal:
                    out |= self._q(cb, 0, rest, mode)
                return out
            if rest and rest[0] == "$out":
                return {Src(("userfut", pc, tuple(rest[1:])))}
            return {Src(("usercall", pc, tuple(rest)))}
        # closure called through Fn* traits with a concrete closure type
        if c.get("trait") in ("std::ops::Fn", "std::ops::FnMut", "std::ops::FnOnce"):
            st = c.get("self_ty") or {}
            if st.get("k") == "closure":
                cb = self.fb.bodies.get(st.get("def"))
                if cb is not None:
                    return self._q(cb, 0, rest, mode)
        # crate-local callee with a body
        target = None
        r = c.get("resolved")
        if isinstance(r, dict) and r.get("local") and r["path"] in self.fb.bodies:
            target = r["path"]
        elif c.get("local") and path in self.fb.bodies:
            target = path
        if target is not None:
            cb = self.fb.bodies[target]
            base_mode = mode.split("@", 1)[0]
            if cb.kind == "fn" and self.context_sensitive_calls and \
                    target not in self.merge_call_targets and mode != base_mode + "@" + target:
                # instantiate the callee's summary at THIS call site: what its result derives from, with the callee's own
                # parameters replaced by the arguments given here (a small helper called with the ready-sender at one site
                # and the done-sender at another must not merge the two)
                out = self.instantiate_summary(body, t, target, self._q(cb, 0, rest, base_mode + "@" + target), mode)
            else:
                out = self._q(cb, 0, rest, mode)
            if self.relabel_alloc_fns and cb.kind == "fn":
                # an allocation-like call made directly in a private helper on (part of) what the helper is given
                # (`DataAccess::of(f)` calling `f.borrows()`): per call site of the helper it is a value of its own
                sg_ = self.fb.fns.get(target) or {}
                if not self.externally_callable(sg_):
                    out = {self._relabel_alloc(x, body, bb, target, cb) if (x.kind == "alloc" and x[1] == target and x[4] in self.relabel_alloc_fns) else x
                           for x in out}
            if target in self.alloc_wrappers:
                # a private constructor that only wraps one allocation (e.g. `FnIdChannel::new(cap)` around `mpsc::channel(cap)`):
                # each of its call sites is an allocation site of its own
                inner = self.alloc_wrappers[target]
                out = {Src(("alloc", body.id, bb, x[3], x[4])) if (x.kind == "alloc" and (x[1], x[2]) == inner) else x for x in out}
            return out
        if path == "std::ops::FromResidual::from_residual":
            # produces only failure values: Err(From::from(e))
            if rest and rest[0] == "E":
                return self._q_operand(body, args[0], rest, mode)
            if mode.startswith("taint") and not rest:
                return self._q_operand(body, args[0], ("E",), mode)
            return set()
        if path == "std::clone::Clone::clone" and (c.get("self_ty") or {}).get("s", "").startswith(("std::vec::Vec<", "[")):
            # cloning a collection makes a fresh copy: an allocation site of its own
            return {Src(("alloc", body.id, bb, tuple(rest), path))}
        if path in ("std::convert::From::from", "std::convert::Into::into", "std::borrow::ToOwned::to_owned") and \
                t["dest"]["ty"].startswith("std::vec::Vec<") and args and args[0]["k"] != "const" and \
                args[0]["pl"]["ty"].startswith(("&[", "&mut [", "&std::vec::Vec<")):
            # Vec::from(&[T]) / slice.to_owned(): a fresh copy of a borrowed sequence
            return {Src(("alloc", body.id, bb, tuple(rest), path))}
        if path.endswith("::then_some") and len(args) == 2:
            return self._q_operand(body, args[1], rest, mode)
        if path in TRANSPARENT:
            i = TRANSPARENT[path]
            if i is None:
                return set()
            out = self._q_operand(body, args[i], rest, mode)
            if path in ELEMENT_OF and mode.startswith("taint") and len(args) > 1:
                out = set(out) | self._q_operand(body, args[1], (), mode)
            return out
        if path in OUTPUT_OF:
            return self._q_operand(body, args[OUTPUT_OF[path]], ("$out",) + tuple(rest), mode)
        if path in ITEM_OF:
            return self._q_operand(body, args[ITEM_OF[path]], ("$item",) + tuple(rest), mode)
        if path in ("futures::future::join", "futures::future::join3", "futures::future::join4"):
            # output of join(a, b) = (output of a, output of b)
            if len(rest) >= 2 and rest[0] == "$out" and isinstance(rest[1], int) and rest[1] < len(args):
                return self._q_operand(body, args[rest[1]], ("$out",) + tuple(rest[2:]), mode)
            return {Src(("alloc", body.id, bb, tuple(rest), path))}
        if path in NEXT_ITEM_FUTURE:
            if rest and rest[0] == "$out":
                return self._q_operand(body, args[NEXT_ITEM_FUTURE[path]], ("$item",) + tuple(rest[1:]), mode)
            return {Src(("alloc", body.id, bb, tuple(rest), path))}
        if path in FUTURE_TRANSPARENT:
            if rest and rest[0] == "$out":
                return self._q_operand(body, args[FUTURE_TRANSPARENT[path]], rest[1:], mode)
            return {Src(("alloc", body.id, bb, tuple(rest), path))}
        if path in ADAPTORS:
            return self._adaptor_result(body, bb, t, ADAPTORS[path], rest, mode)
        out = {Src(("alloc", body.id, bb, tuple(rest), path))}
        if mode.startswith("taint"):
            for a in args:
                out |= self._q_operand(body, a, (), mode)
        return out

    def _relabel_alloc(self, x, body, bb, target, cb):
        """the allocation-like call `x` made inside helper `target` on one of its parameters, seen from the call of the helper at
        (body, bb): an allocation of its own there, tagged with the helper parameter it was made on"""
        try:
            term = cb.blocks[x[2]]["term"]
            prev = [p for p in x[3] if isinstance(p, str) and p.startswith("@arg")]
            ai = int(prev[-1][4:]) - 1 if prev else 0
            srcs = self._q_operand(cb, term["args"][ai], (), "prov@" + target)
        except Exception:
            return x
        ks = {s_[2] for s_ in srcs if s_.kind == "param" and s_[1] == target}
        if len(ks) != 1 or any(s_.kind != "param" for s_ in srcs):
            return x
        path = tuple(p for p in x[3] if not (isinstance(p, str) and p.startswith("@arg"))) + ("@arg%d" % list(ks)[0],)
        return Src(("alloc", body.id, bb, path, x[4]))

    def local_stream_impl(self, adt):
        """body of `<adt as Stream>::poll_next` when the crate implements Stream for its own struct `adt`"""
        cache = self.__dict__.setdefault("_stream_impls", {})
        if adt not in cache:
            res = None
            for f in self.fb.fns.values():
                if f.get("name") == "poll_next" and (f.get("impl_trait") or "").endswith("Stream") and \
                        (f.get("impl_self") or "").split("<")[0].lstrip("&").strip() == adt and f["id"] in self.fb.bodies:
                    res = self.fb.bodies[f["id"]]
            cache[adt] = res
        return cache[adt]

    def instantiate_summary(self, body, t, target, summ, mode="prov"):
        """value sources computed inside `target` in boundary mode (`prov@target`), re-expressed at the call `t` in `body`:
        the callee's parameters become this call's arguments, a call of its callback parameter becomes the result of the
        closure passed here"""
        args = t["args"]
        out = set()
        for x in summ:
            if x.kind == "param" and x[1] == target and isinstance(x[2], int) and 1 <= x[2] <= len(args):
                out |= self._q_operand(body, args[x[2] - 1], tuple(x[3]), mode)
            elif x.kind == "paramcall" and x[1] == target and 1 <= x[2] <= len(args):
                cbx = self._closure_body_of_operand(body, args[x[2] - 1])
                if cbx is not None:
                    out |= self._q(cbx, 0, tuple(x[3]), mode)
                else:
                    out.add(Src(("unknown", "callback passed to %s" % target)))
            else:
                out.add(x)
        return out

    def _closure_body_of_operand(self, body, op):
        """Closure body passed as operand (by its type); a named crate-local
        function passed as a value counts as a closure without environment."""
        if op["k"] == "const":
            f = op.get("fn")
            if f:
                r = f.get("resolved")
                if isinstance(r, dict) and r.get("path") in self.fb.bodies:
                    return self.fb.bodies[r["path"]]
                return self.fb.bodies.get(f.get("path"))
            return None
        l = op["pl"]["l"]
        ty = body.locals[l]
        if ty.get("k") in ("closure", "coroutine_closure"):
            return self.fb.bodies.get(ty.get("def"))
        return None

    def _adaptor_result(self, body, bb, t, model, rest, mode):
        args = t["args"]
        out = set()
        f = model.get("f")
        cb = self._closure_body_of_operand(body, args[f]) if f is not None and f < len(args) else None
        rules = model["result"]
        if f is not None and cb is None and f < len(args) and args[f]["k"] != "const":
            # the adaptor's function is a value of a type parameter (the library user's callback passed on, possibly by reference):
            # what the adaptor produces from it is that callback's result
            lt = body.locals[args[f]["pl"]["l"]] if not args[f]["pl"]["p"] else {}
            if lt.get("k") == "param" and self.internal_callback(body, lt.get("def")) is None and any(r_[0] == "ret" for r_ in rules):
                out = set()
                for src, rprefix, aprefix in rules:
                    rprefix = tuple(rprefix)
                    if tuple(rest[:len(rprefix)]) != rprefix:
                        continue
                    tail = tuple(rest[len(rprefix):])
                    if src == "ret":
                        full = tuple(aprefix) + tail
                        if full and full[0] == "$out":
                            out.add(Src(("userfut", lt.get("def"), tuple(full[1:]))))
                        else:
                            out.add(Src(("usercall", lt.get("def"), full)))
                    else:
                        out |= self._q_operand(body, args[src], tuple(aprefix) + tail, mode)
                if out:
                    return out
        if f is not None and cb is None and "fnitem_result" in model:
            rules = model["fnitem_result"]
        if cb is not None and "ok_ret_err_arg" in model:
            # Result::map(r, f): the Ok payload is what `f` returns, the Err payload is r's; a payload path never reaches into
            # the other side
            ea = model["ok_ret_err_arg"]
            if rest and rest[0] == "E":
                return set(self._q_operand(body, args[ea], rest, mode))
            out = set(self._q(cb, 0, tuple(rest), mode))
            if not rest:
                out |= self._q_operand(body, args[ea], ("E",), mode)
            if mode.startswith("taint"):
                out |= self._q_operand(body, args[ea], tuple(rest), mode)
            return out
        matched = False
        for src, rprefix, aprefix in rules:
            rprefix = tuple(rprefix)
            if tuple(rest[:len(rprefix)]) != rprefix:
                continue
            matched = True
            tail = tuple(rest[len(rprefix):])
            if src == "ret":
                if cb is None:
                    out.add(Src(("unknown", "adaptor closure not found: " + t["callee"]["path"])))
                else:
                    out |= self._q(cb, 0, tuple(aprefix) + tail, mode)
            else:
                out |= self._q_operand(body, args[src], tuple(aprefix) + tail, mode)
        if not matched:
            out.add(Src(("alloc", body.id, bb, tuple(rest), t["callee"]["path"])))
        return out

    # -- arguments -------------------------------------------------------------
    def _arg_sources(self, body, local, path, mode):
        res = set()
        if body.kind in ("closure", "coroutine"):
            if local == 1:
                # closure environment: path[0] is the upvar index
                if not path or not isinstance(path[0], int):
                    return {Src(("env", body.id))}
                idx = path[0]
                sites = self.closure_sites().get(body.id, [])
                if not sites:
                    return {Src(("unknown", "no construction site for " + body.id))}
                for (pb, bb, si, s) in sites:
                    ops = s["rv"]["ops"]
                    if idx < len(ops):
                        res |= self._q_operand(pb, ops[idx], path[1:], mode)
                return res
            if body.kind == "coroutine":
                return {Src(("ctx",))}
            # closure parameter: find the adaptor the closure is passed to
            return self._closure_param(body, local, path, mode)
        if "@" in mode and mode.split("@", 1)[1] == body.id:
            # boundary query (`prov@<fn>`): stop at this function's parameters
            return {Src(("param", body.id, local, tuple(path)))}
        # plain fn parameter: all in-crate call sites, else entry parameter
        sites = self.call_sites().get(body.id, [])
        sig = self.fb.fns.get(body.id)
        if not sites and path and isinstance(path[0], int):
            # a method nobody in the crate calls directly (a trait method such as Iterator::next driven by the consumer) on a
            # crate-private struct: a field of `self` holds whatever any construction of that struct puts into it
            ty_s = body.locals[local]["s"]
            if ty_s.startswith("std::pin::Pin<"):
                ty_s = ty_s[len("std::pin::Pin<"):]        # `self: Pin<&mut Self>` of a hand-written Stream / Future
            ty = ty_s.lstrip("&").replace("mut ", "").strip().split("<")[0]
            adt = self.fb.adts.get(ty)
            if adt is not None and not adt.get("public") and adt.get("kind") == "Struct":
                found = False
                for pb in self.fb.prod_bodies():
                    for bb_, si_, st_ in pb.stmts():
                        if st_["k"] == "assign" and st_["rv"]["k"] == "agg" and st_["rv"].get("def") == ty and path[0] < len(st_["rv"]["ops"]):
                            res |= self._q_operand(pb, st_["rv"]["ops"][path[0]], tuple(path[1:]), mode)
                            found = True
                if found:
                    return res
        if sig is None or self.externally_callable(sig) or not sites:
            res.add(Src(("param", body.id, local, tuple(path))))
        for (cb, bb, t) in sites:
            if local - 1 < len(t["args"]):
                res |= self._q_operand(cb, t["args"][local - 1], path, mode)
        # the function passed as a value to an adaptor (`.map(helper)`): its parameter i is the closure parameter i+1
        for (pb, bb, t, ai) in self.fn_item_uses().get(body.id, []):
            p = callee_path(t)
            model = ADAPTORS.get(p)
            if model is None or model.get("f") != ai or (local + 1) not in model["params"]:
                res.add(Src(("unknown", "function item %s passed to %s" % (body.id, p))))
                continue
            res.discard(Src(("param", body.id, local, tuple(path)))) if not (sig is None or sig.get("public")) else None
            for src, prefix in model["params"][local + 1]:
                if src == "ret":
                    res |= self._q(body, 0, tuple(prefix) + tuple(path), mode)
                else:
                    res |= self._q_operand(pb, t["args"][src], tuple(prefix) + tuple(path), mode)
        return res

    def externally_callable(self, sig):
        """public item, unless it is a trait method implemented for a type that is private to the crate"""
        if not sig.get("public"):
            return False
        if sig.get("impl_trait") and sig.get("impl_self"):
            ty = sig["impl_self"].split("<")[0].lstrip("&").strip()
            adt = self.fb.adts.get(ty)
            if adt is not None and not adt.get("public"):
                return False
        return True

    def internal_callback(self, body, pname):
        """If the type parameter `pname` called in `body` is a parameter of a
        private crate-local function to which every call site passes one of the
        crate's own closures / functions, returns those closure bodies; None when
        the callee is (or may be) the library user's callback."""
        key = (body.root, pname)
        cache = self.__dict__.setdefault("_internal_cb", {})
        if key in cache:
            return cache[key]
        res = None
        R = self.fb.bodies.get(body.root)
        sig = self.fb.fns.get(body.root)
        if R is not None and sig is not None and not sig.get("public"):
            pos = [i for i, x in enumerate(sig["inputs"]) if x["s"].lstrip("&").replace("mut ", "").strip() == pname]
            sites = [(cb, bb, t) for (cb, bb, t) in self.call_sites().get(R.id, []) if not self.fb.is_test_body(cb)]
            if len(pos) == 1 and sites:
                bodies = []
                ok = True
                for cb, bb, t in sites:
                    if pos[0] >= len(t["args"]):
                        ok = False
                        break
                    x = self._closure_body_of_operand(cb, t["args"][pos[0]])
                    if x is None:
                        ok = False
                        break
                    bodies.append(x)
                if ok:
                    res = bodies
        cache[key] = res
        return res

    def internal_callback_sites(self, cbody):
        """calls `f(args)` of the private higher-order helper(s) that closure `cbody` is passed to: [(body, bb, term)]"""
        out = []
        for (pb, bb, t, ai) in self.closure_uses(cbody):
            p = callee_path(t)
            R = self.fb.bodies.get(p)
            sig = self.fb.fns.get(p)
            if R is None or sig is None or ai >= len(sig["inputs"]):
                continue
            pname = sig["inputs"][ai]["s"].lstrip("&").replace("mut ", "").strip()
            for hb in self.fb.bodies.values():
                if hb.root != R.id:
                    continue
                for hbb, ht in hb.calls():
                    if is_param_call(ht) == pname and self.internal_callback(hb, pname) is not None:
                        out.append((hb, hbb, ht))
        return out

    def fn_item_uses(self):
        """crate-local function id -> [(body, bb, call term, arg index)] where the function item is passed as an argument"""
        m = getattr(self, "_fn_item_uses", None)
        if m is None:
            m = {}
            for b in self.fb.bodies.values():
                for bb, t in b.calls():
                    for ai, a in enumerate(t["args"]):
                        if a.get("k") == "const" and "fn" in a:
                            f = a["fn"]
                            r = f.get("resolved")
                            pth = r["path"] if isinstance(r, dict) and r.get("path") in self.fb.bodies else f.get("path")
                            if pth in self.fb.bodies:
                                m.setdefault(pth, []).append((b, bb, t, ai))
            self._fn_item_uses = m
        return m

    def closure_uses(self, cbody):
        """[(parent body, bb, term, arg position)] where closure value is
        passed to a call."""
        out = []
        for (pb, bb, si, s) in self.closure_sites().get(cbody.id, []):
            l = s["pl"]["l"]
            # follow moves of the closure local within the parent
            locs = {l}
            changed = True
            while changed:
                changed = False
                for b2, s2i, s2 in pb.stmts():
                    if s2["k"] == "assign" and s2["rv"]["k"] in ("use", "ref"):
                        srcpl = s2["rv"]["op"].get("pl") if s2["rv"]["k"] == "use" else s2["rv"]["pl"]
                        if srcpl and srcpl["l"] in locs and not srcpl["p"] and s2["pl"]["l"] not in locs and not s2["pl"]["p"]:
                            locs.add(s2["pl"]["l"])
                            changed = True
            for b2, t in pb.calls():
                for ai, a in enumerate(t["args"]):
                    if a["k"] in ("copy", "move") and a["pl"]["l"] in locs and not a["pl"]["p"]:
                        out.append((pb, b2, t, ai))
            # the closure value captured by another closure built in the same body (`let f = |x| ..; it.map(|o| o.map(f))`):
            # its uses are the calls inside that closure which pass the captured variable on
            for b2, s2i, s2 in pb.stmts():
                if s2["k"] == "assign" and s2["rv"]["k"] == "agg" and s2["rv"].get("ak") in ("closure", "coroutine_closure", "coroutine") and \
                        s2["rv"].get("def") != cbody.id:
                    for ui, o in enumerate(s2["rv"]["ops"]):
                        if o["k"] in ("copy", "move") and o["pl"]["l"] in locs and not o["pl"]["p"]:
                            cb2 = self.fb.bodies.get(s2["rv"].get("def"))
                            if cb2 is None:
                                continue
                            def is_upvar(pl):
                                fs = [x for x in pl["p"] if isinstance(x, dict) and "f" in x]
                                return pl["l"] == 1 and len(fs) == 1 and fs[0]["f"] == ui
                            locs2 = set()
                            ch2 = True
                            while ch2:
                                ch2 = False
                                for b3, s3i, s3 in cb2.stmts():
                                    if s3["k"] == "assign" and s3["rv"]["k"] in ("use", "ref", "copy_for_deref") and not s3["pl"]["p"] and s3["pl"]["l"] not in locs2:
                                        sp = s3["rv"]["op"].get("pl") if s3["rv"]["k"] == "use" else s3["rv"]["pl"]
                                        if sp and (is_upvar(sp) or (sp["l"] in locs2 and all(x == "*" for x in sp["p"]))):
                                            locs2.add(s3["pl"]["l"])
                                            ch2 = True
                            for b3, t3 in cb2.calls():
                                for ai, a in enumerate(t3["args"]):
                                    if a["k"] in ("copy", "move") and (is_upvar(a["pl"]) or (a["pl"]["l"] in locs2 and not a["pl"]["p"])):
                                        out.append((cb2, b3, t3, ai))
        return out

    def _closure_param(self, cbody, local, path, mode):
        res = set()
        uses = self.closure_uses(cbody)
        if not uses:
            return {Src(("closure_param", cbody.id, local, tuple(path)))}
        for (pb, bb, t, ai) in uses:
            p = callee_path(t)
            model = ADAPTORS.get(p)
            if model is None or model.get("f") != ai or local not in model["params"]:
                # closure used as a callback in a crate-local function?
                if p in self.fb.bodies or (t.get("callee") or {}).get("local"):
                    sites = self.internal_callback_sites(cbody)
                    if sites:
                        # parameter j of the closure = element j of the argument tuple of `f(..)` inside the helper
                        for (hb, hbb, ht) in sites:
                            if len(ht["args"]) > 1:
                                res |= self._q_operand(hb, ht["args"][1], (local - 2,) + tuple(path), mode)
                        continue
                    res.add(Src(("closure_param", cbody.id, local, tuple(path))))
                    continue
                self.unknown_adaptors.add(p)
                res.add(Src(("unknown", "adaptor %s param %d" % (p, local))))
                continue
            for src, prefix in model["params"][local]:
                if src == "ret":
                    res |= self._q(cbody, 0, tuple(prefix) + tuple(path), mode)
                else:
                    res |= self._q_operand(pb, t["args"][src], tuple(prefix) + tuple(path), mode)
        return res


def fmt_src(s):
    k = s.kind
    if k == "alloc":
        return "alloc[%s @%s bb%d %s]" % (s[4], s[1], s[2], ".".join(str(x) for x in s[3]))
    return "%s%s" % (k, tuple(s[1:]))
