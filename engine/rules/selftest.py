#!/usr/bin/env python3
"""Self-test of the checker ("test it both ways"): runs the property checks
against scratch copies of /repo with one seeded change applied
(/verif/seeded/<name>/patch.diff) and against benign variants
(/verif/seeded/benign/<name>/patch.diff).  A seeded change must make the
check of its property fire; a benign variant must leave every check silent.

Scratch copies live in a fresh `mktemp -d` directory outside /repo and /verif
and are removed, with their build output, before returning.

  selftest.py run [--only NAME] [--props C01,C02] [--jobs N]   -> table + JSON on stdout
"""
import argparse
import concurrent.futures
import json
import os
import shutil
import subprocess
import sys
import tempfile
import time

HERE = os.path.dirname(os.path.abspath(__file__))
VERIF = os.path.dirname(os.path.dirname(HERE))
SEEDED = os.path.join(VERIF, "seeded")
ALL_PROPS = ["C%02d" % i for i in range(1, 21)]


KIND_DIRS = {
    "seeded": os.path.join(VERIF, "seeded"),                 # changes written by independent sub-agents, with demonstrations
    "own": os.path.join(VERIF, "selftest", "mutants"),       # the checker's own rule-by-rule seeds
    "benign": os.path.join(VERIF, "selftest", "benign"),     # behaviour-preserving variants
}


def list_seeds(kind="seeded"):
    out = []
    base = KIND_DIRS[kind]
    if not os.path.isdir(base):
        return out
    for n in sorted(os.listdir(base)):
        d = os.path.join(base, n)
        if n == "benign" or not os.path.isfile(os.path.join(d, "patch.diff")):
            continue
        meta = {}
        mp = os.path.join(d, "meta.json")
        if os.path.exists(mp):
            try:
                meta = json.load(open(mp))
            except ValueError:
                meta = {}
        out.append((n, d, meta))
    return out


def make_scratch(repo, patch):
    tmp = tempfile.mkdtemp(prefix="fn_graph_scratch_")
    dst = os.path.join(tmp, "repo")
    # copy the working tree without build output / VCS data
    shutil.copytree(repo, dst, ignore=shutil.ignore_patterns("target", ".git", "MUTANTS"))
    p = subprocess.run(["patch", "-p1", "--quiet", "--no-backup-if-mismatch", "-i", patch], cwd=dst,
                       stdout=subprocess.PIPE, stderr=subprocess.STDOUT, text=True)
    if p.returncode != 0:
        shutil.rmtree(tmp, ignore_errors=True)
        return None, None, p.stdout[-400:]
    return tmp, dst, ""


def run_checks(dst, props, evdir):
    """returns {prop: (exit code, violation keys)}"""
    res = {}
    env = dict(os.environ)
    env["VERIF_EVIDENCE_DIR"] = evdir
    for p in props:
        r = subprocess.run([sys.executable, os.path.join(HERE, "check.py"), p, "--tier", "quick", "--repo", dst], env=env,
                           stdout=subprocess.PIPE, stderr=subprocess.STDOUT, text=True)
        keys = []
        vf = os.path.join(evdir, "violations", "%s.json" % p)
        if r.returncode == 1 and os.path.exists(vf):
            try:
                keys = [v["key"] + " @" + v.get("cfg", "") for v in json.load(open(vf))["violations"]]
            except ValueError:
                pass
        res[p] = (r.returncode, keys, r.stdout[-300:] if r.returncode not in (0, 1) else "")
    return res


def run_one(name, d, meta, props, repo="/repo"):
    t0 = time.time()
    tmp, dst, err = make_scratch(repo, os.path.join(d, "patch.diff"))
    if tmp is None:
        return {"name": name, "status": "skipped", "reason": "patch no longer applies: " + err}
    try:
        evdir = os.path.join(tmp, "evidence")
        os.makedirs(os.path.join(evdir, "violations"))
        res = run_checks(dst, props, evdir)
    finally:
        shutil.rmtree(tmp, ignore_errors=True)
    fired = sorted(p for p, (rc, k, _) in res.items() if rc == 1)
    infra = sorted(p for p, (rc, k, _) in res.items() if rc not in (0, 1))
    return {"name": name, "status": "ran", "property": meta.get("property"), "fired": fired, "infra": infra,
            "keys": {p: res[p][1][:6] for p in fired}, "infra_msg": {p: res[p][2] for p in infra}, "wall_s": round(time.time() - t0, 1)}


def run(kind="seeded", only=None, props=None, jobs=4, repo="/repo", own_only=False):
    seeds = list_seeds(kind)
    if only:
        seeds = [s for s in seeds if s[0] in only or any(s[0].startswith(o) for o in only)]
    out = []
    with concurrent.futures.ThreadPoolExecutor(max_workers=jobs) as ex:
        futs = []
        for (n, d, meta) in seeds:
            ps = props or ALL_PROPS
            if own_only and meta.get("property"):
                ps = [meta["property"]]
            futs.append(ex.submit(run_one, n, d, meta, ps, repo))
        for f in futs:
            out.append(f.result())
    return out


def for_property(prop, jobs=6):
    """Self-test summary for one property (thorough tier): its seeded and own
    mutants must make its check fire; all benign variants must leave it silent."""
    out = {"detected": [], "missed": [], "skipped": [], "benign_silent": [], "benign_false_alarm": []}
    for kind in ("seeded", "own"):
        names = [n for (n, d, meta) in list_seeds(kind) if meta.get("property") == prop]
        if not names:
            continue
        for r in run(kind, only=names, props=[prop], jobs=jobs):
            if r["status"] != "ran":
                out["skipped"].append({"name": r["name"], "reason": r.get("reason")})
            elif prop in r["fired"]:
                out["detected"].append({"name": r["name"], "kind": kind, "keys": r["keys"].get(prop, [])[:3]})
            else:
                out["missed"].append({"name": r["name"], "kind": kind, "infra": r["infra"]})
    for r in run("benign", props=[prop], jobs=jobs):
        if r["status"] != "ran":
            out["skipped"].append({"name": r["name"], "reason": r.get("reason")})
        elif r["fired"]:
            out["benign_false_alarm"].append({"name": r["name"], "keys": r["keys"]})
        else:
            out["benign_silent"].append(r["name"])
    out["summary"] = "%d seeded/own changes detected, %d missed, %d benign variants silent, %d benign false alarms" % (
        len(out["detected"]), len(out["missed"]), len(out["benign_silent"]), len(out["benign_false_alarm"]))
    return out


def main():
    ap = argparse.ArgumentParser()
    ap.add_argument("cmd", choices=["seeded", "own", "benign"])
    ap.add_argument("--own-only", action="store_true", help="run only the check of the seed's own property")
    ap.add_argument("--only", default=None)
    ap.add_argument("--props", default=None)
    ap.add_argument("--jobs", type=int, default=4)
    a = ap.parse_args()
    kind = a.cmd
    res = run(kind, a.only.split(",") if a.only else None, a.props.split(",") if a.props else None, a.jobs, own_only=a.own_only)
    for r in res:
        if r["status"] != "ran":
            print("%-40s SKIPPED %s" % (r["name"], r["reason"]))
            continue
        own = r.get("property")
        mark = ""
        if kind in ("seeded", "own"):
            mark = "DETECTED" if own in r["fired"] else ("detected-by-other" if r["fired"] else "MISSED")
        else:
            mark = "SILENT" if not r["fired"] else "FALSE-ALARM"
        print("%-40s %-18s own=%s fired=%s infra=%s %.0fs" % (r["name"], mark, own, r["fired"], r["infra"], r["wall_s"]))
        for p, ks in r["keys"].items():
            for k in ks[:3]:
                print("      %s: %s" % (p, k))
        for p, msg in r.get("infra_msg", {}).items():
            print("      INFRA %s: %s" % (p, msg[-200:]))
    json.dump(res, open(os.path.join(VERIF, ".work", "selftest-%s.json" % kind), "w"), indent=1)


if __name__ == "__main__":
    main()
