"""Termination / wake-up rules: T1 release-obligation table, T2 join of both
halves, T3 wake-up typestate of hand-written poll functions, U1/U2 end of
stream bookkeeping (C04, C05; reused by C07/C08)."""
import re
from analysis import (E, Src, awaits, expr_operand, expr_place, expr_local, fmt_expr, fmt_src, get_defs, guards_of,
                      strip_proj, strip_refs, switch_expr, walk_expr)
from facts import callee_path, is_param_call
from model import CHANNEL_FNS, SEND_FNS, RECV_FNS, short
from rules_sched import (NODE_COUNT_FNS, TAKE, cond_guards, guard_eq_zero, is_const, sources_of_expr, interrupt_mapper,
                         effective_sites, user_awaits, structure_roles, loop_region, holder_roles)

WAKE_FNS = ("std::task::Waker::wake_by_ref", "std::task::Waker::wake")
POLL_FN = ("futures::stream::poll_fn", "futures::future::poll_fn", "std::future::poll_fn")


# ---------------------------------------------------------------------------
# T1

def holder_enums(ctx):
    """crate-local enums that hold a channel sender the way `Option<Sender>` does: one variant with a `Sender` field, every other
    variant without fields (`enum FnDoneTx { Open(Sender<FnId>), Closed }`)"""
    m = ctx.model
    cached = getattr(m, "_holder_enums", None)
    if cached is not None:
        return cached
    out = set()
    for name, adt in ctx.fb.adts.items():
        if adt.get("kind") != "Enum" or adt.get("public"):
            continue
        with_fields = [v for v in adt["variants"] if v["fields"]]
        if len(with_fields) == 1 and len(adt["variants"]) >= 2 and \
                any("mpsc::Sender" in f["ty"]["s"] or "mpsc::bounded::Sender" in f["ty"]["s"] for f in with_fields[0]["fields"]):
            out.add(name)
    m._holder_enums = out
    return out


def holder_ty(ctx, ty):
    """is `ty` (behind references / a lock guard) a sender or a sender-holding enum"""
    if "mpsc::Sender" in ty or "mpsc::bounded::Sender" in ty:
        return True
    return any(h in ty for h in holder_enums(ctx))


def closer_helpers(ctx):
    """private methods that do to a sender-holding enum what `Option::take` does: `fn close(&mut self) { *self = Self::Closed }`"""
    m, fb = ctx.model, ctx.fb
    cached = getattr(m, "_closer_helpers", None)
    if cached is not None:
        return cached
    out = set()
    hs = holder_enums(ctx)
    for b in fb.prod_bodies():
        if b.kind != "fn" or b.arg_count < 1 or (fb.fns.get(b.id) or {}).get("public") or list(b.calls()):
            continue
        t1 = b.locals[1]["s"]
        if not t1.startswith("&mut ") or t1[5:].split("<")[0].strip() not in hs:
            continue
        stores = [(bb, s_) for bb, si, s_ in b.stmts() if s_["k"] == "assign" and s_["pl"]["l"] == 1 and s_["pl"]["p"] == ["*"]]
        if len(stores) == 1 and not b.back_edges():
            rv_ = stores[0][1]["rv"]
            if rv_["k"] == "use" and rv_["op"]["k"] in ("move", "copy") and not rv_["op"]["pl"]["p"]:
                d_ = get_defs(b).unique_full(rv_["op"]["pl"]["l"])
                if d_ and d_[0] == "stmt":
                    rv_ = d_[3]["rv"]
            if rv_["k"] == "agg" and rv_.get("def") in hs and not rv_["ops"] and b.dominates(stores[0][0], b.exits()[0] if b.exits() else stores[0][0]):
                out.add(b.id)
    m._closer_helpers = out
    return out


def payload_variant(ctx, body, e):
    """discriminant value (as text) of the variant that carries the sender in the holder value `e`: 1 (`Some`) for an Option, the
    index of the variant with fields for a crate-local sender-holding enum"""
    hs = holder_enums(ctx)
    idx = set()
    for x in sources_of_expr(ctx, body, e):
        if x.kind == "agg" and x[4] in hs:
            adt = ctx.fb.adts[x[4]]
            idx.add(str([i for i, v in enumerate(adt["variants"]) if v["fields"]][0]))
    if len(idx) == 1:
        return list(idx)[0]
    return "1" if not idx else "?"


def release_sites(ctx):
    """Sites that give up a protocol sender: Option::take / mem::drop whose
    receiver has DONE or READY sender provenance.  Cached per model."""
    m, fb, fl = ctx.model, ctx.fb, ctx.model.flow
    cached = getattr(m, "_release_sites", None)
    if cached is not None:
        return cached
    out = []
    closers = closer_helpers(ctx)
    hs_enums = holder_enums(ctx)
    for b in fb.prod_bodies():
        if b.id in closers:
            continue
        for bb, t in b.calls():
            p = callee_path(t)
            if p not in (TAKE, "std::mem::drop", "std::mem::take", "std::mem::replace") and p not in closers or b.blocks[bb].get("cleanup"):
                continue
            a0 = t["args"][0]
            if a0["k"] == "const":
                continue
            if not holder_ty(ctx, a0["pl"]["ty"]):
                continue
            if re.search(r"Option<&(mut )?[^>]*Sender<", a0["pl"]["ty"]):
                continue        # `holder.as_mut().take()`: takes a borrowed view out of a temporary, the sender stays where it is
            if p in closers:
                roles = holder_roles(ctx, b, e=expr_operand(b, a0))
            else:
                roles, other = m.roles_of_sources(fl.sources_operand(b, a0), half=0)
            roles.discard(None)
            if not roles:
                continue
            kind, detail, params = classify_release_guard(ctx, b, bb, with_params=True)
            out.append({"body": b, "bb": bb, "t": t, "roles": roles, "kind": kind, "detail": detail, "params": params})
        # release by `Some(sender).filter(|_| keep)`: the sender is dropped inside `filter` exactly when `keep` is false
        for bb, t in b.calls():
            if callee_path(t) != "std::option::Option::<T>::filter" or len(t["args"]) < 2 or b.blocks[bb].get("cleanup"):
                continue
            a0 = t["args"][0]
            if a0["k"] == "const" or ("mpsc::Sender" not in a0["pl"]["ty"] and "mpsc::bounded::Sender" not in a0["pl"]["ty"]):
                continue
            roles, other = m.roles_of_sources(fl.sources_operand(b, a0), half=0)
            roles.discard(None)
            if not roles:
                continue
            from rules_sched import closure_of_arg, return_expr
            fcl = closure_of_arg(ctx, b, expr_operand(b, t["args"][1]))
            re_ = return_expr(fcl) if fcl is not None else None
            cls = classify_value_as_guard(ctx, fcl, re_, False) if re_ is not None else None
            k0, d0, p0 = classify_release_guard(ctx, b, bb, with_params=True)
            if cls is None or cls[0] == "PARAM" or k0 != "UNGUARDED":
                kind, detail = "OTHER", "Option::filter with a predicate that is not understood"
            else:
                kind, detail = cls[0], "%s (predicate of Option::filter false)" % (cls[1],)
            out.append({"body": b, "bb": bb, "t": t, "roles": roles, "kind": kind, "detail": detail, "params": []})
        # release by assignment: `holder = None`
        for bb, si, s_ in b.stmts():
            if s_["k"] != "assign" or b.blocks[bb].get("cleanup"):
                continue
            rv_ = s_["rv"]
            if rv_["k"] == "use" and rv_["op"]["k"] in ("move", "copy") and not rv_["op"]["pl"]["p"]:
                d_ = get_defs(b).unique_full(rv_["op"]["pl"]["l"])
                if d_ and d_[0] == "stmt":
                    rv_ = d_[3]["rv"]
            if rv_["k"] != "agg" or rv_["ops"] or not (rv_.get("variant") == "None" or rv_.get("def") in hs_enums):
                continue
            if not s_["pl"]["p"] and len(get_defs(b).of(s_["pl"]["l"])) < 2:
                continue      # the temporary itself
            ty = s_["pl"]["ty"]
            if not holder_ty(ctx, ty):
                continue
            # provenance of what the place held: other definitions of the same place
            roles = holder_roles(ctx, b, place=s_["pl"])
            if not roles:
                continue
            kind, detail, params = classify_release_guard(ctx, b, bb, with_params=True)
            out.append({"body": b, "bb": bb, "t": None, "roles": roles, "kind": kind, "detail": detail + " (assigned None)", "params": params})
    lifted = []
    for s_ in out:
        if str(s_.get("detail", "")).startswith("only if the lock can be taken without waiting"):
            continue        # conditional on lock contention whatever the callers pass
        if s_["kind"] in ("UNGUARDED", "OTHER") or s_.get("params"):
            lifted.extend(lift_release_sites(ctx, s_))
    # a `countdown == 0` release inside a helper that is also called, unconditionally, while the run is being set up
    # (before anything was counted off) is at that call the empty-graph release
    for s_ in out:
        if s_["kind"] != "FINISHED":
            continue
        hb = s_["body"]
        fnid = hb.id
        if hb.kind == "coroutine" and hb.parent and hb.coroutine_kind and "Fn" in hb.coroutine_kind:
            fnid = hb.parent
        elif hb.kind != "fn":
            continue
        for (cb, cbb, ct) in fl.call_sites().get(fnid, []):
            if fb.is_test_body(cb) or not is_pre_scheduler_body(cb) or cb.back_edges():
                continue
            k2, d2, p2 = classify_release_guard(ctx, cb, cbb, with_params=True)
            if k2 == "UNGUARDED":
                lifted.append({"body": cb, "bb": cbb, "t": ct, "roles": s_["roles"], "kind": "EMPTY",
                               "detail": "%s == 0 tested by %s during set-up (nothing counted off yet)" % (s_["detail"], short(fnid)),
                               "params": [], "via": s_})
    out.extend(lifted)
    m._release_sites = out
    return out


def field_decremented_elsewhere(ctx, adt_ty, field_idx):
    """some production body writes `x - 1` to field `field_idx` of a value of type `adt_ty` reached through a pointer or a local"""
    from analysis import expr_rvalue
    for bx in ctx.fb.prod_bodies():
        for bb, si, st in bx.stmts():
            if st["k"] != "assign":
                continue
            pr = st["pl"]["p"]
            fs = [x for x in pr if isinstance(x, dict) and "f" in x]
            if len(fs) != 1 or fs[0]["f"] != field_idx or pr[-1] is not fs[0]:
                continue
            lty = bx.locals[st["pl"]["l"]]["s"].lstrip("&").replace("mut ", "").strip()
            if lty != adt_ty:
                continue
            v = expr_rvalue(bx, st["rv"], 0, (bb, si))
            if v.kind == "binop" and v[1] == "Sub" and is_const(v[3], 1):
                return True
    return False


INT_TYPES = ("usize", "u8", "u16", "u32", "u64", "u128", "isize", "i8", "i16", "i32", "i64")


def int_switch_as_compare(b, sb, e, vals):
    """`match n { 0 => A, _ => B }`: a switch on an integer place -> (`n == 0`, taken_true) for the arm set `vals`;
    None when the switch is not of that form"""
    dop = b.blocks[sb]["term"]["discr"]
    dty = (dop.get("pl") or {}).get("ty") or dop.get("ty") or ""
    e = strip_refs(e)
    if dty not in INT_TYPES or e.kind == "binop":
        return None
    cmp_ = E(("binop", "Eq", e, E(("const", "0", dty))))
    if vals == frozenset(["0"]):
        return cmp_, True
    if "0" not in vals:
        return cmp_, False
    return None


def classify_value_as_guard(ctx, b, e, taken_true, at_bb=None):
    """What does branching on value `e` (taken when true / false) mean for a
    release?  -> (kind, detail) or None."""
    m, fl = ctx.model, ctx.model.flow
    e = strip_refs(e)
    if e.kind == "unop" and e[1] == "Not":
        return classify_value_as_guard(ctx, b, e[2], not taken_true, at_bb)
    if e.kind == "binop" and e[1] in ("Eq", "Ne") and (is_const(e[3], 1) or is_const(e[2], 1)):
        # `counter.fetch_sub(1, ..) == 1`: the atomic countdown just reached 0
        fs = strip_refs(e[2] if is_const(e[3], 1) else e[3])
        if fs.kind == "call" and fs[1].startswith("std::sync::atomic::Atomic") and fs[1].endswith("::fetch_sub") and len(fs[2]) >= 2 and is_const(strip_refs(fs[2][1]), 1):
            srcs = sources_of_expr(ctx, b, strip_refs(fs[2][0]), mode="taint")
            if any(s.kind == "alloc" and s[4] in NODE_COUNT_FNS for s in srcs):
                zero = (e[1] == "Eq") == bool(taken_true)
                return ("FINISHED" if zero else "NONZERO", fmt_expr(fs, b))
            return ("OTHER", "test of %s" % fmt_expr(fs, b))
    if e.kind == "binop" and e[1] in ("Lt", "Ge") and is_const(e[3], 1):
        # unsigned `x < 1` <=> `x == 0`, `x >= 1` <=> `x != 0`
        e = E(("binop", "Eq" if e[1] == "Lt" else "Ne", e[2], E(("const", "0", "usize"))))
    elif e.kind == "binop" and e[1] in ("Gt", "Le") and is_const(e[2], 1):
        # `1 > x` <=> `x == 0`, `1 <= x` <=> `x != 0`
        e = E(("binop", "Eq" if e[1] == "Gt" else "Ne", e[3], E(("const", "0", "usize"))))
    if e.kind == "binop" and e[1] in ("Eq", "Ne") and not (strip_refs(e[2]).kind == "const" or strip_refs(e[3]).kind == "const"):
        # count-up form: `done == total` with `total` the number of functions and `done` a counter that starts at 0 and is
        # incremented by 1 (the mirror image of a countdown reaching 0)
        sa = sources_of_expr(ctx, b, strip_refs(e[2]), mode="taint")
        sb_ = sources_of_expr(ctx, b, strip_refs(e[3]), mode="taint")

        pa = sources_of_expr(ctx, b, strip_refs(e[2]), mode="prov")
        pb_ = sources_of_expr(ctx, b, strip_refs(e[3]), mode="prov")

        def is_total(ss):
            ps = pa if ss is sa else pb_
            return bool(ps) and all(s.kind == "alloc" and s[4] in NODE_COUNT_FNS for s in ps)

        def is_counter(ss):
            return bool(ss) and not any(s.kind == "alloc" for s in ss) and any(s.kind == "const" and str(s[1]) in ("0", "0_usize") for s in ss) and \
                all(s.kind in ("const", "op") for s in ss) and not any(s.kind == "op" and str(s[4]).startswith("Sub") for s in ss)
        cnt = None
        if is_total(sa) and is_counter(sb_):
            cnt, tot_e = sb_, e[2]
        elif is_total(sb_) and is_counter(sa):
            cnt, tot_e = sa, e[3]
        if cnt is not None:
            equal_branch = (e[1] == "Eq") == bool(taken_true)
            has_add = any(s.kind == "op" and str(s[4]).startswith("Add") and
                          not (at_bb is not None and s[1] == b.id and s[2] != at_bb and at_bb not in b.reachable(s[2])) for s in cnt)
            if not equal_branch:
                return ("NONZERO", "count-up " + fmt_expr(e, b))
            return ("FINISHED" if has_add else "EMPTY", "count-up " + fmt_expr(e, b))
    if e.kind == "binop" and e[1] in ("Eq", "Ne", "Le", "Gt"):
        x = None
        if is_const(e[3], 0):
            x = e[2]
        elif is_const(e[2], 0) and e[1] in ("Eq", "Ne"):
            x = e[3]
        if x is None:
            return None
        is_zero_branch = (e[1] in ("Eq", "Le") and taken_true) or (e[1] in ("Ne", "Gt") and not taken_true)
        xs = strip_refs(x)
        srcs = sources_of_expr(ctx, b, xs, mode="taint")
        has_nc = any(s.kind == "alloc" and s[4] in NODE_COUNT_FNS for s in srcs)
        has_sub = any(s.kind == "op" and s[4] in ("Sub", "SubWithOverflow") and
                      not (at_bb is not None and s[1] == b.id and s[2] != at_bb and at_bb not in b.reachable(s[2])) for s in srcs)
        if has_nc and not has_sub:
            ncs = {s for s in srcs if s.kind == "alloc" and s[4] in NODE_COUNT_FNS}
            for kind_, bb_, si_, st_ in [d for ds in get_defs(b).through.values() for d in ds]:
                from analysis import expr_rvalue
                v = expr_rvalue(b, st_["rv"], 0, (bb_, si_))
                if v.kind == "binop" and v[1] == "Sub":
                    if at_bb is not None and bb_ != at_bb and at_bb not in b.reachable(bb_):
                        continue        # a decrement that can only run after this test (the empty-graph check ahead of the loop)
                    ps = fl.sources_local(b, st_["pl"]["l"], (), "taint")
                    if ncs & set(ps):
                        has_sub = True
        if has_nc and not has_sub and xs.kind == "field":
            # a counter kept in a field of a private struct and decremented by another method of that struct
            base = strip_refs(xs[1])
            if base.kind in ("arg", "local"):
                bty = b.locals[base[1]]["s"].lstrip("&").replace("mut ", "").strip()
                if field_decremented_elsewhere(ctx, bty, xs[2]):
                    has_sub = True
        if not has_nc:
            return ("OTHER", "%s 0 test of %s" % ("==" if is_zero_branch else "!=", fmt_expr(xs, b)))
        if not is_zero_branch:
            return ("NONZERO", fmt_expr(xs, b))
        return ("FINISHED" if has_sub else "EMPTY", fmt_expr(xs, b))
    # a boolean flag assembled from several conditions (`let release = remaining == 0; let release = release || interrupted;`):
    # set to `true` below one condition, to another condition's value elsewhere - a disjunction
    if e.kind == "local" and taken_true and b.locals[e[1]]["s"] == "bool" and len(get_defs(b).of(e[1])) > 1:
        alts = []
        good = True
        for kind_, dbb, si_, x_ in get_defs(b).of(e[1]):
            if kind_ != "stmt" or x_["rv"]["k"] != "use":
                good = False
                break
            op_ = x_["rv"]["op"]
            if op_["k"] == "const":
                if str(op_.get("bits", op_.get("val"))) in ("1", "true"):
                    for sb2, de2, vals2 in cond_guards(b, dbb):
                        tt = "otherwise" in vals2 and "0" not in vals2
                        tf = "0" in vals2 and "otherwise" not in vals2
                        if tt or tf:
                            c2 = classify_value_as_guard(ctx, b, strip_refs(de2), tt, sb2)
                            if c2 is not None and c2[0] not in ("NONZERO", "UNGUARDED"):
                                alts.append(c2)
                continue
            c2 = classify_value_as_guard(ctx, b, strip_refs(expr_operand(b, op_)), True, dbb)
            if c2 is None:
                good = False
                break
            alts.append(c2)
        if good and alts:
            ks_ = [a_[0] for a_ in alts]
            if len(set(ks_)) == 1:
                return alts[0]
            if all(k_ in ("EMPTY", "FINISHED", "INTERRUPTED", "NEVER") for k_ in ks_):
                return ("OR:" + "+".join(ks_), " || ".join(a_[1] for a_ in alts))
    # a parameter of a crate-local helper: decided at the call sites
    pe = e
    if pe.kind == "arg":
        return ("PARAM", pe[1] - 1, taken_true)
    if pe.kind == "field" and (pe[1].kind == "env" or (pe[1].kind == "deref" and pe[1][1].kind == "env")) and \
            b.kind == "coroutine" and b.coroutine_kind and "Fn" in b.coroutine_kind:
        return ("PARAM", pe[2], taken_true)
    # a flag that is constantly false in this configuration (e.g. `interrupted` without the `interruptible` feature): dead branch
    srcs0 = sources_of_expr(ctx, b, e)
    if srcs0 and all(s.kind == "const" and str(s[1]) in ("0", "false") and len(s) > 2 and s[2] == "bool" for s in srcs0):
        return ("NEVER" if taken_true else "UNGUARDED", "flag that is always false here")
    # interrupted flag
    mapper = interrupt_mapper(ctx) if m.interruptible else None
    if mapper is not None:
        srcs = sources_of_expr(ctx, b, e)
        if srcs and all(s.kind == "const" and len(s) > 3 and s[3] == mapper.id for s in srcs):
            return ("INTERRUPTED" if taken_true else "OTHER", "interrupted flag (%s)" % ("true" if taken_true else "false"))
    return None


def or_chain_guards(body, bb):
    """`if a || b { bb }`: bb's straight-line region is entered from the taken
    arms of two or more consecutive two-way switches.  Returns
    [(switch_bb, taken_values)] (one per disjunct) or []."""
    pred = body.normal_pred()
    h = bb
    seen = set()
    while len(pred[h]) == 1 and h not in seen:
        seen.add(h)
        p0 = pred[h][0]
        if body.blocks[p0]["term"]["k"] == "switch" or len(body.succs(p0)) != 1:
            break
        h = p0
    arms = []
    for p0 in pred[h]:
        q, via = p0, h
        hops = 0
        while body.blocks[q]["term"]["k"] == "goto" and len(pred[q]) == 1 and hops < 4:
            via, q = q, pred[q][0]
            hops += 1
        t = body.blocks[q]["term"]
        if t["k"] != "switch":
            return []
        vals = frozenset([v for v, tb in t["targets"] if tb == via] + (["otherwise"] if t["otherwise"] == via else []))
        if not vals or len(vals) == len(t["targets"]) + 1:
            return []
        arms.append((q, vals))
    if len(arms) < 2:
        return []
    arms.sort(key=lambda a: len(body.dominators().get(a[0], ())))
    for (s1, _), (s2, _) in zip(arms, arms[1:]):
        if not body.dominates(s1, s2) or s2 not in body.reachable_fwd(s1, avoid={h}):
            return []
    return arms


def classify_release_guard(ctx, b, bb, with_params=False):
    """EMPTY / FINISHED / INTERRUPTED / FAILED / UNGUARDED / OTHER (+ PARAM guards for lifting)"""
    r = _classify_release_guard(ctx, b, bb)
    if r[0] == "UNGUARDED" and not r[2]:
        # short-circuit disjunction: the release serves every disjunct's exit kind
        arms = or_chain_guards(b, bb)
        ks = []
        for sb, vals in arms:
            e = strip_refs(switch_expr(b, sb))
            taken_true = "otherwise" in vals and "0" not in vals
            taken_false = "0" in vals and "otherwise" not in vals
            c = classify_value_as_guard(ctx, b, e, taken_true, sb) if (taken_true or taken_false) else None
            ks.append(c)
        if arms and any(c is not None and c[0] in ("EMPTY", "FINISHED", "INTERRUPTED") for c in ks):
            # an unclassified disjunct only adds releases; the obligations of the classified ones are still met
            alt = tuple(c[0] if c is not None and c[0] in ("EMPTY", "FINISHED", "INTERRUPTED", "NEVER") else "?" for c in ks)
            r = ("OR:" + "+".join(alt), " || ".join(c[1] if c is not None else "?" for c in ks), [])
    if with_params:
        return r
    return r[0], r[1]


def _classify_release_guard(ctx, b, bb):
    m, fl = ctx.model, ctx.model.flow
    kinds = []
    params = []
    for sb, de, vals in cond_guards(b, bb):
        e = strip_refs(de)
        if e.kind == "discr":
            inner = strip_refs(e[1])
            srcs = sources_of_expr(ctx, b, inner)
            if any(s.kind == "userfut" for s in srcs):
                vs = [v for v in vals if v != "otherwise"]
                kinds.append(("FAILED" if vs == ["1"] else "OTHER", "match on the user future's result, arm %s" % sorted(vals)))
            elif any(c.kind == "call" and c[1].split("::")[-1] in ("try_write", "try_lock", "try_read", "try_acquire", "try_lock_owned", "try_write_owned")
                     for c in walk_expr(inner)):
                # `if let Ok(mut g) = lock.try_write() { g.take(); }`: whether the release happens depends on who else holds the
                # lock at that instant, which is none of the protocol's exits
                kinds.append(("CONTENDED", "only if the lock can be taken without waiting (`%s`)" % fmt_expr(inner, b)[:60]))
            continue
        taken_true = "otherwise" in vals and "0" not in vals
        taken_false = "0" in vals and "otherwise" not in vals
        ic = int_switch_as_compare(b, sb, e, vals)
        if ic is not None:
            e, taken_true = ic
            taken_false = not taken_true
        if not (taken_true or taken_false):
            continue
        r = classify_value_as_guard(ctx, b, e, taken_true, sb)
        if r is None:
            continue
        if r[0] == "PARAM":
            params.append((r[1], r[2]))
        elif r[0] == "UNGUARDED":
            continue
        elif r[0] != "NONZERO":
            kinds.append(r)
    res = None
    for kk, d in kinds:
        if kk == "CONTENDED":
            return "OTHER", d, params
    for k in ("NEVER", "FAILED", "INTERRUPTED", "FINISHED", "EMPTY"):
        for kk, d in kinds:
            if kk == k and res is None:
                res = (k, d)
    if res is None:
        res = kinds[0] if kinds else ("UNGUARDED", "")
    return res[0], res[1], params


def lift_release_sites(ctx, site, depth=0):
    """A release inside a crate-local helper that is unguarded there (or guarded
    by one of the helper's parameters) is classified at the helper's call sites."""
    m, fb, fl = ctx.model, ctx.fb, ctx.model.flow
    b = site["body"]
    out = []
    if depth >= 3:
        return out
    fnid = b.id
    if b.kind == "coroutine" and b.parent and b.coroutine_kind and "Fn" in b.coroutine_kind:
        fnid = b.parent
    elif b.kind != "fn":
        return out
    callers = [(cb, cbb, t) for (cb, cbb, t) in fl.call_sites().get(fnid, []) if not fb.is_test_body(cb)]
    for cb, cbb, t in callers:
        kind, detail = None, ""
        # parameter guards of the helper, evaluated on the caller's argument
        for (pi, taken_true) in site.get("params", []):
            if pi < len(t["args"]):
                r = classify_value_as_guard(ctx, cb, expr_operand(cb, t["args"][pi]), taken_true)
                if r and r[0] not in ("PARAM", "NONZERO", "OTHER"):
                    kind, detail = r[0], r[1]
        k2, d2, params2 = classify_release_guard(ctx, cb, cbb, with_params=True)
        if kind is None or (k2 in ("FAILED", "INTERRUPTED") and kind not in ("FAILED", "INTERRUPTED")):
            if k2 != "UNGUARDED" or kind is None:
                kind, detail = (k2, d2) if kind is None or k2 != "UNGUARDED" else (kind, detail)
        ns = {"body": cb, "bb": cbb, "t": t, "roles": site["roles"], "kind": kind, "detail": (detail + " (via %s)" % short(fnid)).strip(),
              "params": params2, "via": site}
        out.append(ns)
        if kind in ("UNGUARDED", "OTHER") or params2:
            out.extend(lift_release_sites(ctx, ns, depth + 1))
    return out


def interrupted_release_needs_no_id(ctx, site):
    """None if the INTERRUPTED release happens whether or not the interrupted
    poll carried an id; else a description of the extra condition."""
    m, fl = ctx.model, ctx.model.flow
    for (eb, ebb, depth) in effective_sites(ctx, site["body"], site["bb"]):
        for sb, de, vals in cond_guards(eb, ebb):
            e = strip_refs(de)
            if e.kind != "discr":
                continue
            srcs = sources_of_expr(ctx, eb, strip_refs(e[1]))
            lr = loop_region(ctx, eb, ebb)
            if lr is not None and lr.get("switch_bb") == sb:
                continue      # the `while let Some(item) = ready.next().await` test of the loop itself
            if (eb.blocks[sb]["term"].get("sp") or {}).get("desugar") == "Await":
                continue      # Ready/Pending test inside an await expansion
            if srcs and m.is_ready_item(srcs):
                which = "no id was dequeued" if "1" not in vals else "an id was dequeued"
                return "the interrupted poll carried %s (guard on the dequeued Option at %s)" % (
                    "no id" if "1" not in vals else "an id", eb.loc(sb))
    return None


def is_pre_scheduler_body(b):
    """fn body or the coroutine of an async fn (not a closure / async block
    handed to an adaptor)."""
    if b.kind == "fn":
        return True
    return b.kind == "coroutine" and b.coroutine_kind and "Fn" in b.coroutine_kind


def empty_by_construction(ctx, entry, role="DONE"):
    """The sender is only ever *kept* (wrapped into the Option / lock that the run
    holds) when the graph is non-empty: every `Some(sender)` aggregate and every
    `cond.then_some(sender)` with that sender's provenance, reachable from the
    entry point, is guarded by node_count() != 0.  Returns (ok, detail)."""
    m, fb, fl = ctx.model, ctx.fb, ctx.model.flow
    wraps = []
    for b in m.reach_bodies(entry["id"]):
        for bb, si, s_ in b.stmts():
            if s_["k"] == "assign" and s_["rv"]["k"] == "agg" and s_["rv"].get("variant") == "Some" and s_["rv"]["ops"]:
                op = s_["rv"]["ops"][0]
                if op["k"] == "const" or "mpsc::Sender" not in op["pl"]["ty"] and "bounded::Sender" not in op["pl"]["ty"]:
                    continue
                if op["pl"]["ty"].startswith("&"):
                    continue
                roles, other = m.roles_of_sources(fl.sources_operand(b, op), half=0)
                if role in roles:
                    guarded = False
                    for sb, de, vals in cond_guards(b, bb):
                        tt = "otherwise" in vals and "0" not in vals
                        ge = strip_refs(de)
                        ic = int_switch_as_compare(b, sb, ge, vals)
                        if ic is not None:
                            ge, tt = ic
                        r = classify_value_as_guard(ctx, b, ge, tt)
                        if r and r[0] == "NONZERO":
                            guarded = True
                        r2 = classify_value_as_guard(ctx, b, strip_refs(de), not tt) if r is None else None
                    wraps.append((b, bb, guarded))
        for bb, t in b.calls():
            p = callee_path(t) or ""
            if p in ("std::primitive::bool::then_some", "core::bool::<impl bool>::then_some", "std::bool::<impl bool>::then_some") or p.endswith("bool>::then_some"):
                if len(t["args"]) == 2 and t["args"][1]["k"] != "const" and "Sender" in t["args"][1]["pl"]["ty"]:
                    roles, other = m.roles_of_sources(fl.sources_operand(b, t["args"][1]), half=0)
                    if role in roles:
                        r = classify_value_as_guard(ctx, b, expr_operand(b, t["args"][0]), True)
                        wraps.append((b, bb, bool(r and r[0] == "NONZERO")))
    if not wraps:
        return False, "no construction site of the held sender found"
    bad = [(b, bb) for b, bb, g in wraps if not g]
    if bad:
        return False, "the sender is kept unconditionally at %s" % [m.where(b, bb) for b, bb in bad][:2]
    return True, "the sender is only kept when node_count() != 0 (%s)" % [m.where(b, bb) for b, bb, g in wraps][:2]


def T1(ctx, rule="T1", kinds=None):
    """kinds: restrict the exit kinds checked (C07 uses FAILED only, C08 INTERRUPTED only)"""
    m, fb = ctx.model, ctx.fb
    sites = release_sites(ctx)
    n = 0
    for e in m.entries:
        fam = m.family(e)
        reach = m.reach(e["id"])
        mine = [s for s in sites if s["body"].id in reach and "DONE" in s["roles"]]
        where = "%s:%d (FnGraph::%s)" % (e["sp"]["file"], e["sp"]["line"], e["name"])
        need = ["EMPTY", "FINISHED"]
        if m.interruptible and fam != "stream":
            need.append("INTERRUPTED")
        if fam == "try_for_each":
            need.append("FAILED")
        if kinds is not None:
            need = [k for k in need if k in kinds]
        for k in need:
            cands = [s for s in mine if s["kind"] == k or (s["kind"] or "").startswith("OR:") and k in s["kind"][3:].split("+")]
            if k == "EMPTY":
                cands = [s for s in cands if is_pre_scheduler_body(s["body"])]
            n += 1
            if k == "INTERRUPTED" and cands:
                dep = [interrupted_release_needs_no_id(ctx, s) for s in cands]
                good = [s for s, d in zip(cands, dep) if d is None]
                if not good:
                    ctx.bad(rule, "%s|%s" % (k, e["name"]), where,
                            "INTERRUPTED: the done-sender is released only when %s: an interruption that still hands out an item leaves the queuer waiting (path family %s)" % (dep[0], fam))
                    continue
                cands = good
            if cands:
                s = cands[0]
                ctx.ok(rule, "%s|%s" % (k, e["name"]), where,
                       "%s: the done-sender is released at %s (%s)" % (k, m.where(s["body"], s["bb"]), s["detail"]))
            elif k == "EMPTY" and empty_by_construction(ctx, e, "DONE")[0]:
                ctx.ok(rule, "%s|%s" % (k, e["name"]), where, "EMPTY: " + empty_by_construction(ctx, e, "DONE")[1])
            else:
                what = {
                    "EMPTY": "no release of the done-sender guarded by `node_count() == 0` before the scheduler is polled: on an empty graph the queuer waits forever on a sender nobody drops",
                    "FINISHED": "no release of the done-sender when the countdown of remaining functions reaches 0: the queuer never ends",
                    "INTERRUPTED": "no release of the done-sender guarded by the `interrupted` flag: after an interruption the queuer never ends",
                    "FAILED": "no release of the done-sender on the Err arm of the user future: a failure leaves the queuer waiting",
                }[k]
                ctx.bad(rule, "%s|%s" % (k, e["name"]), where, "%s (path family %s)" % (what, fam))
        if fam == "try_fold" and (kinds is None or "FAILED" in kinds):
            # on the `?` path the error value must not carry the done-sender
            n += 1
            T1_try_fold_failed(ctx, rule, e, where)
    # READY sender: released on EMPTY and FINISHED somewhere along each entry's queuer
    holders = set()
    for e in m.entries:
        reach = m.reach(e["id"])
        mine = [s for s in sites if s["body"].id in reach and "READY" in s["roles"]]
        where = "%s:%d (FnGraph::%s)" % (e["sp"]["file"], e["sp"]["line"], e["name"])
        for s in mine:
            holders.add(s["body"].root)
        for k in ("EMPTY", "FINISHED"):
            if kinds is not None:
                continue
            n += 1
            c = [s for s in mine if s["kind"] == k or (s["kind"] or "").startswith("OR:") and k in s["kind"][3:].split("+")]
            if not c and k == "EMPTY" and empty_by_construction(ctx, e, "READY")[0]:
                ctx.ok(rule, "READY-%s|%s" % (k, e["name"]), where, "EMPTY: " + empty_by_construction(ctx, e, "READY")[1])
                continue
            ctx.check(bool(c), rule, "READY-%s|%s" % (k, e["name"]), where,
                      "%s: the ready-sender is released at %s" % (k, m.where(c[0]["body"], c[0]["bb"]) if c else "-"),
                      "%s: the ready-sender is never released on this exit; the scheduler's ready stream never ends" % k)
    ctx.counts[rule] = n
    if kinds is None and len(holders) < 1:
        ctx.unverifiable(rule, "floor-ready-holders", "-", "no site releasing the ready-sender found")
    fams = {m.family(e) for e in m.entries}
    for f in ("stream", "fold", "for_each", "try_fold", "try_for_each"):
        if f not in fams:
            ctx.unverifiable(rule, "floor-family|%s" % f, "-", "no public entry point of family %s discovered" % f)


def U3(ctx, rule="U3"):
    """a hand-written poll function never manufactures `Poll::Pending`: every Pending it returns is what a receiver's poll
    returned in this very call (directly, or through `ready!`, i.e. under the `Pending` arm of that poll's result). A Pending
    answered from remembered state ("the queue was empty last time") registers no waker for what it did not poll, and tokio's
    cooperative budget makes `poll_recv` report Pending on a non-empty channel."""
    m, fb, fl = ctx.model, ctx.fb, ctx.model.flow
    n = 0
    for cb, how in poll_closures(ctx):
        for bb, si, s_ in cb.stmts():
            if s_["k"] != "assign" or s_["rv"]["k"] != "agg" or s_["rv"].get("def") != "std::task::Poll" or s_["rv"].get("variant") != "Pending":
                continue
            n += 1
            under_poll = False
            for sb, vals in guards_of(cb, bb):
                de = switch_expr(cb, sb)
                if de.kind == "discr" and vals == frozenset(["1"]):
                    inner = strip_refs(de[1])
                    if any(c.kind == "call" and c[1] in ("tokio::sync::mpsc::Receiver::<T>::poll_recv", "tokio::sync::mpsc::UnboundedReceiver::<T>::poll_recv",
                                                          "futures::Stream::poll_next", "futures::StreamExt::poll_next_unpin", "futures::Future::poll")
                           for c in walk_expr(inner)):
                        under_poll = True
            ctx.check(under_poll, rule, "pending-from-poll|%s" % short(cb.id), m.where(cb, bb, si),
                      "this Pending is the Pending arm of a poll made in the same call",
                      "the poll function returns a `Poll::Pending` it made up (not the result of a poll in this call): nothing guarantees a "
                      "wake-up for the sources it skipped, so the stream can stay pending while functions are ready")
    if n == 0:
        ctx.ok(rule, "no-made-up-pending", "-", "no hand-written poll function constructs Poll::Pending (%d poll functions)" % len(poll_closures(ctx)))


def P2(ctx, rule="P2"):
    """no `unwrap`/`expect` on the holder of a protocol sender: `Option<Sender>` is legitimately `None` after the run was
    interrupted, after a function failed and once everything was counted off, while functions started earlier are still
    running and will look at it when they finish - a panic there unwinds the whole call instead of letting them complete"""
    m, fb, fl = ctx.model, ctx.fb, ctx.model.flow
    from rules_sched import PANICKING
    reach = set()
    for e in m.entries:
        reach |= set(m.reach(e["id"]))
    reach |= {x.id for x in fb.prod_bodies() if "fn_ref::FnRef" in x.id}
    n = 0
    bad = 0
    for bid in sorted(reach):
        b = fb.bodies.get(bid)
        if b is None or fb.is_test_body(b):
            continue
        for bb, t in b.calls():
            p_ = callee_path(t) or ""
            if p_ not in PANICKING or not t["args"] or t["args"][0]["k"] == "const":
                continue
            n += 1
            ty = t["args"][0]["pl"]["ty"]
            if "Option<" not in ty or ("mpsc::Sender" not in ty and "mpsc::bounded::Sender" not in ty):
                continue
            roles, other = m.roles_of_sources(fl.sources_operand(b, t["args"][0]), half=0)
            roles.discard(None)
            if roles & {"DONE", "READY"}:
                bad += 1
                ctx.bad(rule, "sender-unwrap|%s" % short(b.id), m.where(b, bb),
                        "%s on the %s sender's holder: the holder is emptied on interruption, on failure and when the countdown reaches 0 while "
                        "functions started earlier are still running; when one of them gets here the call panics instead of returning" % (
                            p_.split("::")[-1], "/".join(sorted(roles))))
    if not bad:
        ctx.ok(rule, "no-sender-unwrap", "-", "none of the %d unwrap/expect sites on the streaming paths is applied to the holder of a protocol sender" % n)


def T6(ctx, rule="T6"):
    """the countdown of remaining functions moves in steps of exactly one: every subtraction from (and addition to) a value that
    derives from the number of functions subtracts the constant 1. `-= 2` steps over the `== 0` test on an odd count (the
    channel is never released) or reaches it early; `-= 0` never reaches it."""
    m, fl = ctx.model, ctx.model.flow
    from analysis import expr_rvalue
    n = 0
    sched = set()
    for e in m.entries:
        sched |= set(m.reach(e["id"]))
    for bid in sorted(sched):
        b = ctx.fb.bodies.get(bid)
        if b is None or ctx.fb.is_test_body(b):
            continue
        for bb, si, st in b.stmts():
            if st["k"] != "assign" or st["rv"]["k"] not in ("binop", "checked_binop") or st["rv"].get("op") not in (
                    "Sub", "SubWithOverflow", "Add", "AddWithOverflow"):
                continue
            a_, b_ = st["rv"]["a"], st["rv"]["b"]
            if a_["k"] == "const":
                continue
            aty = (a_.get("pl") or {}).get("ty") or ""
            if aty != "usize":
                continue
            srcs = fl.sources_operand(b, a_, (), "taint")
            if not any(x.kind == "alloc" and x[4] in NODE_COUNT_FNS for x in srcs):
                continue
            # only values that are later compared with 0 / held in the fold state: the counters (an index computation
            # such as `len - 1` is not a countdown) -> the result is written back to the place it was read from
            v = expr_rvalue(b, st["rv"], 0, (bb, si))
            dst = st["pl"]
            back = (not dst["p"] and not a_["pl"]["p"] and dst["l"] == a_["pl"]["l"]) or _written_back(b, bb, si, st, a_)
            if not back:
                continue
            n += 1
            op = st["rv"]["op"]
            one = b_["k"] == "const" and str(b_.get("bits", b_.get("val"))).split("_")[0] in ("1", "0x1", "1usize")
            if op.startswith("Sub") and one:
                ctx.ok(rule, "step|%s" % short(b.id), m.where(b, bb), "the countdown is decremented by exactly 1")
            else:
                ctx.bad(rule, "step|%s" % short(b.id), m.where(b, bb),
                        "the countdown of remaining functions changes by `%s %s`, not by `- 1`: its `== 0` test is stepped over or reached early/never" % (
                            "-" if op.startswith("Sub") else "+", fmt_expr(expr_operand(b, b_), b)))
    # count-up form (`streamed += 1; if streamed == total`): the counter compared with the number of functions steps by 1 too
    for bid in sorted(sched):
        b = ctx.fb.bodies.get(bid)
        if b is None or ctx.fb.is_test_body(b):
            continue
        ups = []
        for sb, blk in enumerate(b.blocks):
            if blk["term"]["k"] == "switch":
                de = strip_refs(switch_expr(b, sb))
                if de.kind == "binop" and de[1] in ("Eq", "Ne"):
                    c2 = classify_value_as_guard(ctx, b, de, True)
                    if c2 and str(c2[1]).startswith("count-up "):
                        ups.append(de)
        if not ups:
            continue
        for bb, si, st in b.stmts():
            if st["k"] != "assign" or st["rv"]["k"] not in ("binop", "checked_binop") or st["rv"].get("op") not in ("Add", "AddWithOverflow", "Sub", "SubWithOverflow"):
                continue
            a_, b_ = st["rv"]["a"], st["rv"]["b"]
            if a_["k"] == "const" or ((a_.get("pl") or {}).get("ty") or "") != "usize":
                continue
            ae = strip_refs(expr_operand(b, a_))
            if not any(ae == strip_refs(x) for de in ups for x in (de[2], de[3])):
                continue
            if not ((not st["pl"]["p"] and not a_["pl"]["p"] and st["pl"]["l"] == a_["pl"]["l"]) or _written_back(b, bb, si, st, a_)):
                continue
            n += 1
            one = b_["k"] == "const" and str(b_.get("bits", b_.get("val"))).split("_")[0] in ("1", "0x1", "1usize")
            ctx.check(one and st["rv"]["op"].startswith("Add"), rule, "step|%s" % short(b.id), m.where(b, bb),
                      "the count of handed-out functions is incremented by exactly 1",
                      "the counter compared with the number of functions changes by `%s %s`, not by `+ 1`: its `== total` test is stepped over or never reached" % (
                          "+" if st["rv"]["op"].startswith("Add") else "-", fmt_expr(expr_operand(b, b_), b)))
    if n < 2:
        ctx.unverifiable(rule, "floor", "-", "expected >= 2 countdown decrements in the scheduler bodies, found %d" % n)


def _written_back(b, bb, si, st, a_):
    """`x = x - 1` in MIR: `_t = Sub(copy x, 1); x = move _t` (possibly through a checked pair `(_t.0)`)"""
    dst = st["pl"]
    if dst["p"]:
        return False
    tl = dst["l"]
    src_l, src_p = a_["pl"]["l"], a_["pl"]["p"]
    for bb2 in [bb] + list(b.succs(bb)):
        for st2 in b.blocks[bb2]["stmts"]:
            if st2["k"] == "assign" and st2["rv"]["k"] == "use" and st2["rv"]["op"]["k"] != "const":
                pl = st2["rv"]["op"]["pl"]
                if pl["l"] == tl and st2["pl"]["l"] == src_l and st2["pl"]["p"] == src_p:
                    return True
    return False


def T5(ctx, rule="T5"):
    """No premature release: every site that releases the done- or ready-sender
    is control dependent on one of the protocol's exits (empty graph, countdown
    at 0, interrupted, failed) -- directly or, for a helper, at each of its
    call sites.  A release under any other condition ends the run while
    functions are still queued."""
    m = ctx.model
    sites = release_sites(ctx)
    GOOD = ("EMPTY", "FINISHED", "INTERRUPTED", "FAILED", "NEVER")
    def good(k):
        return k in GOOD or (k or "").startswith("OR:") and all(x in GOOD for x in k[3:].split("+"))
    n = 0
    for s_ in sites:
        if "via" in s_ or not (s_["roles"] & {"DONE", "READY"}):
            continue
        n += 1
        key = "%s|%s" % ("+".join(sorted(s_["roles"] & {"DONE", "READY"})), short(s_["body"].id))
        where = m.where(s_["body"], s_["bb"])
        if good(s_["kind"]):
            ctx.ok(rule, "release-at-exit|" + key, where, "release of the %s sender at exit %s" % (sorted(s_["roles"]), s_["kind"]))
            continue
        lifted = [x for x in sites if x.get("via") is s_ or (x.get("via") is not None and x["via"].get("via") is s_)]
        final = [x for x in lifted if not any(y.get("via") is x for y in sites)]
        ok = bool(final) and all(good(x["kind"]) for x in final)
        ctx.check(ok, rule, "release-at-exit|" + key, where,
                  "release helper: every call site is at a protocol exit (%s)" % sorted({x["kind"] for x in final}),
                  "the %s sender is released under a condition that is none of the protocol's exits (%s %s%s): the run / stream ends while functions are still queued" % (
                      sorted(s_["roles"] & {"DONE", "READY"}), s_["kind"], s_["detail"][:80],
                      "; call sites: %s" % sorted({str(x["kind"]) for x in final}) if final else ""))
    if n < 4:
        ctx.unverifiable(rule, "floor", "-", "expected release sites of the protocol senders, found %d" % n)


def T1_try_fold_failed(ctx, rule, e, where):
    m, fl = ctx.model, ctx.model.flow
    ok = True
    found = False
    for b in m.per_item_bodies(e["id"]):
        srcs = fl.sources_local(b, 0, ("E",))
        found = True
        for s in srcs:
            if s.kind == "alloc" and s[4] in CHANNEL_FNS:
                ok = False
    ctx.check(found and ok, rule, "FAILED|%s" % e["name"], where,
              "FAILED: the value returned on the `?` path carries no sender (the state owning the done-sender is dropped by try_fold)",
              "FAILED: the Err value returned from the fold step still carries a protocol sender")


# ---------------------------------------------------------------------------
# T2

JOIN_FNS = ("futures::future::join", "futures::future::join3", "tokio::join", "futures::future::try_join")


def join_sites(ctx, b):
    """Places where two futures are driven together and awaited in body b:
    `futures::join!(a, b)` (two maybe_done wrappers polled by one poll_fn) or
    `futures::future::join(a, b).await`.  Returns [{"ops": [operand, ..],
    "ready_bb": Ready arm of the await}]."""
    out = []
    mds = [(bb, t) for bb, t in b.calls() if callee_path(t) == "futures::future::maybe_done"
           and "join" in (t["sp"].get("macro") or "")]
    aws = awaits(b)
    if len(mds) >= 2:
        ready = None
        for a in aws:
            if a.operand["k"] == "const":
                continue
            d = get_defs(b).unique_full(a.operand["pl"]["l"])
            if d and d[0] == "call" and callee_path(d[3]) in ("futures::future::poll_fn", "std::future::poll_fn") and \
                    "join" in str(d[3]["sp"].get("macro", "")):
                ready = a.ready_bb
        out.append({"ops": [t["args"][0] for bb, t in mds], "ready_bb": ready, "bb": mds[0][0]})
    for bb, t in b.calls():
        if callee_path(t) in JOIN_FNS and len(t["args"]) >= 2:
            ready = None
            for a in aws:
                if a.operand["k"] != "const" and a.operand["pl"]["l"] == t["dest"]["l"]:
                    ready = a.ready_bb
            out.append({"ops": list(t["args"]), "ready_bb": ready, "bb": bb})
    return out


def T2(ctx, rule="T2"):
    """every internal path joins the queuer future with the scheduler block"""
    m, fb, fl = ctx.model, ctx.fb, ctx.model.flow
    # queuer = crate-local async fn / coroutine that receives from DONE
    done_rx_bodies = set()
    for s in m.recv_sites():
        if "DONE" in s["roles"]:
            done_rx_bodies.add(s["body"].root)
    ready_rx_roots = set()
    n = 0
    for e in m.entries:
        if m.family(e) == "stream":
            continue
        where = "%s:%d (FnGraph::%s)" % (e["sp"]["file"], e["sp"]["line"], e["name"])
        reach = m.reach(e["id"])
        joined = []
        for bid in sorted(reach):
            b = fb.bodies[bid]
            for js in join_sites(ctx, b):
                if js["ready_bb"] is not None:
                    joined.append((b, [(js["bb"], {"args": [o]}) for o in js["ops"]]))
        ok = False
        why = "no awaited join of two futures (`join!` / `future::join`) found"
        for b, mds in joined:
            has_queuer = has_sched = False
            for bb, t in mds:
                srcs = fl.sources_operand(b, t["args"][0])
                for s in srcs:
                    if s.kind == "agg" and s[4] in fb.bodies:
                        sub = m.reach(s[4])
                        # scheduler: reaches a per-item body / READY consumer
                        if any(m.param_calls(fb.bodies[x]) for x in sub):
                            has_sched = True
                        if any(fb.bodies[x].root in done_rx_bodies for x in sub):
                            has_queuer = True
                    if s.kind == "alloc" and s[4] in fb.bodies:
                        pass
                # queuer future produced by calling the async fn
                e0 = strip_refs(expr_operand(b, t["args"][0]))
                for c in walk_expr(e0):
                    if c.kind == "call" and c[1] in fb.bodies and any(fb.bodies[x].root in done_rx_bodies for x in m.reach(c[1])):
                        has_queuer = True
                if not has_queuer:
                    for s in srcs:
                        if s.kind == "agg" and s[4] in fb.bodies and fb.bodies[s[4]].root in done_rx_bodies:
                            has_queuer = True
            if has_queuer and has_sched:
                ok = True
            else:
                why = "join! at %s does not poll both the queuer (%s) and the scheduler (%s)" % (m.where(b), has_queuer, has_sched)
        n += 1
        ctx.check(ok, rule, "join|%s" % e["name"], where,
                  "the queuer future and the scheduler block are driven together by one `join!`", why)
    ctx.counts[rule] = n
    if n < 1:
        ctx.unverifiable(rule, "floor", "-", "no non-stream entry point found")


# ---------------------------------------------------------------------------
# T3 wake-up typestate

def poll_closures(ctx):
    """hand-written poll functions: every production body (closure passed to
    poll_fn, method called from one, manual Future/Stream impl) that polls a
    channel receiver with the task context or drains it with try_recv."""
    m, fb, fl = ctx.model, ctx.fb, ctx.model.flow
    out = []
    for b in fb.prod_bodies():
        if b.kind == "coroutine":
            continue
        hit = [callee_path(t) for bb, t in b.calls() if callee_path(t) in (
            "tokio::sync::mpsc::Receiver::<T>::poll_recv", "tokio::sync::mpsc::UnboundedReceiver::<T>::poll_recv",
            "tokio::sync::mpsc::Receiver::<T>::try_recv", "tokio::sync::mpsc::UnboundedReceiver::<T>::try_recv")]
        if not hit:
            continue
        # must be a poll function: has a task-context parameter
        has_cx = any("std::task::Context" in b.locals[i]["s"] for i in range(1, b.arg_count + 1))
        if has_cx:
            out.append((b, "polls %s" % sorted(set(x.split("::")[-1] for x in hit))))
    return out


def rx_key(body, op):
    e = strip_refs(expr_operand(body, op))
    return fmt_expr(e, body)


def T3_body(ctx, body):
    """Wake-up typestate of one poll function.  Abstract state = set of
    configurations; a configuration maps every polled receiver to ONE status
    (U unpolled, X polled-unexamined, P Pending = waker registered, N closed,
    S Ready(Some) consumed = no waker, R Ready(unknown), W woken) and every
    local in the backward slice of the return place to the kind of Poll value it
    holds (Ready, Pending, ('rx', k) = result of polling receiver k, ?).
    Keeping configurations apart preserves the correlation between "which
    receiver was consumed" and "what is returned" across joins.
    Returns (receivers, problems)."""
    fl = ctx.model.flow
    defs = get_defs(body)
    pollres = {}      # local -> (rxkey, call bb)
    noctx = {}
    for bb, t in body.calls():
        if callee_path(t) in ("tokio::sync::mpsc::Receiver::<T>::poll_recv", "tokio::sync::mpsc::UnboundedReceiver::<T>::poll_recv"):
            pollres[t["dest"]["l"]] = (rx_key(body, t["args"][0]), bb)
        elif callee_path(t) in ("tokio::sync::mpsc::Receiver::<T>::try_recv", "tokio::sync::mpsc::UnboundedReceiver::<T>::try_recv",
                                "tokio::sync::mpsc::Receiver::<T>::blocking_recv"):
            noctx[rx_key(body, t["args"][0])] = bb
    if not pollres and not noctx:
        return {}, []
    MAPS = ("std::task::Poll::<T>::map", "std::option::Option::<T>::map", "std::option::Option::<T>::inspect")
    # backward slice of the return place
    slice_ = set()
    stack = [0]
    while stack:
        l = stack.pop()
        if l in slice_:
            continue
        slice_.add(l)
        for kind, bb, si, x in defs.of(l):
            if kind == "stmt" and x["rv"]["k"] in ("use", "ref", "copy_for_deref"):
                pl = x["rv"]["pl"] if x["rv"]["k"] != "use" else x["rv"]["op"].get("pl")
                if pl:
                    stack.append(pl["l"])
            elif kind == "call" and callee_path(x) in MAPS and x["args"][0]["k"] != "const":
                stack.append(x["args"][0]["pl"]["l"])

    def root_pollres(local, depth=0):
        if local in pollres:
            return local, True
        if depth > 6:
            return None, False
        ds = defs.of(local)
        cands = set()
        exact = True
        for kind, bb, si, x in ds:
            if kind == "call" and callee_path(x) in MAPS:
                a = x["args"][0]
                if a["k"] != "const":
                    r, _ = root_pollres(a["pl"]["l"], depth + 1)
                    if r is not None:
                        cands.add(r)
                        exact = False
            elif kind == "stmt" and x["rv"]["k"] in ("use", "ref", "copy_for_deref"):
                pl = x["rv"]["pl"] if x["rv"]["k"] != "use" else x["rv"]["op"].get("pl")
                if pl and not strip_proj(pl["p"]):
                    r, ex = root_pollres(pl["l"], depth + 1)
                    if r is not None:
                        cands.add(r)
                        exact = exact and ex
        if len(cands) == 1:
            return list(cands)[0], exact and len(ds) == 1
        return None, False

    def switch_info(sb):
        t = body.blocks[sb]["term"]
        if t["k"] != "switch" or t["discr"]["k"] == "const":
            return None
        d = defs.unique_full(t["discr"]["pl"]["l"])
        if not d or d[0] != "stmt" or d[3]["rv"]["k"] != "discr":
            return None
        pl = d[3]["rv"]["pl"]
        r, exact = root_pollres(pl["l"])
        if r is None:
            return None
        names = [p.get("name") for p in pl["p"] if isinstance(p, dict) and "d" in p]
        if not names:
            return (pollres[r][0], "poll", exact)
        if names == ["Ready"]:
            return (pollres[r][0], "option", exact)
        return None

    rxs = sorted({k for k, _ in pollres.values()})
    sl = sorted(slice_)

    def mk(rxst, vals):
        return (tuple(sorted(rxst.items())), tuple(sorted(vals.items())))

    init = frozenset([mk({k: "U" for k in rxs}, {l: "?" for l in sl})])
    state_in = {0: init}
    work = [0]
    ret_cfgs = []
    it = 0
    while work and it < 40000:
        it += 1
        bb = work.pop()
        cfgs = state_in[bb]
        blk = body.blocks[bb]
        out_cfgs = set()
        for cfg in cfgs:
            rxst = dict(cfg[0])
            vals = dict(cfg[1])
            for s_ in blk["stmts"]:
                if s_["k"] != "assign" or s_["pl"]["p"] or s_["pl"]["l"] not in slice_:
                    continue
                rv = s_["rv"]
                l = s_["pl"]["l"]
                if rv["k"] == "agg" and (rv.get("def") or "").endswith("task::Poll"):
                    vals[l] = "Ready" if rv.get("variant") == "Ready" else "Pending"
                elif rv["k"] in ("use",) and rv["op"]["k"] != "const" and not rv["op"]["pl"]["p"] and rv["op"]["pl"]["l"] in vals:
                    vals[l] = vals[rv["op"]["pl"]["l"]]
                elif rv["k"] in ("use",) and rv["op"]["k"] != "const" and rv["op"]["pl"]["l"] in pollres and not rv["op"]["pl"]["p"]:
                    vals[l] = ("rx", pollres[rv["op"]["pl"]["l"]][0])
                else:
                    vals[l] = "?"
            t = blk["term"]
            if t["k"] == "call":
                p = callee_path(t)
                dl = t["dest"]["l"]
                if dl in pollres and pollres[dl][1] == bb:
                    rxst[pollres[dl][0]] = "X"
                    if dl in slice_:
                        vals[dl] = ("rx", pollres[dl][0])
                elif p in WAKE_FNS:
                    rxst = {k: ("W" if v in ("S", "R", "X") else v) for k, v in rxst.items()}
                elif dl in slice_ and not t["dest"]["p"]:
                    if p in MAPS and t["args"][0]["k"] != "const":
                        al = t["args"][0]["pl"]["l"]
                        vals[dl] = vals.get(al, ("rx", pollres[al][0]) if al in pollres else "?")
                    else:
                        vals[dl] = "?"
            if t["k"] == "return":
                ret_cfgs.append((bb, rxst, vals.get(0, "?")))
                continue
            if t["k"] == "switch":
                info = switch_info(bb)
                listed = [v for v, _ in t["targets"]]
                for v, tb in t["targets"] + [["otherwise", t["otherwise"]]]:
                    r2 = dict(rxst)
                    feasible = True
                    if info:
                        key, level, exact = info
                        cur = r2[key]
                        if level == "poll":
                            if v == "0":
                                new = "R"
                            elif v == "1":
                                new = "P"
                            else:
                                new = "P" if listed == ["0"] else ("R" if listed == ["1"] else None)
                            if new == "R":
                                if cur == "P":
                                    feasible = False
                                elif cur not in ("S", "N"):
                                    r2[key] = "R"
                            elif new == "P":
                                if cur in ("S", "N", "R"):
                                    feasible = False
                                else:
                                    r2[key] = "P"
                        elif level == "option" and exact:
                            if v == "1":
                                new = "S"
                            elif v == "0":
                                new = "N"
                            else:
                                new = "N" if listed == ["1"] else ("S" if listed == ["0"] else None)
                            if new:
                                if cur in ("S", "N") and cur != new:
                                    feasible = False
                                else:
                                    r2[key] = new
                    if feasible:
                        out_cfgs.add((tb, mk(r2, vals)))
            else:
                for s2 in body.succs(bb):
                    out_cfgs.add((s2, mk(rxst, vals)))
        by_succ = {}
        for s2, c in out_cfgs:
            by_succ.setdefault(s2, set()).add(c)
        for s2, cs in by_succ.items():
            old = state_in.get(s2, frozenset())
            new = old | cs
            if len(new) > 400:
                return {k: [] for k in rxs}, [(s2, "*", ["state explosion: unverifiable"])]
            if new != old:
                state_in[s2] = frozenset(new)
                work.append(s2)
    problems = []
    returned_keys = set()
    for bb, rxst, ret in ret_cfgs:
        if isinstance(ret, tuple):
            returned_keys.add(ret[1])
        if ret == "Ready":
            continue
        if isinstance(ret, tuple):
            k0 = ret[1]
            if rxst.get(k0) in ("S", "R", "N"):
                continue          # returns Ready(..)
            skip = {k0}
        else:
            skip = set()
        for k, v in rxst.items():
            if k in skip:
                continue
            if v in ("S", "R") or (v == "X"):
                problems.append((bb, k, [v, "return value: %s" % (ret,)]))
        for k, cbb in noctx.items():
            if k not in rxst:
                problems.append((cbb, k, ["consumed with try_recv only: no waker is ever registered for this receiver"]))
    # de-duplicate
    seen = set()
    uniq = []
    for pb in problems:
        key = (pb[0], pb[1], tuple(pb[2]))
        if key not in seen:
            seen.add(key)
            uniq.append(pb)
    return {k: sorted(returned_keys) for k in sorted(set(rxs) | set(noctx))}, uniq


def T3(ctx, rule="T3", families=None, want_stream=None):
    """want_stream: True -> only the stream family's poll functions (C05);
    False -> all others (C04); None -> all."""
    m, fb = ctx.model, ctx.fb
    stream_reach = set()
    for e in m.entries:
        if m.family(e) == "stream":
            stream_reach |= m.reach(e["id"])
    # closures handed to poll_fn reach the method that does the polling
    
    other_reach = set()
    for e in m.entries:
        if m.family(e) != "stream":
            other_reach |= m.reach(e["id"])
    n = 0
    for cb, how in poll_closures(ctx):
        in_stream = cb.id in stream_reach and cb.id not in other_reach
        if want_stream is True and not in_stream:
            continue
        if want_stream is False and in_stream:
            continue
        rxs, problems = T3_body(ctx, cb)
        n += 1
        key = short(cb.id)
        where = m.where(cb)
        if problems:
            bb, k, v = problems[0]
            ctx.bad(rule, "lost-wakeup|%s" % key, m.where(cb, bb),
                    "hand-written poll function can return Pending without a wake-up registered on `%s` (%s): "
                    "tokio registers a waker only when poll_recv returns Pending, so notifications arriving / already queued are never observed"
                    % (k, v), detail={"receivers": rxs, "problems": [(b_, k_, v_) for b_, k_, v_ in problems]})
        else:
            ctx.ok(rule, "wakeup|%s" % key, where,
                   "at every return each polled receiver %s is Pending (waker registered), closed, or its poll result is the returned value (%s)" % (
                       sorted(rxs), how))
    ctx.counts[rule] = n
    # inventory: every receive on a protocol channel is in a checked poll function or is an awaited `recv()`
    checked = {cb.id for cb, how in poll_closures(ctx)}
    for s_ in m.recv_sites():
        b = s_["body"]
        in_stream = b.id in stream_reach and b.id not in other_reach
        if (want_stream is True and not in_stream) or (want_stream is False and in_stream):
            continue
        if b.id not in stream_reach and b.id not in other_reach:
            continue
        for r in s_["roles"]:
            ctx.cover(rule + "." + str(r), b.id)
        if b.id in checked or s_.get("lifted"):
            continue        # (lifted: the receive itself sits in the wrapper's poll_next, a checked poll function)
        awaited = b.kind == "coroutine" and s_["fn"].endswith("::recv") and any(
            a.operand.get("pl", {}).get("l") == s_["t"]["dest"]["l"] for a in awaits(b))
        ctx.check(awaited, rule, "recv-site|%s" % short(b.id), m.where(b, s_["bb"]),
                  "receive through an awaited `recv()` future (registers the task's waker itself)",
                  "a protocol channel is received from by %s outside a poll function with a task context and not through an awaited recv(): wake-up discipline not decidable" % s_["fn"])
    fams = ("stream",) if want_stream else (("fold", "for_each", "try_fold", "try_for_each") if want_stream is False else None)
    for role in ("READY", "DONE"):
        ctx.entry_floor(rule, rule + "." + role, fams, "receive site of the %s channel" % role)


# ---------------------------------------------------------------------------
# U1 / U2 (C05)

def spine_downcasts(e):
    """variant names along the projection spine of an expression (`((x as Ready).0 as Some).0` -> [Ready, Some]), not those
    occurring inside the operands of the calls it is built from"""
    out = []
    e = strip_refs(e)
    while isinstance(e, E) and e.kind in ("field", "downcast", "deref", "ref"):
        if e.kind == "downcast":
            out.append(e[2])
        e = strip_refs(e[1])
    out.reverse()
    return out


def U1(ctx, rule="U1"):
    """end-of-stream bookkeeping of the stream family's poll closure"""
    m, fb, fl = ctx.model, ctx.fb, ctx.model.flow
    sites = release_sites(ctx)
    stream_entries = [e for e in m.entries if m.family(e) == "stream"]
    if not stream_entries:
        ctx.unverifiable(rule, "no-stream", "-", "no stream entry point")
        return
    reach = set()
    for e in stream_entries:
        reach |= m.reach(e["id"])
    # both senders released on EMPTY and FINISHED
    for role in ("DONE", "READY"):
        for k in ("EMPTY", "FINISHED"):
            c = [s for s in sites if s["body"].id in reach and role in s["roles"] and s["kind"] == k]
            if k == "EMPTY":
                c = [s for s in c if is_pre_scheduler_body(s["body"])]
                if not c:
                    ebc = [empty_by_construction(ctx, e, role) for e in stream_entries]
                    if ebc and all(x[0] for x in ebc):
                        ctx.ok(rule, "%s-%s" % (role, k), "-", "%s: %s" % (role, ebc[0][1]))
                        continue
            ctx.check(bool(c), rule, "%s-%s" % (role, k), m.where(c[0]["body"], c[0]["bb"]) if c else "-",
                      "%s sender released when %s" % (role, "the graph is empty" if k == "EMPTY" else "the countdown reaches 0"),
                      "stream: %s sender is not released when %s" % (role, "the graph is empty" if k == "EMPTY" else "the countdown of yielded functions reaches 0"))
    # the countdown is decremented exactly on Ready(Some) of the READY poll, by 1
    pcs = [cb for cb, how in poll_closures(ctx) if cb.id in reach]
    helpers_of = {cb.id: (m.reach_calls(cb.id) - {cb.id}) for cb in pcs}
    for cb in pcs:
        if any(cb.id in hs for hs in helpers_of.values()):
            continue        # a helper called from the stream's poll function: covered through its caller
        grp = [fb.bodies[i] for i in sorted(m.reach_calls(cb.id))]
        has_ready = any(callee_path(t) in RECV_FNS and "READY" in m.receiver_role(gb, t["args"][0])[0] for gb in grp for bb, t in gb.calls())
        if not has_ready:
            continue
        key = short(cb.id)
        decs = []
        for bb, si, s in cb.stmts():
            if s["k"] == "assign" and s["rv"]["k"] == "use":
                from analysis import expr_rvalue
                v = expr_rvalue(cb, s["rv"], 0, (bb, si))
                if v.kind == "binop" and v[1] == "Sub":
                    # the countdown itself: a value initialised directly from node_count() (not a count of edges)
                    srcs = sources_of_expr(ctx, cb, v[2], mode="prov")
                    if any(x.kind == "alloc" and x[4] in NODE_COUNT_FNS for x in srcs):
                        decs.append((bb, si, v))
        if not decs:
            # count-up form: a counter that starts at 0, is incremented, and is compared with node_count()
            for bb, si, s in cb.stmts():
                if s["k"] == "assign" and s["rv"]["k"] == "use":
                    v = expr_rvalue(cb, s["rv"], 0, (bb, si))
                    if v.kind == "binop" and v[1] == "Add":
                        srcs = sources_of_expr(ctx, cb, v[2], mode="taint")
                        if srcs and all(x.kind in ("const", "op") for x in srcs) and any(x.kind == "const" and str(x[1]) in ("0", "0_usize") for x in srcs):
                            compared = False
                            for sb2, blk2 in enumerate(cb.blocks):
                                if blk2["term"]["k"] == "switch":
                                    de2 = strip_refs(switch_expr(cb, sb2))
                                    if de2.kind == "binop" and de2[1] in ("Eq", "Ne"):
                                        c2 = classify_value_as_guard(ctx, cb, de2, True)
                                        if c2 and c2[0] in ("FINISHED", "EMPTY", "NONZERO") and c2[1].startswith("count-up "):
                                            compared = True
                            if compared:
                                decs.append((bb, si, v))
        ok = len(decs) == 1 and is_const(decs[0][2][3], 1)
        where = m.where(cb, decs[0][0], decs[0][1]) if decs else m.where(cb)
        ctx.check(ok, rule, "countdown-dec|%s" % key, where,
                  "the countdown (initialised from node_count) is decremented by exactly 1 at one site",
                  "countdown decrement sites: %d" % len(decs))
        if decs:
            bb = decs[0][0]
            # guarded by Ready(Some) of the value that is returned
            g_ok = False
            glist = list(guards_of(cb, bb))
            # a `matches!(..)`-style boolean: look at the guards of the block that sets it to true
            for sb, vals in list(glist):
                de = strip_refs(switch_expr(cb, sb))
                if de.kind == "local" and "otherwise" in vals and "0" not in vals:
                    for kind_, dbb, si_, x_ in get_defs(cb).of(de[1]):
                        if kind_ == "stmt" and x_["rv"]["k"] == "use" and x_["rv"]["op"]["k"] == "const" and \
                                str(x_["rv"]["op"].get("bits", x_["rv"]["op"]["val"])) in ("1", "true"):
                            glist.extend(guards_of(cb, dbb))
            for sb, vals in glist:
                de = switch_expr(cb, sb)
                ds = strip_refs(de)
                if ds.kind == "call" and ds[1] == "std::option::Option::<T>::is_some" and ds[2] and "0" not in vals:
                    # `if item.is_some()` on the Option the poll function is about to yield (`ready!(rx.poll_recv(cx)).map(..)`)
                    rs, _ = m.roles_of_sources(sources_of_expr(ctx, cb, strip_refs(ds[2][0]), mode="taint"), half=1)
                    if "READY" in rs:
                        g_ok = True
                if de.kind == "discr":
                    inner = strip_refs(de[1])
                    names = spine_downcasts(inner)
                    if names == ["Some"] and vals == frozenset(["1"]):
                        rs, _ = m.roles_of_sources(sources_of_expr(ctx, cb, inner, mode="taint"), half=1)
                        if "READY" in rs:
                            g_ok = True
                    if names == ["Ready"] and vals == frozenset(["1"]):
                        # ... of the poll of the READY receiver (the value the stream yields), not of the done receiver
                        rs, _ = m.roles_of_sources(sources_of_expr(ctx, cb, inner, mode="taint"), half=1)
                        if "READY" in rs:
                            g_ok = True
            ctx.check(g_ok, rule, "countdown-guard|%s" % key, where,
                      "the decrement happens exactly when the poll result is Ready(Some(..)) (a function is yielded)",
                      "the countdown decrement is not guarded by `Ready(Some(..))` of the yielded item")
        # with the done-sender gone the poll returns Ready(None) without touching READY
        rp = [(gb, bb, t) for gb in grp for bb, t in gb.calls() if callee_path(t) in RECV_FNS and "READY" in m.receiver_role(gb, t["args"][0])[0]]
        g2 = False
        for gb, bb, t in rp:
            sites_ = [(gb, bb)]
            if gb.id != cb.id:
                # also the guards of the helper's call in the poll function
                sites_ += [(cb, cbb) for cbb, ct in cb.calls() if callee_path(ct) == gb.id]
            for xb, xbb in sites_:
                for sb, vals in guards_of(xb, xbb):
                    de = switch_expr(xb, sb)
                    if de.kind == "discr":
                        roles = holder_roles(ctx, xb, strip_refs(de[1]))
                        if "DONE" in roles and vals == frozenset([payload_variant(ctx, xb, strip_refs(de[1]))]):
                            g2 = True
        ctx.check(g2, rule, "end-guard|%s" % key, m.where(cb),
                  "READY is polled only while the done-sender is still held; afterwards the stream ends with Ready(None)",
                  "the poll of READY is not guarded by the done-sender being present: the stream cannot end (READY's sender is also held by the closure)")
        # every explicit `Poll::Ready(None)` the poll function can return is on the arm where the done-sender is gone
        # (or the countdown is 0): the stream never ends because of some other observation
        for gb in [cb] + [x for x in grp if x.id != cb.id and x.kind == "fn"]:
            for bb, si, s in gb.stmts():
                if s["k"] != "assign" or s["rv"]["k"] != "agg" or s["rv"].get("def") != "std::task::Poll" or not s["rv"]["ops"]:
                    continue
                from analysis import expr_rvalue
                v = expr_rvalue(gb, s["rv"], 0, (bb, si))
                if not (v.kind == "agg" and v[3] == "Ready" and v[4]):
                    continue
                inner = strip_refs(v[4][0])
                is_none = inner.kind == "agg" and (inner[2] or "").endswith("option::Option") and inner[3] == "None"
                if not is_none:
                    continue
                if "Option<" not in (s["pl"].get("ty") or ""):
                    continue
                okn = False
                for sb, vals in guards_of(gb, bb):
                    de = switch_expr(gb, sb)
                    if de.kind == "discr":
                        roles = holder_roles(ctx, gb, strip_refs(de[1]))
                        if "DONE" in roles and "1" not in vals:
                            okn = True
                        # `match ready_rx.poll_recv(cx) { Ready(None) => Ready(None), .. }`: the READY channel's own end-of-stream
                        # handed on (its senders are released only at the countdown's end / for the empty graph: U1.*-FINISHED/EMPTY)
                        inner = strip_refs(de[1])
                        names = spine_downcasts(inner)
                        if names in (["Ready"], []) and "1" not in vals:
                            rs, _ = m.roles_of_sources(sources_of_expr(ctx, gb, inner, mode="taint"), half=1)
                            if rs == {"READY"} and any(x.kind == "call" and x[1] in RECV_FNS for x in walk_expr(inner)):
                                okn = True
                for sb, x, rel in guard_eq_zero(gb, bb):
                    if rel == "eq0" and not isinstance(x, str):
                        srcs = sources_of_expr(ctx, gb, x, mode="prov")
                        if any(q.kind == "alloc" and q[4] in NODE_COUNT_FNS for q in srcs):
                            okn = True
                ctx.check(okn, rule, "none-site|%s" % short(gb.id), m.where(gb, bb, si),
                          "an explicit Ready(None) is returned only once the done-sender has been released (countdown reached 0 / empty graph)",
                          "the stream's poll function can return Ready(None) while the done-sender is still held and the countdown has not reached 0: "
                          "the stream ends before every function was yielded")
    ctx.floor(rule, 6, "end-of-stream obligations")



def outcome_preserving_helper(ctx, fcl, e):
    """e = H(item) with H a private call-free function PollOutcome -> PollOutcome that constructs no outcome other than
    `Interrupted(..)`: an Interrupted item stays Interrupted (what it returns is its parameter or a rebuilt Interrupted)"""
    fb = ctx.fb
    if e.kind != "call" or e[1] not in fb.bodies or len(e[2]) != 1 or strip_refs(e[2][0]) != E(("arg", 2)):
        return False
    H = fb.bodies[e[1]]
    sig = fb.fns.get(H.id) or {}
    if H.kind != "fn" or sig.get("public") or "PollOutcome" not in (sig.get("output") or {}).get("s", "") or \
            "Option" in (sig.get("output") or {}).get("s", "").split("PollOutcome")[0]:
        return False
    if list(H.calls()):
        return False
    for bb_, si_, s_ in H.stmts():
        if s_["k"] == "assign" and s_["rv"]["k"] == "agg" and (s_["rv"].get("def") or "").endswith("PollOutcome") and \
                s_["rv"].get("variant") != "Interrupted":
            return False
    return True

def T4(ctx, rule="T4"):
    """Every item of the interruptible ready stream reaches the scheduler: a
    filter/filter_map between `interruptible_with` and the consuming adaptor
    must pass every item on (otherwise an `Interrupted(None)` notice is lost
    and the done-sender held by the concurrent paths is never released)."""
    m, fb, fl = ctx.model, ctx.fb, ctx.model.flow
    if not m.interruptible:
        return
    n = 0
    for b in fb.prod_bodies():
        for bb, t in b.calls():
            p = callee_path(t)
            if p not in ("futures::StreamExt::filter_map", "futures::StreamExt::filter", "futures::StreamExt::take_while",
                         "futures::StreamExt::skip_while", "futures::StreamExt::take", "futures::StreamExt::skip"):
                continue
            # only filters applied to a stream that went through interruptible_with
            e = strip_refs(expr_operand(b, t["args"][0]))
            if not any(c.kind == "call" and c[1] == "interruptible::InterruptibleStreamExt::interruptible_with" for c in walk_expr(e)):
                continue
            n += 1
            where = m.where(b, bb)
            if p != "futures::StreamExt::filter_map":
                ctx.bad(rule, "narrowed|%s" % short(b.id), where, "the interruptible ready stream is narrowed by %s" % p)
                continue
            fcl = fl._closure_body_of_operand(b, t["args"][1])
            ok = False
            why = "filter_map closure not found"
            if fcl is not None:
                # the closure's return: ready(Some(param)) on every path
                rs = fl.sources_local(fcl, 0, ("$out",))
                agg_ok = True
                rets = get_defs(fcl).of(0)
                why = "the closure does not return `ready(Some(item))` unconditionally"
                if len(rets) == 1 and rets[0][0] == "call" and callee_path(rets[0][3]) in ("futures::future::ready", "std::future::ready"):
                    a = strip_refs(expr_operand(fcl, rets[0][3]["args"][0]))
                    if a.kind == "agg" and a[3] == "Some" and strip_refs(a[4][0]) == E(("arg", 2)):
                        ok = True
                    elif a.kind == "agg" and a[3] == "Some" and outcome_preserving_helper(ctx, fcl, strip_refs(a[4][0])):
                        ok = True       # `Some(helper(item))`, the helper never turns an Interrupted outcome into another variant
                    else:
                        why = "the closure returns `ready(%s)`: items can be dropped" % fmt_expr(a, fcl)
            ctx.check(ok, rule, "passthrough|%s" % short(b.id), where,
                      "the filter behind the interruptible wrapper passes every item (including Interrupted(None)) on to the scheduler",
                      "an interruption notice can be filtered away before the scheduler sees it: %s" % why)
    ctx.counts[rule] = n
    wraps = sum(1 for b in fb.prod_bodies() for bb, t in b.calls()
                if callee_path(t) == "interruptible::InterruptibleStreamExt::interruptible_with")
    if wraps < 1:
        ctx.unverifiable(rule, "floor", "-", "no interruptible_with call found")
    elif n == 0:
        ctx.ok(rule, "no-filter", "-", "no filtering adaptor stands between interruptible_with (%d call sites) and the scheduler" % wraps)


# adaptors that poll a future once or may drop it before completion
MAY_ABANDON = ("now_or_never", "poll_immediate", "timeout", "timeout_at", "abortable", "select", "select_ok", "try_select", "race")
MAY_ABANDON_PATHS = ("futures::future::poll_immediate", "tokio::time::timeout", "futures::future::select")


def A1(ctx, rule="A1"):
    """No dropped futures on the streaming paths: a call that produces a future
    (crate-local async fn, tokio send/read/write, ...) inside a body reachable from
    a streaming entry point must be awaited, polled, returned, stored or passed on.
    A future that is only dropped never runs: a done-send or a release that is
    written but not awaited silently does nothing."""
    m, fb, fl = ctx.model, ctx.fb, ctx.model.flow
    bodies = set()
    for e in m.entries:
        bodies |= m.reach(e["id"])
    n = 0
    # outside coroutines (a per-child closure, `FnRef::drop`) a future cannot be awaited at all: an async channel / lock
    # operation written there (`send` for `try_send`) only builds a future that is dropped
    sync_bodies = {x.id for x in fb.prod_bodies() if x.kind != "coroutine"}
    for bid in sorted(bodies | sync_bodies):
        b = fb.bodies[bid]
        if fb.is_test_body(b):
            continue
        for bb, t in b.calls():
            dty = t["dest"]["ty"]
            c = t.get("callee") or {}
            if not ("Future<Output" in dty or dty.startswith("impl futures::Future") or dty.startswith("impl std::future::Future")):
                continue
            if b.kind != "coroutine" and not (callee_path(t) or "").startswith(("tokio::sync::mpsc::", "tokio::sync::RwLock", "tokio::sync::Mutex",
                                                                                 "tokio::sync::Semaphore", "tokio::sync::oneshot")):
                continue
            if t["sp"].get("exp") and t["sp"].get("desugar") == "Await":
                continue
            n += 1
            dl = t["dest"]["l"]
            used = False
            for bb2, si2, s2 in b.stmts():
                if s2["k"] != "assign":
                    continue
                rv = s2["rv"]
                ops = []
                if rv["k"] in ("use", "cast", "repeat"):
                    ops = [rv["op"]]
                elif rv["k"] == "agg":
                    ops = rv["ops"]
                elif rv["k"] in ("ref", "rawptr", "copy_for_deref"):
                    if rv["pl"]["l"] == dl:
                        used = True
                for o in ops:
                    if o["k"] in ("copy", "move") and o["pl"]["l"] == dl:
                        used = True
            abandoned = None
            for bb2, t2 in b.calls():
                if callee_path(t2) in ("std::mem::drop", "std::mem::forget"):
                    continue
                for a in t2["args"]:
                    if a["k"] in ("copy", "move") and a["pl"]["l"] == dl:
                        used = True
                        p2 = callee_path(t2) or ""
                        if p2.split("::")[-1] in MAY_ABANDON or p2 in MAY_ABANDON_PATHS:
                            abandoned = p2
            if abandoned:
                ctx.bad(rule, "abandoned|%s|%s" % (short(b.id), (c.get("path") or "?").split("::")[-1]), m.where(b, bb),
                        "the future returned by %s is handed to %s, which polls it at most once / may drop it unfinished: whether the operation "
                        "happens then depends on the ambient task (tokio's cooperative budget, other runs polled in the same task)" % (c.get("path"), abandoned))
                continue
            if dl == 0:
                used = True
            name = c.get("path") or "?"
            ctx.check(used, rule, "awaited|%s|%s" % (short(b.id), name.split("::")[-1]), m.where(b, bb),
                      "the future returned by %s is awaited / passed on" % name,
                      "the future returned by %s is created and dropped without being awaited: the operation never happens" % name)
    ctx.counts[rule] = n
    if n < 8:
        ctx.unverifiable(rule, "floor", "-", "expected future-producing calls on the streaming paths, found %d" % n)
