"""Protocol model of fn_graph's scheduler, discovered from the fact base by
types, allocation sites and value flow -- never by identifier names of locals.

Roles (DESIGN.md A3):
  DONE    the mpsc channel whose Sender flows into the public FnRef's Sender field
  READY   the other channel::<FnId> allocated in the same function
  RESULT  any other mpsc channel (error collection in the try-concurrent paths)
  SETUP   the function allocating READY and DONE
"""
import re
from analysis import Flow, Src, expr_operand, expr_local, strip_refs, fmt_src
from facts import callee_path, is_param_call

CHANNEL_FNS = ("tokio::sync::mpsc::channel", "tokio::sync::mpsc::unbounded_channel")
SEND_FNS = {
    "tokio::sync::mpsc::Sender::<T>::send": "await",
    "tokio::sync::mpsc::Sender::<T>::try_send": "sync",
    "tokio::sync::mpsc::Sender::<T>::blocking_send": "sync",
    "tokio::sync::mpsc::Sender::<T>::send_timeout": "await",
    "tokio::sync::mpsc::UnboundedSender::<T>::send": "sync",
    "tokio::sync::mpsc::Permit::<'_, T>::send": "sync",
    "tokio::sync::mpsc::OwnedPermit::<T>::send": "sync",
}
RECV_FNS = {
    "tokio::sync::mpsc::Receiver::<T>::poll_recv", "tokio::sync::mpsc::Receiver::<T>::recv",
    "tokio::sync::mpsc::Receiver::<T>::try_recv", "tokio::sync::mpsc::Receiver::<T>::blocking_recv",
    "tokio::sync::mpsc::Receiver::<T>::poll_recv_many", "tokio::sync::mpsc::Receiver::<T>::recv_many",
    "tokio::sync::mpsc::UnboundedReceiver::<T>::poll_recv", "tokio::sync::mpsc::UnboundedReceiver::<T>::recv",
}
FNGRAPH = "fn_graph::FnGraph"


class ModelError(Exception):
    pass


class Model:
    def __init__(self, fb):
        self.fb = fb
        self.flow = Flow(fb)
        self.flow.relabel_alloc_fns = frozenset(("data_access::DataAccessDyn::borrows", "data_access::DataAccessDyn::borrow_muts"))
        self.errors = []
        self._cg = None
        self._reach = {}
        self.async_cfg = "async" in fb.features
        self.interruptible = "interruptible" in fb.features
        self._discover_entries()
        if self.async_cfg:
            self._discover_channels()

    # -- FnGraph fields ------------------------------------------------------
    def fngraph_fields(self):
        adt = self.fb.adts.get(FNGRAPH)
        if not adt:
            return []
        return [f["name"] for f in adt["variants"][0]["fields"]]

    def adt_fields(self, path):
        adt = self.fb.adts.get(path)
        if not adt:
            return []
        return [f["name"] for f in adt["variants"][0]["fields"]]

    # -- entry points --------------------------------------------------------
    def _discover_entries(self):
        self.entries = []
        for f in self.fb.fns.values():
            if not f.get("public"):
                continue
            if not f.get("impl_self", "").startswith("fn_graph::FnGraph<"):
                continue
            if f.get("impl_trait"):
                continue
            out = f["output"]["s"]
            if "Stream<Item" in out or "stream_outcome::StreamOutcome" in out or "fn_ref::FnRef" in out:
                self.entries.append(f)
        self.entries.sort(key=lambda f: f["name"])

    # -- call graph ----------------------------------------------------------
    def callgraph(self):
        if self._cg is None:
            cg = {}
            self._cg_cb = {}
            # trait methods of crate-private structs (a hand-written Iterator / Stream / Future): whoever builds the struct
            # hands it to a consumer that drives those methods
            impl_methods = {}
            for f in self.fb.fns.values():
                if f.get("impl_trait") and f.get("impl_self") and f["id"] in self.fb.bodies:
                    ty = f["impl_self"].split("<")[0].lstrip("&").strip()
                    adt = self.fb.adts.get(ty)
                    if adt is not None and not adt.get("public") and f["impl_trait"] not in ("std::clone::Clone", "std::fmt::Debug", "std::default::Default"):
                        impl_methods.setdefault(ty, []).append(f["id"])
            for b in self.fb.bodies.values():
                out = set()
                for bb, t in b.calls():
                    c = t.get("callee")
                    if c:
                        r = c.get("resolved")
                        if isinstance(r, dict) and r["path"] in self.fb.bodies:
                            out.add(r["path"])
                        if c["path"] in self.fb.bodies:
                            out.add(c["path"])
                def fn_item(op):
                    # a function item used as a value (`.map(helper)`, `try_fold(init, step_fn)`)
                    if isinstance(op, dict) and op.get("k") == "const" and "fn" in op:
                        f = op["fn"]
                        r = f.get("resolved")
                        if isinstance(r, dict) and r.get("path") in self.fb.bodies:
                            out.add(r["path"])
                        if f.get("path") in self.fb.bodies:
                            out.add(f["path"])
                for bb, t in b.calls():
                    for a in t["args"]:
                        fn_item(a)
                    pc_ = is_param_call(t)
                    if pc_:
                        # a private higher-order helper calling the closure it was given: followed by reach() only when the
                        # walk starts inside that helper -- a caller already reaches the closure it constructs, and the closures
                        # other callers pass are not part of its run
                        for cb_ in (self.flow.internal_callback(b, pc_) or []):
                            self._cg_cb.setdefault(b.id, set()).add(cb_.id)
                for bb, si, s in b.stmts():
                    if s["k"] != "assign":
                        continue
                    rv = s["rv"]
                    if rv["k"] == "agg" and rv["ak"] in ("closure", "coroutine", "coroutine_closure"):
                        if rv["def"] in self.fb.bodies:
                            out.add(rv["def"])
                    if rv["k"] == "agg" and rv["ak"] == "adt" and rv.get("def") in impl_methods:
                        out.update(impl_methods[rv["def"]])
                    if rv["k"] in ("use", "cast"):
                        fn_item(rv.get("op"))
                    elif rv["k"] == "agg":
                        for o in rv["ops"]:
                            fn_item(o)
                cg[b.id] = out
            self._cg = cg
        return self._cg

    def reach(self, start):
        if start in self._reach:
            return self._reach[start]
        cg = self.callgraph()
        seen = set()
        st = [start]
        while st:
            x = st.pop()
            if x in seen or x not in cg:
                continue
            seen.add(x)
            st.extend(cg[x])
            if x in self._cg_cb and start in self.fb.bodies and self.fb.bodies[x].root == self.fb.bodies[start].root:
                st.extend(self._cg_cb[x])
        self._reach[start] = seen
        return seen

    def reach_calls(self, start):
        """bodies executed as part of running `start` itself: direct calls to
        crate-local functions and the coroutine of a called async fn -- not
        closures that `start` merely creates and hands to an adaptor."""
        key = ("calls", start)
        if key in self._reach:
            return self._reach[key]
        seen = set()
        st = [start]
        while st:
            x = st.pop()
            if x in seen or x not in self.fb.bodies:
                continue
            seen.add(x)
            b = self.fb.bodies[x]
            for bb, t in b.calls():
                c = t.get("callee")
                if not c:
                    continue
                for pth in (c["path"], (c.get("resolved") or {}).get("path") if isinstance(c.get("resolved"), dict) else None):
                    if pth in self.fb.bodies:
                        st.append(pth)
                        co = pth + "::{closure#0}"
                        if co in self.fb.bodies and self.fb.bodies[co].kind == "coroutine" and self.fb.bodies[co].parent == pth \
                                and "Future" in (self.fb.fns.get(pth, {}).get("output", {}).get("s", "")):
                            st.append(co)
        self._reach[key] = seen
        return seen

    def reach_bodies(self, start):
        return [self.fb.bodies[i] for i in sorted(self.reach(start))]

    # -- channels ------------------------------------------------------------
    def _discover_channels(self):
        fb = self.fb
        self.channels = []      # (body, bb, term)
        self.channel_cap = {}   # (body id, bb) -> capacity operand (in that body)
        raw = []
        for b in fb.prod_bodies():
            for bb, t in b.calls():
                if callee_path(t) in CHANNEL_FNS:
                    raw.append((b, bb, t))
        # private constructors wrapping exactly one channel allocation: their call sites are the allocation sites
        wrappers = {}
        for (b, bb, t) in raw:
            sig = fb.fns.get(b.id)
            if b.kind != "fn" or sig is None or sig.get("public") and not (sig.get("impl_self") and not (fb.adts.get((sig.get("impl_self") or "").split("<")[0]) or {}).get("public", True)):
                continue
            if len([1 for (b2, _, _) in raw if b2.id == b.id]) != 1 or b.back_edges():
                continue
            sites = [(cb, cbb, ct) for (cb, cbb, ct) in self.flow.call_sites().get(b.id, []) if not fb.is_test_body(cb)]
            if not sites:
                continue
            # both halves of the channel leave through the return value
            rs = self.flow.sources_local(b, 0, (0,)) | self.flow.sources_local(b, 0, (1,))
            if not any(x.kind == "alloc" and (x[1], x[2]) == (b.id, bb) for x in rs):
                continue
            wrappers[b.id] = (b, bb, t, sites)
        if wrappers:
            Flow.alloc_wrappers = {}
            self.flow.alloc_wrappers = {hid: (hid, w[1]) for hid, w in wrappers.items()}
            self.flow.table.clear()
        for (b, bb, t) in raw:
            if b.id in wrappers:
                _, _, it, sites = wrappers[b.id]
                cap = it["args"][0] if it["args"] else None
                for (cb, cbb, ct) in sites:
                    self.channels.append((cb, cbb, ct))
                    # capacity: the wrapper's parameter that reaches the channel call
                    if cap is not None and cap["k"] != "const":
                        ex = strip_refs(expr_operand(b, cap))
                        if ex.kind == "arg" and ex[1] - 1 < len(ct["args"]):
                            self.channel_cap[(cb.id, cbb)] = ct["args"][ex[1] - 1]
                        else:
                            # the wrapper computes the capacity itself (`max(1, graph.node_count())` of its parameter): the
                            # expression, to be read with this call's arguments
                            self.channel_cap[(cb.id, cbb)] = {"wrapped": (b, cap, ct)}
            else:
                self.channels.append((b, bb, t))
                if t["args"]:
                    self.channel_cap[(b.id, bb)] = t["args"][0]
        self.DONE = None
        self.READY = None
        self.SETUP = None
        # DONE: sender flows into FnRef's Sender-typed field
        fnref = fb.adts.get("fn_ref::FnRef")
        done_allocs = set()
        self.fnref_sites = []
        if fnref:
            fields = fnref["variants"][0]["fields"]
            tx_idx = [i for i, f in enumerate(fields) if "tokio::sync::mpsc::Sender" in f["ty"]["s"] or
                      "tokio::sync::mpsc::bounded::Sender" in f["ty"]["defs"]]
            self.fnref_tx_field = tx_idx[0] if tx_idx else None
            self.fnref_fields = [f["name"] for f in fields]
            for b in fb.prod_bodies():
                for bb, si, s in b.stmts():
                    if s["k"] == "assign" and s["rv"]["k"] == "agg" and s["rv"].get("def") == "fn_ref::FnRef":
                        self.fnref_sites.append((b, bb, si, s))
                        if self.fnref_tx_field is not None:
                            for src in self.flow.sources_operand(b, s["rv"]["ops"][self.fnref_tx_field]):
                                if src.kind == "alloc" and src[4] in CHANNEL_FNS and src[3][:1] == (0,):
                                    done_allocs.add((src[1], src[2]))
        if len(done_allocs) == 1:
            self.DONE = list(done_allocs)[0]
        elif not done_allocs:
            self.errors.append("DONE channel not found: no mpsc Sender flows into a FnRef construction")
        else:
            self.errors.append("ambiguous DONE channel: %s" % sorted(done_allocs))
        if self.DONE:
            self.SETUP = self.DONE[0]
            others = [(b.id, bb) for (b, bb, t) in self.channels if b.id == self.SETUP and (b.id, bb) != self.DONE]
            if len(others) == 1:
                self.READY = others[0]
            else:
                self.errors.append("READY channel not found: expected exactly one other channel in %s, found %d" % (
                    self.SETUP, len(others)))
        self.RESULTS = [(b.id, bb) for (b, bb, t) in self.channels if (b.id, bb) not in (self.DONE, self.READY)]
        # call-site sensitivity of the value flow is for helpers *below* the set-up function; everything from which the set-up
        # function is reachable keeps the merged (context-insensitive) view, which the "same structure as the set-up paired"
        # comparisons are phrased in
        if self.SETUP:
            anc = {self.SETUP}
            changed = True
            while changed:
                changed = False
                for b in fb.prod_bodies():
                    if b.id in anc:
                        continue
                    hit = False
                    for bb, t in b.calls():
                        c = t.get("callee") or {}
                        for pth in (c.get("path"), (c.get("resolved") or {}).get("path") if isinstance(c.get("resolved"), dict) else None):
                            if pth in anc:
                                hit = True
                    if not hit:
                        hit = any(x.parent == b.id and x.id in anc for x in fb.prod_bodies())
                    if hit:
                        anc.add(b.id)
                        changed = True
            self.flow.merge_call_targets = anc
            self.flow.table = {}

    def chan_role(self, alloc_key):
        if alloc_key == self.DONE:
            return "DONE"
        if alloc_key == self.READY:
            return "READY"
        if alloc_key in self.RESULTS:
            return "RESULT"
        return None

    def roles_of_sources(self, srcs, half=None):
        """Set of channel roles among value sources (half: 0 sender, 1 receiver)."""
        roles = set()
        other = set()
        for s in srcs:
            if s.kind == "alloc" and s[4] in CHANNEL_FNS:
                if half is not None and s[3][:1] != (half,):
                    other.add(s)
                    continue
                r = self.chan_role((s[1], s[2]))
                roles.add(r or "UNKNOWN-CHANNEL")
            else:
                other.add(s)
        return roles, other

    def sender_role(self, body, operand):
        srcs = self.flow.sources_operand(body, operand)
        return self.roles_of_sources(srcs, half=0)

    def receiver_role(self, body, operand):
        srcs = self.flow.sources_operand(body, operand)
        return self.roles_of_sources(srcs, half=1)

    def is_ready_item(self, srcs):
        """All sources are 'item received from READY's receiver'."""
        if not srcs:
            return False
        for s in srcs:
            if not (s.kind == "alloc" and s[4] in CHANNEL_FNS and (s[1], s[2]) == self.READY and s[3][:1] == (1,) and "$item" in s[3]):
                return False
        return True

    def is_done_item(self, srcs):
        if not srcs:
            return False
        for s in srcs:
            if not (s.kind == "alloc" and s[4] in CHANNEL_FNS and (s[1], s[2]) == self.DONE and s[3][:1] == (1,) and "$item" in s[3]):
                return False
        return True

    # -- send / recv site inventory -----------------------------------------
    def send_sites(self):
        out = []
        for b in self.fb.prod_bodies():
            for bb, t in b.calls():
                p = callee_path(t)
                if p in SEND_FNS:
                    roles, other = self.sender_role(b, t["args"][0])
                    out.append({"body": b, "bb": bb, "t": t, "roles": roles, "other": other, "fn": p})
        return out

    def recv_sites(self):
        out = []
        for b in self.fb.prod_bodies():
            for bb, t in b.calls():
                p = callee_path(t)
                if p in RECV_FNS:
                    lifted = self._lifted_recv_sites(b, bb, t, p)
                    if lifted:
                        out.extend(lifted)      # one site per construction of the wrapper instead of the merged one inside it
                        continue
                    roles, other = self.receiver_role(b, t["args"][0])
                    out.append({"body": b, "bb": bb, "t": t, "roles": roles, "other": other, "fn": p})
        return out

    def _lifted_recv_sites(self, b, bb, t, p):
        """a receive inside the hand-written `Stream` impl of a crate-local wrapper struct (`ReceiverStream { rx }`): one
        receive site per construction of the wrapper, in the body that hands it the receiver"""
        sig = self.fb.fns.get(b.id) or {}
        adt = (sig.get("impl_self") or "").split("<")[0].lstrip("&").strip()
        # a private generic helper that only turns a receiver it is given into a stream
        # (`fn receiver_stream<T>(mut rx: Receiver<T>) -> impl Stream { stream::poll_fn(move |cx| rx.poll_recv(cx)) }`), called
        # with different receivers: one receive site per call of the helper
        root = self.fb.bodies.get(b.root)
        rsig = self.fb.fns.get(b.root) or {}
        if b.kind == "closure" and root is not None and root.kind == "fn" and root.id != b.id and not rsig.get("public") and \
                re.search(r"\bStream\b", (rsig.get("output") or {}).get("s") or ""):
            ps = [x for x in self.flow.sources_operand(b, t["args"][0], (), "prov@" + root.id)]
            pidx = [x[2] for x in ps if x.kind == "param" and x[1] == root.id and not x[3]]
            sites = [(c2, b2, t2) for (c2, b2, t2) in self.flow.call_sites().get(root.id, []) if not self.fb.is_test_body(c2)]
            if len(pidx) == 1 and len(ps) == 1 and len(sites) >= 2 and len(list(root.calls())) <= 3:
                out = []
                for (c2, b2, t2) in sites:
                    if pidx[0] - 1 < len(t2["args"]):
                        roles, other = self.receiver_role(c2, t2["args"][pidx[0] - 1])
                        out.append({"body": c2, "bb": b2, "t": {"args": [t2["args"][pidx[0] - 1]], "dest": t2["dest"]}, "roles": roles,
                                    "other": other, "fn": p, "lifted": True})
                return out
        if not adt or self.flow.local_stream_impl(adt) is not b:
            return []
        fields = set()
        for x in self.flow.sources_operand(b, t["args"][0], (), "prov@" + b.id):
            if x.kind == "param" and x[1] == b.id and x[2] == 1 and x[3] and isinstance(x[3][0], int):
                fields.add(x[3][0])
        if len(fields) != 1:
            return []
        f = list(fields)[0]
        out = []
        for cb in self.fb.prod_bodies():
            for cbb, si, st in cb.stmts():
                if not (st["k"] == "assign" and st["rv"]["k"] == "agg" and st["rv"].get("def") == adt and f < len(st["rv"]["ops"])):
                    continue
                op = st["rv"]["ops"][f]
                psrc = self.flow.sources_operand(cb, op, (), "prov@" + cb.id) if cb.kind == "fn" else frozenset()
                pidx = [x[2] for x in psrc if x.kind == "param" and x[1] == cb.id and not x[3]]
                sites = [(c2, b2, t2) for (c2, b2, t2) in self.flow.call_sites().get(cb.id, []) if not self.fb.is_test_body(c2)]
                if cb.kind == "fn" and len(pidx) == 1 and len(psrc) == 1 and sites:
                    for (c2, b2, t2) in sites:
                        if pidx[0] - 1 < len(t2["args"]):
                            roles, other = self.receiver_role(c2, t2["args"][pidx[0] - 1])
                            out.append({"body": c2, "bb": b2, "t": {"args": [t2["args"][pidx[0] - 1]], "dest": t2["dest"]}, "roles": roles,
                                        "other": other, "fn": p, "lifted": True})
                else:
                    roles, other = self.receiver_role(cb, op)
                    out.append({"body": cb, "bb": cbb, "t": {"args": [op], "dest": st["pl"]}, "roles": roles, "other": other, "fn": p, "lifted": True})
        return out

    # -- user callbacks -------------------------------------------------------
    def param_calls(self, body):
        return [(bb, t, is_param_call(t)) for bb, t in body.calls()
                if is_param_call(t) and self.flow.internal_callback(body, is_param_call(t)) is None]

    def per_item_bodies(self, entry_id):
        """Bodies reachable from the entry that invoke a user callback."""
        return [b for b in self.reach_bodies(entry_id) if self.param_calls(b)]

    # -- families ------------------------------------------------------------
    def family(self, entry):
        """Classifies a public entry point by its signature (not by the adaptor
        it happens to use internally, so fold -> loop refactorings keep the family):
        stream | fold | try_fold | for_each | try_for_each."""
        out = entry["output"]["s"]
        has_limit = any("Into<" in i["s"] and "Option<usize>" in i["s"] for i in entry["inputs"])
        if "Stream<Item" in out:
            return "stream"
        if "ControlFlow<" in out:
            return "try_for_each"
        if has_limit:
            return "try_for_each" if "Result<" in out else "for_each"
        return "try_fold" if "Result<" in out else "fold"

    def where(self, body, bb=None, si=None):
        return "%s (%s)" % (body.loc(bb, si), short(body.id))


def short(id_):
    return id_.replace("fn_graph::FnGraph::<F>::", "FnGraph::").replace("fn_graph::", "")
