//! mirfacts — MIR fact extractor for the static verification of fn_graph.
//!
//! Used as `RUSTC_WORKSPACE_WRAPPER` under `cargo +nightly check`. For the
//! crate named by `MIRFACTS_CRATE` (default `fn_graph`) it dumps, after macro
//! expansion and before the MIR is stolen by later passes, one JSON file with
//! every body's `mir_built` CFG (resolved callees, places, constants, spans)
//! and crate-level facts (ADTs, impls, signatures, statics, unsafe blocks,
//! interior-mutability type walk). Nothing is executed.
#![feature(rustc_private)]
#![allow(clippy::all)]

extern crate rustc_abi;
extern crate rustc_driver;
extern crate rustc_hir;
extern crate rustc_interface;
extern crate rustc_middle;
extern crate rustc_span;

mod json;

use json::J;
use rustc_driver::Compilation;
use rustc_hir::def::DefKind;
use rustc_hir::def_id::{DefId, LocalDefId, LOCAL_CRATE};
use rustc_middle::mir::{
    self, AggregateKind, BasicBlockData, Body, Const, Operand, Place, ProjectionElem, Rvalue,
    StatementKind, TerminatorKind, UnwindAction,
};
use rustc_middle::ty::print::with_no_trimmed_paths;
use rustc_middle::ty::{self, GenericArgsRef, Instance, Ty, TyCtxt, TypingEnv};
use rustc_span::Span;
use std::collections::{BTreeMap, BTreeSet};

struct Cb {
    target_crate: String,
    out_dir: String,
    nonce: String,
}

impl rustc_driver::Callbacks for Cb {
    fn after_expansion<'tcx>(
        &mut self,
        _c: &rustc_interface::interface::Compiler,
        tcx: TyCtxt<'tcx>,
    ) -> Compilation {
        let name = tcx.crate_name(LOCAL_CRATE).to_string();
        if name != self.target_crate {
            return Compilation::Continue;
        }
        let j = with_no_trimmed_paths!(dump_crate(tcx, &name, &self.nonce));
        let mut s = String::new();
        j.write(&mut s);
        let path = format!("{}/{}-{}.json", self.out_dir, name, self.nonce);
        std::fs::write(&path, s).expect("mirfacts: cannot write fact file");
        Compilation::Continue
    }
}

fn main() {
    let mut args: Vec<String> = std::env::args().collect();
    // As RUSTC_WORKSPACE_WRAPPER we are called as `<drv> <rustc> <args..>`.
    if args.len() > 1 && (args[1].ends_with("rustc") || args[1].contains("/rustc")) {
        args.remove(1);
    }
    let mut cb = Cb {
        target_crate: std::env::var("MIRFACTS_CRATE").unwrap_or_else(|_| "fn_graph".into()),
        out_dir: std::env::var("MIRFACTS_OUT").unwrap_or_else(|_| ".".into()),
        nonce: std::env::var("MIRFACTS_NONCE").unwrap_or_else(|_| "0".into()),
    };
    rustc_driver::run_compiler(&args, &mut cb);
}

// ---------------------------------------------------------------------------

fn span_j(tcx: TyCtxt<'_>, sp: Span) -> J {
    let sm = tcx.sess.source_map();
    let mut o = J::obj();
    // Use the outermost call site for macro-expanded spans so the location
    // always points into the analysed crate's own source.
    let root = sp.source_callsite();
    let lo = sm.lookup_char_pos(root.lo());
    let file = match &lo.file.name {
        rustc_span::FileName::Real(r) => r
            .local_path()
            .map(|p| p.display().to_string())
            .unwrap_or_else(|| format!("{:?}", lo.file.name)),
        other => format!("{:?}", other),
    };
    o.set("file", J::s(&file));
    o.set("line", J::n(lo.line as i64));
    o.set("col", J::n(lo.col.0 as i64 + 1));
    let hi = sm.lookup_char_pos(root.hi());
    o.set("eline", J::n(hi.line as i64));
    if sp.from_expansion() {
        o.set("exp", J::b(true));
        if let Some(k) = sp.desugaring_kind() {
            o.set("desugar", J::s(&format!("{:?}", k)));
        } else {
            let ed = sp.ctxt().outer_expn_data();
            o.set("macro", J::s(&format!("{:?}", ed.kind)));
        }
    }
    o
}

fn ty_s(ty: Ty<'_>) -> String {
    format!("{}", ty)
}

/// Structured summary of a type: its string, top-level kind, and the set of
/// definition paths / type parameters mentioned anywhere inside it.
fn ty_j<'tcx>(tcx: TyCtxt<'tcx>, ty: Ty<'tcx>) -> J {
    let mut o = J::obj();
    o.set("s", J::s(&ty_s(ty)));
    let mut peeled = ty;
    let mut refs = 0;
    loop {
        match peeled.kind() {
            ty::Ref(_, inner, _) => {
                peeled = *inner;
                refs += 1;
            }
            _ => break,
        }
    }
    o.set("refs", J::n(refs));
    let (k, d) = kind_of(tcx, peeled);
    o.set("k", J::s(k));
    if let Some(d) = d {
        o.set("def", J::s(&d));
    }
    let mut defs = BTreeSet::new();
    for ga in ty.walk() {
        if let Some(t) = ga.as_type() {
            match t.kind() {
                ty::Adt(a, _) => {
                    defs.insert(tcx.def_path_str(a.did()));
                }
                ty::Closure(d, _) | ty::Coroutine(d, _) | ty::CoroutineClosure(d, _) | ty::FnDef(d, _) => {
                    defs.insert(tcx.def_path_str(*d));
                }
                ty::Param(p) => {
                    defs.insert(format!("param:{}", p.name));
                }
                ty::Alias(a) => {
                    defs.insert(format!("alias:{:?}", a.kind));
                }
                _ => {}
            }
        }
    }
    o.set("defs", J::arr(defs.iter().map(|d| J::s(d)).collect()));
    o
}

fn kind_of<'tcx>(tcx: TyCtxt<'tcx>, ty: Ty<'tcx>) -> (&'static str, Option<String>) {
    match ty.kind() {
        ty::Adt(a, _) => ("adt", Some(tcx.def_path_str(a.did()))),
        ty::Closure(d, _) => ("closure", Some(tcx.def_path_str(*d))),
        ty::Coroutine(d, _) => ("coroutine", Some(tcx.def_path_str(*d))),
        ty::CoroutineClosure(d, _) => ("coroutine_closure", Some(tcx.def_path_str(*d))),
        ty::FnDef(d, _) => ("fndef", Some(tcx.def_path_str(*d))),
        ty::Param(p) => ("param", Some(p.name.to_string())),
        ty::Alias(a) => ("alias", Some(format!("{:?}", a.kind))),
        ty::Tuple(_) => ("tuple", None),
        ty::Slice(_) => ("slice", None),
        ty::Array(..) => ("array", None),
        ty::RawPtr(..) => ("rawptr", None),
        ty::Bool => ("bool", None),
        ty::Int(_) | ty::Uint(_) => ("int", None),
        ty::FnPtr(..) => ("fnptr", None),
        ty::Dynamic(..) => ("dyn", None),
        ty::Never => ("never", None),
        _ => ("other", None),
    }
}

fn place_j<'tcx>(tcx: TyCtxt<'tcx>, body: &Body<'tcx>, p: &Place<'tcx>) -> J {
    let mut o = J::obj();
    o.set("l", J::n(p.local.as_usize() as i64));
    let mut pr = Vec::new();
    for (i, e) in p.projection.iter().enumerate() {
        let _ = i;
        pr.push(match e {
            ProjectionElem::Deref => J::s("*"),
            ProjectionElem::Field(f, t) => {
                let mut fo = J::obj();
                fo.set("f", J::n(f.as_usize() as i64));
                fo.set("ty", J::s(&ty_s(t)));
                fo
            }
            ProjectionElem::Index(l) => {
                let mut fo = J::obj();
                fo.set("i", J::n(l.as_usize() as i64));
                fo
            }
            ProjectionElem::Downcast(name, v) => {
                let mut fo = J::obj();
                fo.set("d", J::n(v.as_usize() as i64));
                if let Some(n) = name {
                    fo.set("name", J::s(n.as_str()));
                }
                fo
            }
            ProjectionElem::ConstantIndex { offset, from_end, .. } => {
                let mut fo = J::obj();
                fo.set("ci", J::n(offset as i64));
                fo.set("from_end", J::b(from_end));
                fo
            }
            ProjectionElem::Subslice { from, to, from_end } => {
                let mut fo = J::obj();
                fo.set("sub", J::arr(vec![J::n(from as i64), J::n(to as i64), J::b(from_end)]));
                fo
            }
            ProjectionElem::OpaqueCast(_) => J::s("opaque"),
            ProjectionElem::UnwrapUnsafeBinder(_) => J::s("unbinder"),
        });
    }
    o.set("p", J::arr(pr));
    // Type of the whole place (useful for role detection).
    let pty = p.ty(&body.local_decls, tcx).ty;
    o.set("ty", J::s(&ty_s(pty)));
    o
}

fn const_j<'tcx>(tcx: TyCtxt<'tcx>, env: TypingEnv<'tcx>, c: &mir::ConstOperand<'tcx>) -> J {
    let mut o = J::obj();
    o.set("k", J::s("const"));
    let ty = c.const_.ty();
    o.set("ty", J::s(&ty_s(ty)));
    o.set("val", J::s(&format!("{}", c.const_)));
    if let ty::FnDef(d, args) = ty.kind() {
        o.set("fn", callee_j(tcx, env, *d, args));
    }
    match ty.kind() {
        ty::Bool | ty::Int(_) | ty::Uint(_) | ty::Char => {
            if let Some(si) = c.const_.try_eval_scalar_int(tcx, env) {
                let size = si.size();
                let bits = si.to_bits(size);
                o.set("bits", J::s(&format!("{}", bits)));
            }
        }
        _ => {}
    }
    if let Const::Unevaluated(u, _) = c.const_ {
        o.set("uneval", J::s(&tcx.def_path_str(u.def)));
    }
    o
}

fn operand_j<'tcx>(tcx: TyCtxt<'tcx>, env: TypingEnv<'tcx>, body: &Body<'tcx>, op: &Operand<'tcx>) -> J {
    match op {
        Operand::Copy(p) => {
            let mut o = J::obj();
            o.set("k", J::s("copy"));
            o.set("pl", place_j(tcx, body, p));
            o
        }
        Operand::Move(p) => {
            let mut o = J::obj();
            o.set("k", J::s("move"));
            o.set("pl", place_j(tcx, body, p));
            o
        }
        Operand::Constant(c) => const_j(tcx, env, c),
        #[allow(unreachable_patterns)]
        _ => {
            let mut o = J::obj();
            o.set("k", J::s("other"));
            o.set("dbg", J::s(&format!("{:?}", op)));
            o
        }
    }
}

fn callee_j<'tcx>(tcx: TyCtxt<'tcx>, env: TypingEnv<'tcx>, did: DefId, args: GenericArgsRef<'tcx>) -> J {
    let mut o = J::obj();
    o.set("path", J::s(&tcx.def_path_str(did)));
    o.set("full", J::s(&tcx.def_path_str_with_args(did, args)));
    o.set("local", J::b(did.is_local()));
    o.set("krate", J::s(tcx.crate_name(did.krate).as_str()));
    o.set("name", J::s(tcx.item_name(did).as_str()));
    let mut ga = Vec::new();
    for a in args.iter() {
        if let Some(t) = a.as_type() {
            ga.push(ty_j(tcx, t));
        } else if a.as_region().is_none() {
            let mut c = J::obj();
            c.set("s", J::s(&format!("{}", a)));
            c.set("k", J::s("constarg"));
            ga.push(c);
        }
    }
    o.set("targs", J::arr(ga));
    if let Some(tr) = tcx.trait_of_assoc(did) {
        o.set("trait", J::s(&tcx.def_path_str(tr)));
        if args.len() > 0 {
            if let Some(st) = args[0].as_type() {
                o.set("self_ty", ty_j(tcx, st));
            }
        }
    } else if let Some(ai) = tcx.opt_associated_item(did) {
        // inherent method: record the impl's self type
        let imp = ai.container_id(tcx);
        if matches!(tcx.def_kind(imp), DefKind::Impl { .. }) {
            let st = tcx.type_of(imp).instantiate_identity().skip_norm_wip();
            o.set("impl_self", J::s(&ty_s(st)));
        }
    }
    // Resolve through the trait system where possible.
    let res = std::panic::catch_unwind(std::panic::AssertUnwindSafe(|| Instance::try_resolve(tcx, env, did, args)));
    match res {
        Ok(Ok(Some(inst))) => {
            let rd = inst.def_id();
            let mut r = J::obj();
            r.set("path", J::s(&tcx.def_path_str(rd)));
            r.set("local", J::b(rd.is_local()));
            r.set("kind", J::s(instance_kind(&inst)));
            if let ty::InstanceKind::Item(_) = inst.def {
                r.set("full", J::s(&tcx.def_path_str_with_args(rd, inst.args)));
            }
            o.set("resolved", r);
        }
        Ok(Ok(None)) => {
            o.set("resolved", J::Null);
        }
        _ => {
            o.set("resolved", J::s("error"));
        }
    }
    o
}

fn instance_kind(i: &Instance<'_>) -> &'static str {
    match i.def {
        ty::InstanceKind::Item(_) => "item",
        ty::InstanceKind::Intrinsic(_) => "intrinsic",
        ty::InstanceKind::Virtual(..) => "virtual",
        ty::InstanceKind::FnPtrShim(..) => "fnptrshim",
        ty::InstanceKind::ClosureOnceShim { .. } => "closure_once_shim",
        ty::InstanceKind::CloneShim(..) => "clone_shim",
        ty::InstanceKind::DropGlue(..) => "drop_glue",
        _ => "other",
    }
}

fn rvalue_j<'tcx>(tcx: TyCtxt<'tcx>, env: TypingEnv<'tcx>, body: &Body<'tcx>, rv: &Rvalue<'tcx>) -> J {
    let mut o = J::obj();
    match rv {
        Rvalue::Use(op, ..) => {
            o.set("k", J::s("use"));
            o.set("op", operand_j(tcx, env, body, op));
        }
        Rvalue::Repeat(op, n) => {
            o.set("k", J::s("repeat"));
            o.set("op", operand_j(tcx, env, body, op));
            o.set("n", J::s(&format!("{}", n)));
        }
        Rvalue::Ref(_, bk, p) => {
            o.set("k", J::s("ref"));
            o.set(
                "bk",
                J::s(match bk {
                    mir::BorrowKind::Shared => "shared",
                    mir::BorrowKind::Fake(_) => "fake",
                    mir::BorrowKind::Mut { .. } => "mut",
                }),
            );
            o.set("pl", place_j(tcx, body, p));
        }
        Rvalue::RawPtr(k, p) => {
            o.set("k", J::s("rawptr"));
            o.set("bk", J::s(&format!("{:?}", k)));
            o.set("pl", place_j(tcx, body, p));
        }
        Rvalue::Cast(ck, op, ty) => {
            o.set("k", J::s("cast"));
            o.set("ck", J::s(&format!("{:?}", ck)));
            o.set("op", operand_j(tcx, env, body, op));
            o.set("ty", J::s(&ty_s(*ty)));
        }
        Rvalue::BinaryOp(bop, ab) => {
            o.set("k", J::s("binop"));
            o.set("op", J::s(&format!("{:?}", bop)));
            o.set("a", operand_j(tcx, env, body, &ab.0));
            o.set("b", operand_j(tcx, env, body, &ab.1));
        }
        Rvalue::UnaryOp(uop, a) => {
            o.set("k", J::s("unop"));
            o.set("op", J::s(&format!("{:?}", uop)));
            o.set("a", operand_j(tcx, env, body, a));
        }
        Rvalue::Discriminant(p) => {
            o.set("k", J::s("discr"));
            o.set("pl", place_j(tcx, body, p));
        }
        Rvalue::Aggregate(kind, ops) => {
            o.set("k", J::s("agg"));
            match &**kind {
                AggregateKind::Array(_) => o.set("ak", J::s("array")),
                AggregateKind::Tuple => o.set("ak", J::s("tuple")),
                AggregateKind::Adt(did, vidx, _, _, _) => {
                    o.set("ak", J::s("adt"));
                    o.set("def", J::s(&tcx.def_path_str(*did)));
                    let adt = tcx.adt_def(*did);
                    let v = adt.variant(*vidx);
                    o.set("variant", J::s(v.name.as_str()));
                    o.set("vidx", J::n(vidx.as_usize() as i64));
                    o.set(
                        "fields",
                        J::arr(v.fields.iter().map(|f| J::s(f.name.as_str())).collect()),
                    );
                }
                AggregateKind::Closure(did, _) => {
                    o.set("ak", J::s("closure"));
                    o.set("def", J::s(&tcx.def_path_str(*did)));
                }
                AggregateKind::Coroutine(did, _) => {
                    o.set("ak", J::s("coroutine"));
                    o.set("def", J::s(&tcx.def_path_str(*did)));
                }
                AggregateKind::CoroutineClosure(did, _) => {
                    o.set("ak", J::s("coroutine_closure"));
                    o.set("def", J::s(&tcx.def_path_str(*did)));
                }
                AggregateKind::RawPtr(..) => o.set("ak", J::s("rawptr")),
            }
            o.set(
                "ops",
                J::arr(ops.iter().map(|op| operand_j(tcx, env, body, op)).collect()),
            );
        }
        Rvalue::CopyForDeref(p) => {
            o.set("k", J::s("copy_for_deref"));
            o.set("pl", place_j(tcx, body, p));
        }
        Rvalue::ThreadLocalRef(d) => {
            o.set("k", J::s("thread_local_ref"));
            o.set("def", J::s(&tcx.def_path_str(*d)));
        }
        _ => {
            o.set("k", J::s("other"));
            o.set("dbg", J::s(&format!("{:?}", rv)));
        }
    }
    o
}

fn unwind_j(u: &UnwindAction) -> J {
    match u {
        UnwindAction::Cleanup(bb) => J::n(bb.as_usize() as i64),
        _ => J::Null,
    }
}

fn block_j<'tcx>(tcx: TyCtxt<'tcx>, env: TypingEnv<'tcx>, body: &Body<'tcx>, bbd: &BasicBlockData<'tcx>) -> J {
    let mut o = J::obj();
    if bbd.is_cleanup {
        o.set("cleanup", J::b(true));
    }
    let mut stmts = Vec::new();
    for st in &bbd.statements {
        let mut so = J::obj();
        match &st.kind {
            StatementKind::Assign(b) => {
                so.set("k", J::s("assign"));
                so.set("pl", place_j(tcx, body, &b.0));
                so.set("rv", rvalue_j(tcx, env, body, &b.1));
            }
            StatementKind::SetDiscriminant { place, variant_index } => {
                so.set("k", J::s("set_discr"));
                so.set("pl", place_j(tcx, body, place));
                so.set("v", J::n(variant_index.as_usize() as i64));
            }
            StatementKind::StorageLive(_)
            | StatementKind::StorageDead(_)
            | StatementKind::FakeRead(_)
            | StatementKind::PlaceMention(_)
            | StatementKind::AscribeUserType(..)
            | StatementKind::Coverage(_)
            | StatementKind::ConstEvalCounter
            | StatementKind::Nop
            | StatementKind::BackwardIncompatibleDropHint { .. } => continue,
            StatementKind::Intrinsic(i) => {
                so.set("k", J::s("intrinsic"));
                so.set("dbg", J::s(&format!("{:?}", i)));
            }
        }
        so.set("sp", span_j(tcx, st.source_info.span));
        stmts.push(so);
    }
    o.set("stmts", J::arr(stmts));
    let term = bbd.terminator();
    let mut t = J::obj();
    match &term.kind {
        TerminatorKind::Goto { target } => {
            t.set("k", J::s("goto"));
            t.set("target", J::n(target.as_usize() as i64));
        }
        TerminatorKind::SwitchInt { discr, targets } => {
            t.set("k", J::s("switch"));
            t.set("discr", operand_j(tcx, env, body, discr));
            let mut tv = Vec::new();
            for (v, bb) in targets.iter() {
                tv.push(J::arr(vec![J::s(&format!("{}", v)), J::n(bb.as_usize() as i64)]));
            }
            t.set("targets", J::arr(tv));
            t.set("otherwise", J::n(targets.otherwise().as_usize() as i64));
        }
        TerminatorKind::UnwindResume => t.set("k", J::s("unwind_resume")),
        TerminatorKind::UnwindTerminate(_) => t.set("k", J::s("unwind_terminate")),
        TerminatorKind::Return => t.set("k", J::s("return")),
        TerminatorKind::Unreachable => t.set("k", J::s("unreachable")),
        TerminatorKind::Drop { place, target, unwind, .. } => {
            t.set("k", J::s("drop"));
            t.set("pl", place_j(tcx, body, place));
            t.set("target", J::n(target.as_usize() as i64));
            t.set("unwind", unwind_j(unwind));
        }
        TerminatorKind::Call { func, args, destination, target, unwind, fn_span, .. } => {
            t.set("k", J::s("call"));
            if let Some((d, a)) = func.const_fn_def() {
                t.set("callee", callee_j(tcx, env, d, a));
            } else {
                t.set("func", operand_j(tcx, env, body, func));
                // call through a value: record its type (closure / fn pointer / param)
                let fty = func.ty(&body.local_decls, tcx);
                t.set("callee_ty", ty_j(tcx, fty));
            }
            t.set(
                "args",
                J::arr(args.iter().map(|a| operand_j(tcx, env, body, &a.node)).collect()),
            );
            t.set("dest", place_j(tcx, body, destination));
            t.set(
                "target",
                match target {
                    Some(b) => J::n(b.as_usize() as i64),
                    None => J::Null,
                },
            );
            t.set("unwind", unwind_j(unwind));
            t.set("fn_sp", span_j(tcx, *fn_span));
        }
        TerminatorKind::TailCall { .. } => t.set("k", J::s("tailcall")),
        TerminatorKind::Assert { cond, expected, msg, target, unwind } => {
            t.set("k", J::s("assert"));
            t.set("cond", operand_j(tcx, env, body, cond));
            t.set("expected", J::b(*expected));
            let kind = match &**msg {
                mir::AssertKind::BoundsCheck { .. } => "bounds",
                mir::AssertKind::Overflow(..) => "overflow",
                mir::AssertKind::OverflowNeg(..) => "overflow_neg",
                mir::AssertKind::DivisionByZero(..) => "div_zero",
                mir::AssertKind::RemainderByZero(..) => "rem_zero",
                mir::AssertKind::ResumedAfterReturn(..) => "resumed_after_return",
                mir::AssertKind::ResumedAfterPanic(..) => "resumed_after_panic",
                _ => "other",
            };
            t.set("msg", J::s(kind));
            t.set("target", J::n(target.as_usize() as i64));
            t.set("unwind", unwind_j(unwind));
        }
        TerminatorKind::Yield { value, resume, resume_arg, drop } => {
            t.set("k", J::s("yield"));
            t.set("value", operand_j(tcx, env, body, value));
            t.set("resume", J::n(resume.as_usize() as i64));
            t.set("resume_arg", place_j(tcx, body, resume_arg));
            t.set(
                "drop",
                match drop {
                    Some(b) => J::n(b.as_usize() as i64),
                    None => J::Null,
                },
            );
        }
        TerminatorKind::CoroutineDrop => t.set("k", J::s("coroutine_drop")),
        TerminatorKind::FalseEdge { real_target, imaginary_target } => {
            t.set("k", J::s("false_edge"));
            t.set("target", J::n(real_target.as_usize() as i64));
            t.set("imaginary", J::n(imaginary_target.as_usize() as i64));
        }
        TerminatorKind::FalseUnwind { real_target, unwind } => {
            t.set("k", J::s("false_unwind"));
            t.set("target", J::n(real_target.as_usize() as i64));
            t.set("unwind", unwind_j(unwind));
        }
        TerminatorKind::InlineAsm { .. } => t.set("k", J::s("inline_asm")),
    }
    t.set("sp", span_j(tcx, term.source_info.span));
    o.set("term", t);
    o
}

fn body_j<'tcx>(tcx: TyCtxt<'tcx>, ldid: LocalDefId, body: &Body<'tcx>) -> Option<J> {
    let did = ldid.to_def_id();
    let dk = tcx.def_kind(did);
    let env = TypingEnv::post_analysis(tcx, did);
    let mut o = J::obj();
    o.set("id", J::s(&tcx.def_path_str(did)));
    o.set("def_kind", J::s(&format!("{:?}", dk)));
    let kind = if tcx.is_closure_like(did) {
        match tcx.coroutine_kind(did) {
            Some(ck) => {
                o.set("coroutine_kind", J::s(&format!("{:?}", ck)));
                "coroutine"
            }
            None => "closure",
        }
    } else {
        match dk {
            DefKind::Fn | DefKind::AssocFn => "fn",
            _ => "other",
        }
    };
    o.set("kind", J::s(kind));
    // parent body owner (immediate): for closures/coroutines.
    if tcx.is_closure_like(did) || matches!(dk, DefKind::InlineConst | DefKind::AnonConst) {
        let p = tcx.local_parent(ldid);
        o.set("parent", J::s(&tcx.def_path_str(p.to_def_id())));
        o.set("root", J::s(&tcx.def_path_str(tcx.typeck_root_def_id(did))));
    }
    o.set("sp", span_j(tcx, body.span));
    o.set("arg_count", J::n(body.arg_count as i64));
    let mut locals = Vec::new();
    for (_l, d) in body.local_decls.iter_enumerated() {
        let mut lo = ty_j(tcx, d.ty);
        lo.set("mut", J::b(d.mutability.is_mut()));
        lo.set("user", J::b(d.is_user_variable()));
        locals.push(lo);
    }
    o.set("locals", J::arr(locals));
    let mut dbg = Vec::new();
    for v in &body.var_debug_info {
        let mut vo = J::obj();
        vo.set("name", J::s(v.name.as_str()));
        match &v.value {
            mir::VarDebugInfoContents::Place(p) => vo.set("pl", place_j(tcx, body, p)),
            mir::VarDebugInfoContents::Const(c) => vo.set("const", J::s(&format!("{}", c.const_))),
        }
        if let Some(a) = v.argument_index {
            vo.set("arg", J::n(a as i64));
        }
        dbg.push(vo);
    }
    o.set("debug", J::arr(dbg));
    if tcx.is_closure_like(did) {
        let caps = tcx.closure_captures(ldid);
        let mut cv = Vec::new();
        for c in caps {
            let mut co = J::obj();
            co.set("name", J::s(&c.to_string(tcx)));
            co.set("var", J::s(tcx.hir_name(c.get_root_variable()).as_str()));
            co.set("by", J::s(&format!("{:?}", c.info.capture_kind)));
            co.set("ty", J::s(&ty_s(c.place.ty())));
            cv.push(co);
        }
        o.set("captures", J::arr(cv));
    }
    let mut blocks = Vec::new();
    for (_bb, bbd) in body.basic_blocks.iter_enumerated() {
        blocks.push(block_j(tcx, env, body, bbd));
    }
    o.set("blocks", J::arr(blocks));
    Some(o)
}

// ---------------------------------------------------------------------------
// Crate-level facts

fn sig_j<'tcx>(tcx: TyCtxt<'tcx>, ldid: LocalDefId) -> J {
    let did = ldid.to_def_id();
    let mut o = J::obj();
    o.set("id", J::s(&tcx.def_path_str(did)));
    o.set("name", J::s(tcx.item_name(did).as_str()));
    o.set("vis", J::s(&format!("{:?}", tcx.visibility(did))));
    o.set("public", J::b(tcx.visibility(did).is_public()));
    o.set("async", J::b(tcx.asyncness(did).is_async()));
    let sig = tcx.fn_sig(did).instantiate_identity().skip_norm_wip().skip_binder();
    o.set("inputs", J::arr(sig.inputs().iter().map(|t| ty_j(tcx, *t)).collect()));
    o.set("output", ty_j(tcx, sig.output()));
    o.set("safety", J::s(&format!("{:?}", sig.safety())));
    let gens = tcx.generics_of(did);
    let mut gp = Vec::new();
    let mut g = Some(gens);
    while let Some(gg) = g {
        for p in &gg.own_params {
            gp.push(J::s(p.name.as_str()));
        }
        g = gg.parent.map(|p| tcx.generics_of(p));
    }
    o.set("generics", J::arr(gp));
    let preds = tcx.predicates_of(did).instantiate_identity(tcx);
    o.set(
        "preds",
        J::arr(preds.predicates.iter().map(|p| J::s(&format!("{}", p.skip_norm_wip()))).collect()),
    );
    if let Some(ai) = tcx.opt_associated_item(did) {
        let c = ai.container_id(tcx);
        o.set("container", J::s(&tcx.def_path_str(c)));
        if matches!(tcx.def_kind(c), DefKind::Impl { .. }) {
            o.set("impl_self", J::s(&ty_s(tcx.type_of(c).instantiate_identity().skip_norm_wip())));
            if let Some(tr) = tcx.impl_opt_trait_ref(c) {
                o.set("impl_trait", J::s(&tcx.def_path_str(tr.skip_binder().def_id)));
            }
        }
    }
    o.set("sp", span_j(tcx, tcx.def_span(did)));
    o
}

/// Interior-mutability walk: every path from `ty` to an `UnsafeCell`,
/// through ADT fields, generic arguments, pointees; stops at type parameters.
fn cell_paths<'tcx>(
    tcx: TyCtxt<'tcx>,
    env: TypingEnv<'tcx>,
    ty: Ty<'tcx>,
    path: &mut Vec<String>,
    seen: &mut BTreeSet<String>,
    out: &mut Vec<String>,
    visited: &mut usize,
) {
    // resolve associated-type projections (e.g. `<Graph<..> as Visitable>::Map`)
    let ty = tcx
        .try_normalize_erasing_regions(env, rustc_middle::ty::Unnormalized::new_wip(ty))
        .unwrap_or(ty);
    let key = ty_s(ty);
    if !seen.insert(key.clone()) {
        return;
    }
    *visited += 1;
    match ty.kind() {
        ty::Adt(adt, args) => {
            if adt.is_unsafe_cell() {
                out.push(format!("{} -> {}", path.join(" -> "), key));
                return;
            }
            for v in adt.variants() {
                for f in &v.fields {
                    let fty = f.ty(tcx, args);
                    path.push(format!("{}.{}", tcx.def_path_str(adt.did()), f.name));
                    cell_paths(tcx, env, fty, path, seen, out, visited);
                    path.pop();
                }
            }
            for a in args.iter() {
                if let Some(t) = a.as_type() {
                    path.push(format!("{}<arg>", tcx.def_path_str(adt.did())));
                    cell_paths(tcx, env, t, path, seen, out, visited);
                    path.pop();
                }
            }
        }
        ty::Ref(_, t, _) | ty::RawPtr(t, _) | ty::Slice(t) | ty::Array(t, _) | ty::Pat(t, _) => {
            path.push("*".into());
            cell_paths(tcx, env, *t, path, seen, out, visited);
            path.pop();
        }
        ty::Tuple(ts) => {
            for t in ts.iter() {
                path.push("tuple".into());
                cell_paths(tcx, env, t, path, seen, out, visited);
                path.pop();
            }
        }
        ty::Param(_) => {}
        ty::Bool | ty::Int(_) | ty::Uint(_) | ty::Float(_) | ty::Char | ty::Str | ty::Never => {}
        ty::FnDef(..) | ty::FnPtr(..) => {}
        _ => {
            // Opaque / dyn / closure etc.: cannot see inside -> report as unknown.
            out.push(format!("{} -> <opaque:{}>", path.join(" -> "), key));
        }
    }
}

fn dump_crate<'tcx>(tcx: TyCtxt<'tcx>, name: &str, nonce: &str) -> J {
    let mut root = J::obj();
    root.set("crate", J::s(name));
    root.set("nonce", J::s(nonce));
    let mut feats = Vec::new();
    for (k, v) in tcx.sess.config.iter() {
        if k.as_str() == "feature" {
            if let Some(v) = v {
                feats.push(v.as_str().to_string());
            }
        }
    }
    feats.sort();
    root.set("features", J::arr(feats.iter().map(|f| J::s(f)).collect()));
    let is_test = tcx.sess.opts.test;
    root.set("test_harness", J::b(is_test));

    let mut bodies = Vec::new();
    let mut sigs = Vec::new();
    let owners: Vec<LocalDefId> = tcx.hir_body_owners().collect();
    // Clone every built body first: later queries (opaque type inference runs
    // borrowck) steal `mir_built`.
    let cloned: Vec<Body<'tcx>> = owners.iter().map(|l| tcx.mir_built(*l).borrow().clone()).collect();
    for (ldid, body) in owners.iter().zip(cloned.iter()) {
        let dk = tcx.def_kind(ldid.to_def_id());
        if matches!(dk, DefKind::Fn | DefKind::AssocFn) {
            sigs.push(sig_j(tcx, *ldid));
        }
        if let Some(b) = body_j(tcx, *ldid, body) {
            bodies.push(b);
        }
    }
    root.set("bodies", J::arr(bodies));
    root.set("fns", J::arr(sigs));

    // ADTs, impls, statics via crate items.
    let items = tcx.hir_crate_items(());
    let mut adts = Vec::new();
    let mut impls = Vec::new();
    let mut statics = Vec::new();
    let mut typewalk = Vec::new();
    for id in items.free_items() {
        let did = id.owner_id.to_def_id();
        match tcx.def_kind(did) {
            DefKind::Struct | DefKind::Enum | DefKind::Union => {
                let adt = tcx.adt_def(did);
                let mut a = J::obj();
                a.set("id", J::s(&tcx.def_path_str(did)));
                a.set("kind", J::s(&format!("{:?}", tcx.def_kind(did))));
                a.set("public", J::b(tcx.visibility(did).is_public()));
                let mut vs = Vec::new();
                for v in adt.variants() {
                    let mut vo = J::obj();
                    vo.set("name", J::s(v.name.as_str()));
                    let mut fs = Vec::new();
                    for f in &v.fields {
                        let mut fo = J::obj();
                        fo.set("name", J::s(f.name.as_str()));
                        fo.set("ty", ty_j(tcx, tcx.type_of(f.did).instantiate_identity().skip_norm_wip()));
                        fo.set("public", J::b(f.vis.is_public()));
                        fs.push(fo);
                    }
                    vo.set("fields", J::arr(fs));
                    vs.push(vo);
                }
                a.set("variants", J::arr(vs));
                a.set("sp", span_j(tcx, tcx.def_span(did)));
                adts.push(a);
                // type walk
                let ty = tcx.type_of(did).instantiate_identity().skip_norm_wip();
                let mut out = Vec::new();
                let mut visited = 0usize;
                cell_paths(tcx, TypingEnv::post_analysis(tcx, did), ty, &mut vec![], &mut BTreeSet::new(), &mut out, &mut visited);
                let mut w = J::obj();
                w.set("root", J::s(&ty_s(ty)));
                w.set("id", J::s(&tcx.def_path_str(did)));
                w.set("types_visited", J::n(visited as i64));
                w.set("cells", J::arr(out.iter().map(|s| J::s(s)).collect()));
                typewalk.push(w);
            }
            DefKind::Impl { .. } => {
                let mut i = J::obj();
                i.set("id", J::s(&tcx.def_path_str(did)));
                i.set("self_ty", J::s(&ty_s(tcx.type_of(did).instantiate_identity().skip_norm_wip())));
                if let Some(tr) = tcx.impl_opt_trait_ref(did) {
                    let tr = tr.skip_binder();
                    i.set("trait", J::s(&tcx.def_path_str(tr.def_id)));
                    i.set("trait_full", J::s(&format!("{}", tr)));
                    let hdr = tcx.impl_trait_header(did);
                    i.set("safety", J::s(&format!("{:?}", hdr.safety)));
                    i.set("polarity", J::s(&format!("{:?}", hdr.polarity)));
                }
                let mut its = Vec::new();
                for ai in tcx.associated_items(did).in_definition_order() {
                    // the synthetic associated types of an `async fn` / `-> impl Trait` trait method have no name
                    if ai.is_impl_trait_in_trait() {
                        continue;
                    }
                    its.push(J::s(ai.name().as_str()));
                }
                i.set("items", J::arr(its));
                let sp = tcx.def_span(did);
                i.set("sp", span_j(tcx, sp));
                i.set("derived", J::b(tcx.is_automatically_derived(did)));
                impls.push(i);
            }
            DefKind::Static { mutability, .. } => {
                let mut s = J::obj();
                s.set("id", J::s(&tcx.def_path_str(did)));
                s.set("mut", J::b(mutability.is_mut()));
                let ty = tcx.type_of(did).instantiate_identity().skip_norm_wip();
                s.set("ty", J::s(&ty_s(ty)));
                s.set("freeze", J::b(ty.is_freeze(tcx, TypingEnv::post_analysis(tcx, did))));
                s.set("thread_local", J::b(tcx.is_thread_local_static(did)));
                s.set("sp", span_j(tcx, tcx.def_span(did)));
                statics.push(s);
            }
            _ => {}
        }
    }
    root.set("adts", J::arr(adts));
    root.set("impls", J::arr(impls));
    root.set("statics", J::arr(statics));
    root.set("typewalk", J::arr(typewalk));

    // unsafe blocks (HIR)
    let mut unsafes = Vec::new();
    for ldid in &owners {
        let Some(body) = tcx.hir_maybe_body_owned_by(*ldid) else { continue };
        let mut v = UnsafeVisitor { tcx, out: Vec::new() };
        rustc_hir::intravisit::Visitor::visit_body(&mut v, body);
        for sp in v.out {
            let mut u = J::obj();
            u.set("in", J::s(&tcx.def_path_str(ldid.to_def_id())));
            u.set("sp", span_j(tcx, sp));
            u.set("exp", J::b(sp.from_expansion()));
            unsafes.push(u);
        }
    }
    root.set("unsafe_blocks", J::arr(unsafes));
    // count per kind for evidence
    let mut counts = BTreeMap::new();
    counts.insert("body_owners", owners.len());
    let mut c = J::obj();
    for (k, v) in counts {
        c.set(k, J::n(v as i64));
    }
    root.set("counts", c);
    root
}

struct UnsafeVisitor<'tcx> {
    #[allow(dead_code)]
    tcx: TyCtxt<'tcx>,
    out: Vec<Span>,
}

impl<'tcx> rustc_hir::intravisit::Visitor<'tcx> for UnsafeVisitor<'tcx> {
    fn visit_block(&mut self, b: &'tcx rustc_hir::Block<'tcx>) {
        if let rustc_hir::BlockCheckMode::UnsafeBlock(_) = b.rules {
            self.out.push(b.span);
        }
        rustc_hir::intravisit::walk_block(self, b);
    }
}
