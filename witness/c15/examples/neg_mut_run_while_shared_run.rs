// expect: E0502 cannot borrow `*g` as mutable because it is also borrowed as immutable
use fn_graph::FnGraph;
pub fn mut_run_while_shared_run<F>(g: &mut FnGraph<F>) {
    let a = g.for_each_concurrent(None::<usize>, |_f: &F| async {});
    let b = g.for_each_concurrent_mut(None::<usize>, |_f: &mut F| async {});
    drop((a, b));
}
fn main() {}
