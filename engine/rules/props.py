"""Property -> rules table (DESIGN.md section 5)."""
import rules_sched as S
import rules_term as T
import rules_build as B
import rules_run as R
import rules_state as ST

K01 = ("K0", "K1")
TRUST = [
    "rustc builds the MIR correctly; the fact extractor and rule engine are part of the trusted base",
    "contracts of dependencies are trusted, not analysed: tokio mpsc/RwLock, futures fold/try_fold/for_each_concurrent/join!, "
    "daggy/petgraph children/parents/Topo/update_edge/has_path_connecting, interruptible, serde",
    "the check decides the named code-shape premises (necessary conditions), not the behaviour over schedules/inputs; "
    "the induction from premises to the property is the paper argument in DESIGN.md section 4",
]

PROPS = {}


RULE_GLOSS = {
    "A1": "no protocol future is created and dropped / polled once and abandoned; async channel ops are not written in sync code",
    "A2": "no short-circuiting concurrent driver between a user-callback body and its entry point",
    "B1": "a StreamOpts builder method keeps the fields it does not set and stores the argument it is given",
    "B2": "the caller's stream order reaches the set-up; the fixed order of option-less entry points is Forward",
    "B3": "the has_path guard tests the inserted edge's own endpoints, so no user edge is overwritten",
    "C18.loops": "build() has no recursion, only collection-bounded loops and progress-guarded worklists, polynomial graph-library calls, no per-function list concatenation",
    "C18.ord": "Rank's ordering operators are the derived ones", "D1": "the scan list is all ids stably sorted by rank",
    "D1r": "Rank's ordering operators are the derived ones", "D2": "inner scan over list[position..] of the same sorted list, outer from the end, complete",
    "D3": "no nondeterministic source in build()", "D4": "FnGraph == compares counts, endpoints, weights and functions pairwise, monotonically, attribute by attribute",
    "D4e": "Edge == is the derived comparison", "E": "edge-adding builder methods are exactly update_edge with the right constant kind, batch forms insert per element and return the first error, and no `&mut self` builder method moves the graph out of the builder or replaces it",
    "F": "failure path: one error send, done-send only after the result is examined, release before done, drain after join",
    "G": "GraphInfo: nodes/edges copied in order, serde derives and tables agree with no hand-written hook, Topo-only iteration, == monotone and attribute-wise",
    "I": "interruptibility wiring: the caller's state and include flag reach the tracking function and interruptible_with unchanged",
    "I2": "Interrupted(x) maps to (x, true), NoInterrupt(x) to (Some(x), false)", "ID": "returned FnIds are the NodeIndex values add_node assigned, in order",
    "IM": "interrupt mapping table", "K": "rank calculation: zero init, root seeds, candidate = ranks[parent]+1 under a strict guard (or max), re-queue on raise, complete walks",
    "K7": "Rank's ordering operators are the derived ones", "L1": "limit flows unchanged into for_each_concurrent over the READY stream",
    "L2": "fold steps are sequential and return only after the user future's Ready arm", "L3": "limit influences nothing but that argument",
    "L4": "no shared lock/permit is taken ahead of a user future in a per-function body", "L5": "no re-acquisition of an async lock (write; or read under a read guard, which queues behind a waiting writer) while a guard of it is alive in the same future, directly or inside an awaited helper",
    "L6": "every invocation of the caller's function is under the one limited, interruption-gated for_each_concurrent",
    "N": "no state of a run is written into the graph: no interior mutability, unsafe, statics, field writes or &mut borrows outside build()",
    "N6": "no RNG, clock, thread, environment or hash-order dependence", "N7": "no blocking call (block_on, blocking_*, sleep, park)",
    "O": "StreamOutcome: processed ids pushed at dequeue, stored unchanged, complement in node order, state from the countdown",
    "O3b": "the countdown is decremented exactly once per handed-out item on every path", "O4": "control wrappers map Finished/no-break to Continue",
    "O5": "every outcome comes from StreamOutcome::new", "O6": "the user's function is called for every dequeued id",
    "O7": "map / replace / replace_with hand state and id lists on unchanged; accessors return their field", "P1": "panic-site inventory of build()", "P1a": "panic-site inventory of the builder's other public methods (an accepted function or edge cannot panic)", "P2": "no unwrap/expect on the holder of a protocol sender",
    "Q": "sequential APIs: Topo over the right structure, ids index self.graph unchanged, callback for every item, first error returned, iter_insertion over the node storage",
    "Q6": "FnGraph::clone copies field by field", "R1": "the conflict predicate compares exactly read x write, write x read, write x write of the two endpoints, existentially, as a disjunction",
    "R2": "only identity / has_path / seen-flag guards stand between pair enumeration and insertion; no per-element early exit",
    "R3": "augmentation runs on every path, before counts and structure copies, on the same graph; ranks before it", "R4": "both structure copies get every node and edge, unconditionally",
    "R5": "access tables of R/W agree with their meaning", "R6": "every unordered pair is enumerated once", "R7": "all-pairs comparison, scan on every path",
    "S1": "counts/structure pairing chain from build() to the set-up's selection", "S2": "sole ready-sends: preload of zero-count ids, release at count==0 after its decrement",
    "S3": "sole count writes: -=1 per child of every received completion", "S4": "done-send after the user future completed, on every path",
    "S5": "dequeued id = looked-up id = id sent on DONE", "S6": "channel capacities are >= 1 and >= node_count", "S6b": "id-indexed bit sets are sized by node_count",
    "S7": "released senders are the protocol's own, unwrapped", "T1": "every exit kind (EMPTY, FINISHED, INTERRUPTED, FAILED) releases the sender that ends the peer",
    "T2": "queuer and scheduler are joined", "T3": "a Pending return follows a Pending poll with the current waker", "T4": "every item of the interruptible ready stream reaches the scheduler",
    "T5": "no release of a protocol sender under a condition that is none of the exits", "T6": "countdowns step by exactly one",
    "U1": "stream end-of-stream bookkeeping", "U3": "a poll function never makes up Poll::Pending", "W1": "the only edge build() adds to the user's graph is update_edge(.., Edge::Data)",
    "W2": "no read x read or same-node comparison", "W3": "release guarded only by the count test and sender presence", "W4": "the limit reaching the driver is the caller's (None stays unbounded)",
}


def prop(pid, rules, cfgs_quick, explanation, technique, not_decided, cfgs_thorough=(), assumptions=None, level="other"):
    seen_ = []
    for r_ in rules:
        if r_[0] not in seen_:
            seen_.append(r_[0])
    explanation = explanation + " Rules registered for this property: " + "; ".join(
        "%s (%s)" % (n_, RULE_GLOSS.get(n_, "see DESIGN.md 11.2")) for n_ in seen_) + "."
    PROPS[pid] = {
        "rules": rules, "cfgs_quick": list(cfgs_quick), "cfgs_thorough": list(cfgs_thorough),
        "explanation": explanation, "technique": technique, "not_decided": not_decided,
        "assumptions": assumptions or TRUST, "level": level,
    }


prop("C02",
     [("S1", S.S1, K01, {}), ("S2", S.S2, K01, {}), ("S3", S.S3, K01, {}), ("S4", S.S4, K01, {}), ("S5", S.S5, K01, {}),
      ("L2", lambda ctx: __import__("rules_run").L2(ctx), K01, {}), ("L6", R.L6, K01, {}),
      ("B1", S.opts_frame, K01, {"fields": ("StreamOrder",)}), ("B2", S.order_wiring, K01, {}),
      ("R3", B.R3, ("K0",), {"parts": ("structures", "counts")}), ("E", B.C16_rules, ("K0",), {}), ("ID", B.ID_rules, ("K0",), {}), ("Q6", R.clone_frame, ("K0",), {}), ("W1", B.W1, ("K0",), {})],
     K01,
     "Decides the scheduler premises S1-S5 (and L2: each fold step returns its state only after the user future's Ready arm) on the MIR of every streaming path: counts/structure pairing chain "
     "(in-degree with forward structure, out-degree with reversed structure, build() orientation, StreamOpts::rev/default), "
     "sole ready-sends (preload of zero-count ids, release guarded by COUNTS[child]==0 after its decrement), sole count writes "
     "(-=1 once per child of the id received from DONE, no early exit), done-send dominated by the Ready arm of the user "
     "future's await, and id consistency (dequeued id = looked-up id = id sent on DONE); "
     "B1 (every StreamOpts builder method keeps the fields it does not set: `rev()` survives later option calls), R3 (edge counts and structure copies are taken after data-edge augmentation) "
     "and ID (the FnIds add_fn/add_fns hand back are the NodeIndex values add_node assigned, so declared edges land on the functions they were declared for).",
     "MIR dataflow: value-source (allocation-site) provenance + dominance/control-dependence over resolved callees",
     "the induction along a topological order (paper); correctness of futures' fold/for_each_concurrent/join! and tokio channels")

prop("C03",
     [("S1", S.S1, K01, {}), ("S2", S.S2, K01, {}), ("S3", S.S3, K01, {}), ("S5", S.S5, K01, {}),
      ("S6", S.S6, K01, {"roles_filter": ("READY", "DONE")}),
      ("R3", B.R3, ("K0",), {"parts": ("structures", "counts")}), ("R4", B.R4, ("K0",), {}), ("O6", R.O6, K01, {}), ("T5", T.T5, K01, {}), ("Q6", R.clone_frame, ("K0",), {}), ("T6", T.T6, K01, {}), ("L6", R.L6, K01, {}),
      # "exactly once in a clean run" needs every released function to be handed out: the stream's poll function never parks
      # with done notifications still queued and no wake-up registered
      ("T3", T.T3, K01, {"want_stream": True})],
     K01,
     "Decides S2 (each ready-send is the preload of all zero-count nodes or the release at count==0 after the decrement), "
     "S3 (counts only decrease by one per predecessor edge), S6 (channel capacities are monotone in node_count so try_send never drops an id) "
     "R3 (counts and structure copies describe the same, augmented, graph) and T3 (the stream's hand-written poll function never returns Pending with done notifications "
     "still queued and no wake-up registered: every released function is handed out).",
     "MIR dataflow: allocation-site provenance of channels/counts, expression reconstruction of guards and capacities",
     "liveness of user futures; the at-most-once induction (paper)")

prop("C04",
     [("T1", T.T1, K01, {}), ("T2", T.T2, K01, {}), ("T3", T.T3, K01, {"want_stream": False}),
      ("S6", S.S6, K01, {}), ("S7", S.S7, K01, {}), ("S1", S.S1, K01, {}), ("T4", T.T4, ("K1",), {}), ("A1", T.A1, K01, {}), ("A2", R.A2, K01, {}), ("S4", S.S4, K01, {}), ("S6b", S.S6b_bitsets, K01, {}), ("L5", R.L5, K01, {}), ("T5", T.T5, K01, {}), ("N7", B.N7, K01, {}), ("T6", T.T6, K01, {}), ("P2", T.P2, K01, {}), ("O3b", R.O3b, ("K1",), {}),
      ("S2", S.S2, K01, {}), ("S3", S.S3, K01, {}), ("IM", S.S5_interrupt_map, ("K1",), {"rule": "IM"}),
      ("R3", B.R3, ("K0",), {"parts": ("structures", "counts")}), ("R4", B.R4, ("K0",), {})],
     K01,
     "Decides the release-obligation table T1 per public entry point (done-sender released on EMPTY / FINISHED / INTERRUPTED / FAILED; "
     "ready-sender released by the queuer), T2 (queuer and scheduler joined), T3 (wake-up typestate of every hand-written poll function "
     "outside the stream family, plus an inventory of every receive site), S6 (capacities), S7 (fallible sends never unwrapped), S2/S3 (every root preloaded, every "
     "successor released at count 0), T4 (interrupt notices reach the scheduler), IM (every Interrupted item sets the interrupted flag that T1.INTERRUPTED releases on), "
     "R3 (counts describe the augmented graph: no count underflow), A1 (no protocol future dropped or polled once and abandoned), "
     "A2 (no short-circuiting concurrent driver above a body that runs user futures) and S6.nonzero (every channel capacity is >= 1 for the empty graph: mpsc::channel(0) panics).",
     "MIR typestate dataflow over poll functions + release-obligation table via control dependence and provenance, per entry point through the call graph",
     "absence of panics from index/arithmetic checks; fairness inside futures/tokio")

prop("C05",
     [("T3", T.T3, K01, {"want_stream": True}), ("U1", T.U1, K01, {}), ("S2", S.S2, K01, {}), ("S3", S.S3, K01, {}),
      ("S5", S.S5, K01, {}), ("S7", S.S7, K01, {}), ("S4", S.S4, K01, {"liveness": True}),
      ("S6", S.S6, K01, {"roles_filter": ("READY", "DONE")}),
      ("R3", B.R3, ("K0",), {"parts": ("structures", "counts")}), ("T5", T.T5, K01, {}), ("S1", S.S1, K01, {}), ("R4", B.R4, ("K0",), {}), ("N7", B.N7, K01, {}), ("T6", T.T6, K01, {}), ("A1", T.A1, K01, {}), ("U3", T.U3, K01, {})],
     K01,
     "Decides T3 on the stream poll closure (no return that may be Pending after a Ready(Some) from the done receiver without re-polling it), "
     "U1 (end-of-stream bookkeeping: countdown from node_count decremented on Ready(Some), both senders released at 0 and for the empty graph, "
     "READY polled only while the done-sender is held), S2/S3/S5 on the in-poll release loop, and U2 = S4(b)+S7 (FnRef::drop sends its own id on every path through drop, result discarded), S1 (the counts the stream waits on are the degrees of the structure it walks, in both orders: "
     "a mispaired count is never reached and the stream stays Pending with nothing outstanding) and S6.nonzero (capacity >= 1 for the empty graph).",
     "MIR path-sensitive typestate dataflow (receiver wake-up state) + provenance",
     "tokio's poll_recv waker contract (trusted; Ready(Some) registers no waker)")

K0 = ("K0",)
K04 = ("K0", "K4")      # builder-side rules: with and without the async feature

prop("C01",
     [("R1", B.R1, ("K0", "K3"), {}), ("R2", B.R2, ("K0",), {"strict_order": False}),
      ("R3", B.R3, ("K0",), {"parts": ("structures", "counts", "graph-field")}), ("R4", B.R4, ("K0",), {}),
      ("R5", B.R5, ("K0", "K3"), {}), ("R6", B.D2_coverage, ("K0",), {}), ("R7", B.R7, ("K0", "K3"), {}),
      ("S1", S.S1, K01, {}), ("S2", S.S2, K01, {}), ("S3", S.S3, K01, {}), ("S4", S.S4, K01, {}), ("S5", S.S5, K01, {}), ("L6", R.L6, K01, {})],
     ("K0", "K1", "K3"),
     "Decides R1 (the conflict predicate compares A.read x B.write, A.write x B.read, A.write x B.write for the two endpoints of the "
     "inserted edge and the insertion is taken iff one of them holds - truth table over the path conditions), R2 (every guard between the "
     "pair enumeration and the insertion is id identity, the per-iteration seen flag, the matching has_path_connecting or the predicate), "
     "R3 (augmentation dominates count calculation and structure copies on the same graph), R4 (every raw node/edge copied unconditionally "
     "with its weight), R5 (access tables of R/W/()/fn_meta delegation agree), R6 (pair coverage: the inner scan ranges over list[outer position..] of the list the outer scan enumerates), plus S1-S5 of the scheduler.",
     "MIR taint/provenance of access declarations into comparison sites + symbolic path-condition enumeration of the insertion guard + dominance",
     "that the pairwise scan + has_path_connecting joins every conflicting pair for every DAG (functional correctness of the scan), and the schedule-level behaviour")

prop("C06",
     [("W1", B.W1, K0, {}), ("W2", B.W2, K0, {}), ("R1", B.R1, K0, {}), ("W3", S.W3, K01, {}), ("S3", S.S3, K01, {}),
      ("S6", S.S6, K01, {"roles_filter": ("READY", "DONE")}),
      ("W4", lambda ctx: __import__("rules_run").W4(ctx), K01, {}), ("S2", S.S2, K01, {}),
      ("R3", B.R3, K0, {"parts": ("structures", "counts")}), ("R4", B.R4, K0, {}), ("S1", S.S1, K01, {}),
      ("T3", T.T3, K01, {"want_stream": True}), ("Q6", R.clone_frame, K0, {}), ("S4", S.S4, K01, {"liveness": True}), ("T5", T.T5, K01, {}),
      ("B1", S.opts_frame, K01, {"fields": ("StreamOrder",)}), ("B2", S.order_wiring, K01, {})],
     K01,
     "Decides W4 = L1 (limit forwarded unchanged, so None gates nothing), W1 (the only edge-adding call on the user's graph reachable from build() is update_edge with the constant Edge::Data, "
     "no other node/edge-set mutator), W2 (the comparison pairs feeding its guard contain no read x read pair and no same-function pair; "
     "expected-zero rule with a seeded positive control in the self-test), the guard being exactly the disjunction of the comparisons (R1 truth table), "
     "W3 = S2/S3 (every successor reaching count 0 is queued in the same visit; the release walk has no early exit), S2 (all zero-count functions are preloaded), S1 (counts are the degrees of the structure walked, so a count reaches 0 exactly when the predecessors returned) "
     "and T3 (every Pending return of a hand-written poll function leaves a waker registered on the done channel: an idle call is not one that missed a completion).",
     "MIR who-may-call inventory over the call graph of build() + provenance of comparison operands",
     "the quiescence statement over runs (whenever idle, everything runnable was started)")

prop("C11",
     [("R3", B.R3, K04, {"parts": ("graph-field",)}), ("W1", B.W1, K04, {}), ("B3", B.B3, K04, {}), ("R2", B.R2, K04, {"strict_order": True}),
      ("R1", B.R1, K04, {}), ("K", B.C13_rules, K04, {}), ("P1", B.P1, K04, {}), ("E", B.C16_rules, K04, {}),
      ("ID", B.ID_rules, K04, {}), ("R6", B.D2_coverage, K04, {}), ("R7", B.R7, K04, {}), ("N", ST.N_rules, ("K0",), {}), ("D1", B.D1, K04, {}), ("C18.loops", B.C18_loops, K04, {})],
     K04,
     "Decides B1 (phase order: ranks, then augmentation, then counts and structure copies, all on the same graph which becomes FnGraph.graph), "
     "B2 (no add_node/remove/clear/retain reaches the user's Dag from build()), B3 (the only added edge is Edge::Data, control dependent on "
     "has_path_connecting(G,a,b) == false for the same (a,b): an existing edge is never overwritten), B4 (structure copies complete), B5 = R1/R2, "
     "P1 (panic-site inventory of build(): no trapping arithmetic, explicit panic, unwrap other than on an edge insertion, or computed slice bound) and "
     "E1-E3 (every accepted logic/contains edge is stored by update_edge with the kind its method names), ID (returned FnIds are add_node's) and R6 (pair coverage of the conflict scan).",
     "MIR dominance + who-may-call inventory + path-condition enumeration",
     "acyclicity of the augmented graph, unreachability of the two expect()s, and that every conflicting pair is joined by a path (semantic invariant of the rank-sorted scan)")

prop("C12",
     [("D1", B.D1, K04, {}), ("D2", B.D2, K04, {}), ("D3", B.D3, K04, {}), ("D4", B.D4, K04, {}),
      ("K", B.C13_rules, K04, {}), ("E", B.C16_rules, K04, {}), ("R2", B.R2, K04, {"strict_order": True}), ("B3", B.B3, K04, {}),
      ("D4e", lambda ctx: R.edge_eq_rule(ctx, "D4"), K04, {}), ("D1r", lambda ctx: B.rank_ord_rule(ctx, "D1"), K04, {}), ("ID", B.ID_rules, K04, {}), ("R1", B.R1, K04, {}), ("R7", B.R7, K04, {}),
      ("R3", B.R3, K04, {"parts": ("structures",)})],
     K04,
     "Decides D1 (ids listed in ascending id order and sorted by a stable sort whose comparator is ranks[first] vs ranks[second], ascending), "
     "D2 (the Data edge goes from the outer element to an element at a later position of the same sorted list), D3 (no hash-ordered container, "
     "RNG, clock, thread, env or address-derived value reachable from build()), D4 (FnGraph == compares node count, each edge's source, target and "
     "weight, and each function, pairwise over unfiltered zipped sequences, as a conjunction: one unequal pair decides), D2 also requires the outer scan to run from the highest rank down (non-redundancy); "
     "K1-K5 (the ranks the order is defined by are the logic/contains longest-path ranks), E1-E3 (an edge's kind, which == compares, is the one its builder method names) "
     "and R2/B3 (the only guards on the insertion are id identity, the seen flag, the conflict predicate and `!has_path_connecting(a, b)` for the same pair: a weaker path test adds edges that repeat an implied ordering).",
     "MIR expression reconstruction of the comparator/list construction + iterator-chain inventory + callee/type inventory",
     "non-redundancy of Data edges and the exact tie-break outcome as functions of the input")

prop("C13",
     [("K", B.C13_rules, K04, {}), ("R3", B.R3, K04, {"parts": ("ranks",)}), ("E", B.C16_rules, K04, {}), ("ID", B.ID_rules, K04, {}),
      ("K7", lambda ctx: B.rank_ord_rule(ctx, "K7"), K04, {}), ("P1", B.P1, K04, {}), ("Q6", R.clone_frame, K04, {})],
     K04,
     "Decides K1 (ranks start as Rank(0) x node_count), K2 (the work queue is seeded with exactly the parent-less nodes), K3 (every store to "
     "ranks[child] is ranks[parent]+1 - constant 1 through Rank: Add<usize>, whose body adds the fields - merged by max or guarded by candidate > existing), "
     "K4 (a raised child is re-queued, and neither the children walk nor the worklist loop around the update can be left before it is exhausted), K5 (the calculation is generic over an unbounded F, never reads an edge weight, and FnGraph.ranks is its "
     "unchanged result computed before augmentation) and E1-E3 (the edges the ranks are computed over are the declared ones: from/to and kind of every add_*_edge(s) call reach update_edge in that order).",
     "MIR expression reconstruction + provenance of the rank vector + control dependence",
     "that the relaxation reaches the longest-path fixpoint for every insertion order (paper argument)")

prop("C16",
     [("E", B.C16_rules, ("K0", "K4"), {}), ("W1", B.W1, ("K0", "K4"), {}), ("R2", B.R2, ("K0", "K4"), {"strict_order": True}),
      ("B3", B.B3, ("K0", "K4"), {}), ("N", ST.N_rules, ("K0",), {}), ("ID", B.ID_rules, ("K0", "K4"), {}),
      ("P1a", B.P1, ("K0", "K4"), {"rule": "P1a", "scope": "api"})],
     ("K0", "K4"),
     "Decides E1 (add_logic_edge/add_contains_edge perform exactly one daggy::Dag::update_edge(from, to, const Logic|Contains) - directly or through crate-local helpers whose parameters are "
     "resolved at their call site - with the result returned unchanged), E2 (batch forms perform that same insertion once per element in array order, with the kind their name says, stop at and return the first error), "
     "E3 (no other public builder method mutates the edges of the user's graph), E4 (a `&mut self` method never moves the user's graph out of the builder or stores another graph into it - "
     "no mem::take/replace/swap, no whole-field store - so a rejected edge leaves the builder as it was) and W1 (build() itself adds only Data edges and calls no other node/edge-set mutator, so accepted edges reach the built graph intact).",
     "MIR call inventory with resolved callees + argument provenance",
     "daggy's cycle test itself (update_edge: must_check_for_cycle + has_path_connecting), trusted")

prop("C18",
     [("C18.loops", B.C18_loops, ("K0", "K4"), {}), ("C18.ord", lambda ctx: B.rank_ord_rule(ctx, "C18.ord"), ("K0", "K4"), {})],
     ("K0", "K4"),
     "Decides, over the crate-local call graph of build(): no recursion; every natural loop is collection-bounded or a worklist loop; and every push onto a "
     "popped work queue is control dependent on a progress guard (strict improvement of a per-node value stored in the same guarded region, a test-and-set "
     "visited flag, or a counter reaching zero after its decrement), which bounds re-queues per node by the number of distinct values (<= n).",
     "MIR loop inventory (natural loops, worklist classification) + control dependence of queue pushes",
     "constants; the dependency calls' own complexity (has_path_connecting, update_edge, stable sort assumed polynomial)")


prop("C07",
     [("F", R.F_rules, K01, {}), ("S6", S.S6, K01, {"roles_filter": ("RESULT",)}), ("T1", T.T1, K01, {"kinds": ("FAILED",)}),
      ("O4", R.O4, K01, {}), ("S7", S.S7, K01, {}),
      ("B1", S.opts_frame, K01, {"fields": ("StreamOrder",)}), ("B2", S.order_wiring, K01, {}),
      ("R2", B.R2, ("K0",), {"strict_order": False}), ("R3", B.R3, ("K0",), {"parts": ("structures", "counts")}), ("S1", S.S1, K01, {}), ("R6", B.D2_coverage, ("K0",), {}), ("R1", B.R1, ("K0",), {}), ("R7", B.R7, ("K0",), {}), ("ID", B.ID_rules, ("K0",), {}), ("E", B.C16_rules, ("K0",), {}),
      ("A1", T.A1, K01, {}), ("N7", B.N7, K01, {}), ("L5", R.L5, K01, {}), ("P2", T.P2, K01, {}), ("T5", T.T5, K01, {}),
      ("S2", S.S2, K01, {}), ("S3", S.S3, K01, {}), ("R5", B.R5, ("K0", "K3"), {}),
      # which of two conflicting functions is the dependent is decided by the ranks (D1 sorts by rank): a wrong rank reverses a Data edge
      ("K", B.C13_rules, ("K0",), {}), ("D1", B.D1, ("K0",), {}),
      # a failed function is counted off exactly once: counted twice, the countdown underflows (panic instead of the Err) when it finishes last
      ("O3b", R.O3b, K01, {})],
     ("K0", "K1", "K3"),
     "Decides F1 (on the Err arm of the user future exactly one awaited send on the RESULT channel carries that error), F2 (from the Err arm every "
     "path to the done-send passes through the release of the done-sender), F3 (RESULT capacity monotone in node_count; its receiver is drained only "
     "after the join; Err((outcome, errors)) iff the collected vector is non-empty, unchanged), F4 (control adapters map Continue->Ok, Break(e)->Err(e)), "
     "F5 (try-fold: the step's Err value is the user's error via `?` and no callback is reachable after it), F6 (the per-item futures are driven by an adaptor that does not stop at the first Err), plus T1.FAILED, and B1/B2 (the order requested in StreamOpts reaches the structure/count selection of every variant, "
     "so 'ordered after the failed function' means the same edges in the run as in the property), and K1-K5 / D1 as premises (the rank calculation and the stable rank sort decide "
     "which of two conflicting functions is the dependent: a rank that is too low reverses a Data edge and the dependent of a failed function starts).",
     "MIR must-pass-through (dominance/path) analysis from the Err arm + provenance of error values with failure-tagged access paths",
     "that already started futures complete (contract of for_each_concurrent, trusted)")

prop("C08",
     [("I", R.I_rules, ("K1",), {}), ("S5", S.S5, ("K1",), {}), ("T1", T.T1, ("K1",), {"kinds": ("INTERRUPTED",)}), ("T4", T.T4, ("K1",), {}),
      ("B1", S.opts_frame, ("K1",), {"fields": ("InterruptibilityState", "bool")}), ("S7", S.S7, ("K1",), {}), ("O3b", R.O3b, ("K1",), {}), ("O", R.O_rules, ("K1",), {}), ("S6b", S.S6b_bitsets, ("K1",), {}), ("P2", T.P2, ("K1",), {}), ("L6", R.L6, ("K1",), {}), ("A1", T.A1, ("K1",), {}), ("N7", B.N7, ("K1",), {}), ("L5", R.L5, ("K1",), {})],
     ("K1",),
     "Decides the wiring only: I1 (opts.interruptibility_state and interrupted_next_item_include flow unchanged from each public parameter - or from "
     "StreamOpts::default() - to the ready-stream wrapper; stream_with_interruptible passes the state to interruptible_with, stream/stream_with do not wrap), "
     "I2 (the include flag selects between wrapping the tracking stream and wrapping the raw receiver followed by a filter whose Interrupted arm clears the id "
     "and does not record it), I3 (interrupt mapping Interrupted(x)->(x,true), NoInterrupt(x)->(Some(x),false)), I4 = T1.INTERRUPTED, I5 = S5 (the ready stream is the only source of ids), "
     "B1 (StreamOpts builder methods keep the interruptibility state and include flag set by earlier calls), S7 (no send whose receiver may be gone after an interruption is unwrapped).",
     "MIR taint of option fields from public parameters to sinks + control dependence in the wrapper",
     "THE NUMERIC BOUNDS THEMSELVES (<= 1 / <= n more, pending-signal cases, PollNextN(0)): they are the state machine of interruptible::InterruptibleStream in another crate; fn_graph only wires it")

prop("C09",
     [("O", R.O_rules, K01, {}), ("O3b", R.O3b, K01, {}), ("S5", S.S5, K01, {}), ("I2", R.I2_rule, ("K1",), {}), ("O5", R.O5, K01, {}), ("O6", R.O6, K01, {}), ("S6b", S.S6b_bitsets, K01, {}), ("F", R.F_rules, K01, {}), ("O7", R.O7, K01, {})],
     K01,
     "Decides O1 (the only pushes to fn_ids_processed happen in the ready-stream adaptors, with the id dequeued from READY, once per dequeue, not in per-item bodies), "
     "O2 (StreamOutcome::new stores processed/state unchanged and computes not-processed as the node-order filter !processed.contains(id) over all nodes of the walked structure; "
     "every call site passes the tracked vector and the walked structure), O3 (0 -> Finished, else Interrupted, argument derived from the node_count countdown), "
     "O4 (the four control wrappers map Ok+Finished -> Continue, Ok+other -> Break((outcome, [])), Err(x) -> Break(x)), O5 (on the fold/for_each paths every StreamOutcome is made by StreamOutcome::new, never a literal/Default).",
     "MIR provenance of pushed ids / constructor arguments + control dependence of the ControlFlow aggregates",
     "the order claim beyond `push happens at dequeue`")

prop("C10",
     [("L1", R.L1, K01, {}), ("L2", R.L2, K01, {}), ("L3", R.L3, K01, {}), ("S6", S.S6, K01, {"roles_filter": ("READY",)}),
      ("L4", R.L4, K01, {}), ("S2", S.S2, K01, {}), ("R3", B.R3, ("K0",), {"parts": ("structures", "counts")}), ("S1", S.S1, K01, {}), ("A1", T.A1, K01, {}), ("S4", S.S4, K01, {"liveness": True}), ("S3", S.S3, K01, {}), ("S7", S.S7, K01, {}),
      ("T1", T.T1, K01, {}), ("T5", T.T5, K01, {}), ("T6", T.T6, K01, {}), ("N7", B.N7, K01, {}), ("L5", R.L5, K01, {}), ("P2", T.P2, K01, {}),
      ("A2", R.A2, K01, {}), ("R4", B.R4, ("K0",), {})],
     K01,
     "Decides L1 (`limit` flows unchanged from each of the 12 public parameters into StreamExt::for_each_concurrent's limit argument, whose stream is the READY stream) "
     "L2 (fold/try_fold paths are sequential - StreamExt::fold / try_fold or one `while let .. next().await` loop - and go on only after the user future's Ready arm), "
     "L3 (`limit` reaches nothing but that argument) and S6[READY] (the ready channel holds every function, so a small limit cannot make the queuer drop ids).",
     "MIR taint from public parameters to the adaptor's argument + must-pass-through of the await's Ready arm",
     "the in-flight count of for_each_concurrent (futures' contract); `any limit >= 1 completes` beyond S4")

prop("C14",
     [("Q", R.Q_rules, ("K0", "K4"), {}), ("R3", B.R3, ("K0", "K4"), {"parts": ("structures",)}), ("R4", B.R4, ("K0", "K4"), {}),
      ("ID", B.ID_rules, ("K0", "K4"), {}), ("E", B.C16_rules, ("K0", "K4"), {}), ("N", ST.N_rules, ("K0",), {})],
     ("K0", "K4"),
     "Decides Q1 (each of iter, iter_rev, toposort, map, fold, try_fold, for_each, try_for_each creates and steps Topo with the same graph), Q2 (forward APIs walk a "
     "forward-role graph, iter_rev the reversed structure; roles from build()), Q3 (the id produced by Topo indexes self.graph unchanged), Q4 (try_fold/try_for_each return the "
     "callback's first error, no callback is reachable after it, and every path from a callback to the return inspects its result), Q5 (iter_insertion* return the index-ordered node sequence of self.graph unmodified).",
     "MIR provenance equality of Topo::new / Topo::next graph arguments + structure roles from build()",
     "petgraph::Topo's contract (exactly once, topological)")

prop("C17",
     [("G", R.G_rules, ("K2",), {})],
     ("K2",),
     "Decides G1 (nodes from iter_insertion() in order, each mapped by the caller's function, one unconditional add_node each), G2 (edges from raw_edges() in order mapped to "
     "(source(), target(), weight) with no filter, into add_edges), G3 (GraphInfo, Edge, FnIdInner implement both Serialize and Deserialize; serialisability for all NodeInfo by the witness crate), "
     "G4 (iter uses Topo over graph for construction and stepping, iter_rev over Reversed(graph)), G5 (== compares node weights and source/target/weight of every edge; Edge's own == is the derived variant-by-variant comparison), "
     "G7 (no mutator other than the copying add_node/add_edges touches the copy before it is returned).",
     "MIR iterator-chain inventory + expression reconstruction of the mapped tuple + impl table",
     "value-level round-trip equality through a concrete format (serde/daggy/serde_yaml_ng behaviour)")



SERDE_DEP = 'serde = { version = "1", features = ["derive"] }'

prop("C15",
     [("N", ST.N_rules, K01, {}), ("D3", B.D3, K0, {}), ("N6", B.N6, K01, {}), ("U1", T.U1, K01, {}), ("A1", T.A1, K01, {})],
     K01,
     "Whole-property static argument (non-interference): N1 nothing reachable through &FnGraph<F> other than F contains an UnsafeCell (explicit deep type walk: "
     "fields, generic arguments, pointees, normalised projections); N2 no hand-written unsafe block and no unsafe impl other than IndexType for FnIdInner (identity wrapper); "
     "N3 no static mut / non-Freeze static / thread_local / OnceLock; N4 every per-run object (channels, counts copy, countdowns, processed list) is allocated inside the call; "
     "N5 no body writes or mutably borrows graph_structure / graph_structure_rev / ranks / edge_counts of an existing graph, and `&mut graph` only reaches node-weight accessors; "
     "witness: dropping a run midway and starting another type-checks for every F, scheduling fields are private (E0616). Hence a run's behaviour is a function of the unchanged "
     "graph fields, its options, the caller's closures and the schedule only; an earlier (completed, interrupted, failed or dropped) run can influence it only through F or the caller's own state. "
     "Equal fields on a freshly built graph follow from D3 (deterministic build). N6: no body of the crate reads ambient state that earlier runs advance "
     "(RNG, clock, thread id, environment, RandomState-seeded containers, address-derived values). U1: the stream's poll function ends the stream only on its own countdown / released done-sender, "
     "so a Pending caused by the task's cooperative budget (which earlier runs in the same task poll consume) delays a run but never truncates it - the premise behind the trusted assumption below.",
     "type-level deep-immutability walk + effect (write / &mut borrow) inventory over all MIR bodies + borrow-checker witnesses",
     "tokio's cooperative budget (a thread-local of the dependency) only adds self-woken Pendings; interior mutability inside the user's F is the user's",
     level="other")
PROPS["C15"]["witnesses"] = [("c15", [], ""), ("c15", ["interruptible"], "")]

prop("C20",
     [("N", ST.N_rules, K01, {}), ("A1", T.A1, K01, {}), ("N6", B.N6, K01, {}), ("L4", R.L4, K01, {}), ("U1", T.U1, K01, {}), ("N7", B.N7, K01, {}), ("U3", T.U3, K01, {})],
     K01,
     "Whole-property static argument (non-interference of simultaneous runs): N1-N5 as for C15 (nothing mutable is reachable through &FnGraph; no global state; all per-run state "
     "allocated per call; scheduling fields never written), plus FnGraph<F>: Sync for F: Send + Sync (shared runs from several threads), two shared-reference runs and a stream may be "
     "alive at once for every F (must-compile), two simultaneous `_mut` runs do not type-check (E0499) and a `_mut` run excludes shared runs (E0502), with a compiling sequential twin. "
     "Each run therefore satisfies C01-C10 exactly as if alone: its behaviour depends only on immutable graph fields and its own allocations. "
     "A1: every future created on a streaming path is awaited to completion, never polled once and discarded (now_or_never/timeout/select), so the only ambient "
     "state two runs in one task share - tokio's cooperative budget - can delay a run but not change what it does.",
     "type-level deep-immutability walk + effect inventory over all MIR bodies + borrow-checker / auto-trait witnesses",
     "tokio's cooperative budget thread-local only adds self-woken Pendings; user F interior mutability is the user's")
PROPS["C20"]["witnesses"] = [("c15", [], ""), ("c15", ["interruptible"], "")]

prop("C19",
     [],
     (),
     "Decides the whole property with the type checker. Default features, universally quantified over F: Send + Sync, Send + Sync callbacks, Send futures, Send errors: "
     "FnGraph<F>: Send + Sync, FnRef<'_, F>: Send, stream(), stream_with(), and the futures of for_each_concurrent{,_with,_mut,_mut_with}, try_for_each_concurrent{,_with,_mut,_mut_with}, "
     "try_for_each_concurrent_control{,_with,_mut,_mut_with} are Send. Feature `interruptible`: FnGraph, FnRef, stream(), stream_with() remain Send. Each assertion has a negative twin "
     "differing only by the offending bound that must fail with E0277, and concrete positive twins of the `spawn` shape.",
     "rustc trait solver on a must-compile witness crate with must-fail (E0277) negative twins",
     "nothing of the statement as read in DESIGN.md (stream_interruptible()'s own !Send-ness comes from interruptible::InterruptibilityState's Box<dyn Fn()> hooks and is not part of the claim)",
     assumptions=["rustc's auto-trait / trait solver is the trusted base",
                  "reading of the statement: with `interruptible`, `the stream` means stream()/stream_with(); stream_interruptible embeds the !Send InterruptibilityState of another crate"],
     level="proof")
PROPS["C19"]["witnesses"] = [("c19", [], ""), ("c19", ["interruptible"], "")]
PROPS["C19"]["checker_cmd"] = "cargo check --offline --lib --examples --keep-going --message-format=json  (in /verif/.work/witness/c19-<features>, path-depending on /repo)"
PROPS["C19"]["trusted_base"] = ["rustc type checker / trait solver (stable toolchain)", "cargo"]
PROPS["C17"]["witnesses"] = [("c17", ["graph_info"], SERDE_DEP)]
