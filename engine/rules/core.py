"""Obligation bookkeeping, floors, known-findings, evidence and exit codes."""
import json
import os
import re
import sys
import time

VERIF = os.path.dirname(os.path.dirname(os.path.dirname(os.path.abspath(__file__))))
KNOWN_FILE = os.path.join(VERIF, "KNOWN_FINDINGS.txt")
EVIDENCE_DIR = os.environ.get("VERIF_EVIDENCE_DIR") or os.path.join(VERIF, "evidence")


class Ob:
    """One proof obligation of a rule instance.

    status: 'ok' | 'violation' | 'unverifiable' (fail-closed: counts as violation)
    key:    stable identity without line numbers: rule|function|site-key
    """

    def __init__(self, rule, key, status, where, msg, cfg=None, detail=None):
        self.rule = rule
        self.key = "%s|%s" % (rule, key)
        self.status = status
        self.where = where
        self.msg = msg
        self.cfg = cfg
        self.detail = detail

    def to_json(self):
        d = {"rule": self.rule, "key": self.key, "status": self.status, "where": self.where, "msg": self.msg}
        if self.cfg:
            d["cfg"] = self.cfg
        if self.detail:
            d["detail"] = self.detail
        return d


class RuleCtx:
    """Collects obligations for one (property, configuration)."""

    def __init__(self, prop, cfg, fb, model):
        self.prop = prop
        self.cfg = cfg
        self.fb = fb
        self.model = model
        self.obs = []
        self.notes = []
        self.counts = {}

    def ok(self, rule, key, where, msg, detail=None):
        self.obs.append(Ob(rule, key, "ok", where, msg, self.cfg, detail))

    def bad(self, rule, key, where, msg, detail=None):
        self.obs.append(Ob(rule, key, "violation", where, msg, self.cfg, detail))

    def unverifiable(self, rule, key, where, msg, detail=None):
        self.obs.append(Ob(rule, key, "unverifiable", where, msg, self.cfg, detail))

    def check(self, cond, rule, key, where, msg_ok, msg_bad=None, detail=None):
        if cond:
            self.ok(rule, key, where, msg_ok, detail)
        else:
            self.bad(rule, key, where, msg_bad or ("NOT: " + msg_ok), detail)
        return cond

    def floor(self, rule, n_min, what):
        """Fail closed when a rule matched fewer instances than confirmed by hand."""
        n = sum(1 for o in self.obs if o.rule == rule)
        self.counts[rule] = n
        if n < n_min:
            self.obs.append(Ob(rule, "floor", "unverifiable", "-",
                               "rule %s matched %d instance(s) of %s, fewer than the floor %d: anchor not found / extractor failure"
                               % (rule, n, what, n_min), self.cfg))

    def note(self, s):
        self.notes.append(s)

    # -- per-entry-point floors -------------------------------------------------
    def cover(self, tag, body_id):
        """record that the rule instance `tag` found its construct in `body_id`"""
        self.__dict__.setdefault("_cover", {}).setdefault(tag, set()).add(body_id)

    def entry_floor(self, rule, tag, families, what):
        """Every discovered public entry point of the given families must reach
        (through the call graph) a body in which the rule found `what`.  Floors
        are per entry point, so merging or splitting internal siblings does not
        trip them, while an extractor/anchor failure fails closed."""
        m = self.model
        covered = self.__dict__.get("_cover", {}).get(tag, set())
        fams_seen = set()
        for e in m.entries:
            fam = m.family(e)
            if families is not None and fam not in families:
                continue
            fams_seen.add(fam)
            if not (m.reach(e["id"]) & covered):
                self.obs.append(Ob(rule, "floor|%s|%s" % (tag, e["name"]), "unverifiable",
                                   "%s:%d (FnGraph::%s)" % (e["sp"]["file"], e["sp"]["line"], e["name"]),
                                   "entry point of family %s reaches no %s: anchor not found / extractor failure" % (fam, what), self.cfg))
        for f in (families or ()):
            if f not in fams_seen:
                self.obs.append(Ob(rule, "floor-family|%s|%s" % (tag, f), "unverifiable", "-",
                                   "no public entry point of family %s discovered" % f, self.cfg))


def load_known():
    known = {}
    fixed = []
    if not os.path.exists(KNOWN_FILE):
        return known, fixed
    for line in open(KNOWN_FILE):
        line = line.strip()
        if not line or line.startswith("#"):
            continue
        m = re.match(r"known:\s+property=(\S+)\s+key=(\S+)\s*(.*)$", line)
        if m:
            known.setdefault(m.group(1), {})[m.group(2)] = m.group(3)
            continue
        m = re.match(r"fixed:\s+property=(\S+)\s+(\S+)\s+(.*)$", line)
        if m:
            fixed.append((m.group(1), m.group(2), m.group(3)))
    return known, fixed


def finish(prop, tier, seed, level, obs, t0, explanation, assumptions, extra_cov, technique, checker_cmd=None,
           trusted_base=None, skipped_cfgs=None, infra_error=None):
    """Writes evidence, prints verdict lines, returns the exit code."""
    os.makedirs(EVIDENCE_DIR, exist_ok=True)
    os.makedirs(os.path.join(EVIDENCE_DIR, "violations"), exist_ok=True)
    known, _fixed = load_known()
    kn = known.get(prop, {})
    viol = [o for o in obs if o.status != "ok"]
    listed = [o for o in viol if o.key in kn]
    unlisted = [o for o in viol if o.key not in kn]
    n_ok = sum(1 for o in obs if o.status == "ok")
    # samples: a few discharged obligations and all failing ones
    samples = []
    seen_rules = set()
    for o in obs:
        if o.status == "ok" and o.rule not in seen_rules:
            seen_rules.add(o.rule)
            samples.append(o.to_json())
    for o in viol[:20]:
        samples.append(o.to_json())
    per_rule = {}
    for o in obs:
        r = per_rule.setdefault(o.rule, {"ok": 0, "violation": 0, "unverifiable": 0})
        r[o.status] += 1
    cov = {
        "explanation": explanation,
        "obligations": len(obs),
        "discharged": n_ok,
        "per_rule": per_rule,
        "samples": samples[:60],
        "technique": technique,
        "exhaustive": True,
    }
    if checker_cmd:
        cov["checker_cmd"] = checker_cmd
    if trusted_base:
        cov["trusted_base"] = trusted_base
    if skipped_cfgs:
        cov["configurations_not_evaluated"] = skipped_cfgs
    cov.update(extra_cov or {})
    ev = {
        "property_id": prop,
        "tier": tier,
        "seed": seed,
        "level": level,
        "coverage": cov,
        "assumptions": assumptions,
        "wall_s": round(time.time() - t0, 3),
        "violations": len(unlisted),
        "known_findings": [o.key for o in listed],
    }
    if infra_error:
        ev["infra_error"] = infra_error
    path = os.path.join(EVIDENCE_DIR, "%s.json" % prop)
    with open(path, "w") as f:
        json.dump(ev, f, indent=1, sort_keys=False)
    for o in listed:
        print("KNOWN-FINDING: property=%s %s [%s] %s" % (prop, o.key, o.where, o.msg))
    vpath = os.path.join(EVIDENCE_DIR, "violations", "%s.json" % prop)
    if unlisted:
        with open(vpath, "w") as f:
            json.dump({"property_id": prop, "tier": tier, "violations": [o.to_json() for o in unlisted]}, f, indent=1)
        for o in unlisted:
            print("  %s %s [%s] (%s) %s" % ("UNVERIFIABLE" if o.status == "unverifiable" else "FAIL", o.key, o.where,
                                             o.cfg, o.msg))
        print("VIOLATION property=%s replay=%s" % (prop, vpath))
        return 1
    if os.path.exists(vpath):
        os.unlink(vpath)
    print("OK property=%s tier=%s obligations=%d discharged=%d known=%d wall=%.1fs" % (
        prop, tier, len(obs), n_ok, len(listed), time.time() - t0))
    return 0
