// expect: E0277 cannot be shared between threads safely
use fn_graph::FnGraph;
fn assert_sync<T: Sync>(_: &T) {}
pub fn graph_is_sync<F: Send>(g: &FnGraph<F>) {
    assert_sync(g);
}
fn main() {}
