// expect: ok
// Concrete positive twin (both feature sets): the stream, the graph and FnRefs move across threads.
use fn_graph::{FnGraph, FnRef};
fn spawn_like<T: Send + 'static>(_t: T) {}
fn fn_ref_to_thread(r: FnRef<'static, u32>) {
    spawn_like(r);
}
fn main() {
    let g: FnGraph<u32> = FnGraph::new();
    let g: &'static FnGraph<u32> = Box::leak(Box::new(g));
    spawn_like(g.stream());
    spawn_like(g);
    let _ = fn_ref_to_thread;
}
