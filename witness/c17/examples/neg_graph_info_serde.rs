// expect: E0277 Serialize
// Twin without the bound on N: must be rejected, so the positive assertion is not vacuous.
use fn_graph::GraphInfo;
use serde::{de::DeserializeOwned, Serialize};
fn assert_serde<T: Serialize + DeserializeOwned>() {}
pub fn graph_info_is_serde<N>() {
    assert_serde::<GraphInfo<N>>();
}
fn main() {}
