//! C19 must-compile witness: universally quantified auto-trait assertions.
//! Every function body is an obligation discharged by rustc's trait solver for
//! ALL `F: Send + Sync`, all `Send` callbacks / futures / errors.
#![allow(dead_code, clippy::all)]
use std::future::Future;
use std::ops::ControlFlow;

use fn_graph::{FnGraph, FnRef, StreamOpts};

fn assert_send<T: Send>(_: &T) {}
fn assert_sync<T: Sync>(_: &T) {}

pub fn graph_is_send_sync<F: Send + Sync>(g: &FnGraph<F>) {
    assert_send(g);
    assert_sync(g);
}

pub fn fn_ref_is_send<'a, F: Send + Sync>(r: &FnRef<'a, F>) {
    assert_send(r);
}

pub fn stream_is_send<F: Send + Sync>(g: &FnGraph<F>) {
    let s = g.stream();
    assert_send(&s);
}

pub fn stream_with_is_send<'a, F: Send + Sync>(g: &'a FnGraph<F>, opts: StreamOpts<'a, 'a>) {
    let s = g.stream_with(opts);
    assert_send(&s);
}

#[cfg(not(feature = "interruptible"))]
mod concurrent {
    use super::*;

    pub fn for_each_concurrent_is_send<'f, F, C, Fut>(g: &'f FnGraph<F>, c: C)
    where
        F: Send + Sync + 'f,
        C: Fn(&'f F) -> Fut + Send + Sync,
        Fut: Future<Output = ()> + Send + 'f,
    {
        let fut = g.for_each_concurrent(None::<usize>, c);
        assert_send(&fut);
    }

    pub fn for_each_concurrent_with_is_send<'f, F, C, Fut>(g: &'f FnGraph<F>, o: StreamOpts<'f, 'f>, c: C)
    where
        F: Send + Sync + 'f,
        C: Fn(&'f F) -> Fut + Send + Sync,
        Fut: Future<Output = ()> + Send + 'f,
    {
        let fut = g.for_each_concurrent_with(Some(3usize), o, c);
        assert_send(&fut);
    }

    pub fn for_each_concurrent_mut_is_send<F, C, Fut>(g: &mut FnGraph<F>, c: C)
    where
        F: Send + Sync,
        C: Fn(&mut F) -> Fut + Send + Sync,
        Fut: Future<Output = ()> + Send,
    {
        let fut = g.for_each_concurrent_mut(None::<usize>, c);
        assert_send(&fut);
    }

    pub fn for_each_concurrent_mut_with_is_send<'f, F, C, Fut>(g: &mut FnGraph<F>, o: StreamOpts<'f, 'f>, c: C)
    where
        F: Send + Sync,
        C: Fn(&mut F) -> Fut + Send + Sync,
        Fut: Future<Output = ()> + Send,
    {
        let fut = g.for_each_concurrent_mut_with(None::<usize>, o, c);
        assert_send(&fut);
    }

    pub fn try_for_each_concurrent_is_send<'f, F, E, C, Fut>(g: &'f FnGraph<F>, c: C)
    where
        F: Send + Sync + 'f,
        E: std::fmt::Debug + Send,
        C: Fn(&'f F) -> Fut + Send + Sync,
        Fut: Future<Output = Result<(), E>> + Send + 'f,
    {
        let fut = g.try_for_each_concurrent(None::<usize>, c);
        assert_send(&fut);
    }

    pub fn try_for_each_concurrent_with_is_send<'f, F, E, C, Fut>(g: &'f FnGraph<F>, o: StreamOpts<'f, 'f>, c: C)
    where
        F: Send + Sync + 'f,
        E: std::fmt::Debug + Send,
        C: Fn(&'f F) -> Fut + Send + Sync,
        Fut: Future<Output = Result<(), E>> + Send + 'f,
    {
        let fut = g.try_for_each_concurrent_with(None::<usize>, o, c);
        assert_send(&fut);
    }

    pub fn try_for_each_concurrent_mut_is_send<F, E, C, Fut>(g: &mut FnGraph<F>, c: C)
    where
        F: Send + Sync,
        E: std::fmt::Debug + Send,
        C: Fn(&mut F) -> Fut + Send + Sync,
        Fut: Future<Output = Result<(), E>> + Send,
    {
        let fut = g.try_for_each_concurrent_mut(None::<usize>, c);
        assert_send(&fut);
    }

    pub fn try_for_each_concurrent_mut_with_is_send<'f, F, E, C, Fut>(g: &mut FnGraph<F>, o: StreamOpts<'f, 'f>, c: C)
    where
        F: Send + Sync,
        E: std::fmt::Debug + Send,
        C: Fn(&mut F) -> Fut + Send + Sync,
        Fut: Future<Output = Result<(), E>> + Send,
    {
        let fut = g.try_for_each_concurrent_mut_with(None::<usize>, o, c);
        assert_send(&fut);
    }

    pub fn try_for_each_concurrent_control_is_send<'f, F, E, C, Fut>(g: &'f FnGraph<F>, c: C)
    where
        F: Send + Sync + 'f,
        E: std::fmt::Debug + Send,
        C: Fn(&'f F) -> Fut + Send + Sync,
        Fut: Future<Output = ControlFlow<E, ()>> + Send + 'f,
    {
        let fut = g.try_for_each_concurrent_control(None::<usize>, c);
        assert_send(&fut);
    }

    pub fn try_for_each_concurrent_control_with_is_send<'f, F, E, C, Fut>(g: &'f FnGraph<F>, o: StreamOpts<'f, 'f>, c: C)
    where
        F: Send + Sync + 'f,
        E: std::fmt::Debug + Send,
        C: Fn(&'f F) -> Fut + Send + Sync,
        Fut: Future<Output = ControlFlow<E, ()>> + Send + 'f,
    {
        let fut = g.try_for_each_concurrent_control_with(None::<usize>, o, c);
        assert_send(&fut);
    }

    pub fn try_for_each_concurrent_control_mut_is_send<F, E, C, Fut>(g: &mut FnGraph<F>, c: C)
    where
        F: Send + Sync,
        E: std::fmt::Debug + Send,
        C: Fn(&mut F) -> Fut + Send + Sync,
        Fut: Future<Output = ControlFlow<E, ()>> + Send,
    {
        let fut = g.try_for_each_concurrent_control_mut(None::<usize>, c);
        assert_send(&fut);
    }

    pub fn try_for_each_concurrent_control_mut_with_is_send<'f, F, E, C, Fut>(g: &mut FnGraph<F>, o: StreamOpts<'f, 'f>, c: C)
    where
        F: Send + Sync,
        E: std::fmt::Debug + Send,
        C: Fn(&mut F) -> Fut + Send + Sync,
        Fut: Future<Output = ControlFlow<E, ()>> + Send,
    {
        let fut = g.try_for_each_concurrent_control_mut_with(None::<usize>, o, c);
        assert_send(&fut);
    }
}
