"""Property -> rules table (DESIGN.md section 5)."""
import rules_sched as S
import rules_term as T

K01 = ("K0", "K1")
TRUST = [
    "rustc builds the MIR correctly; the fact extractor and rule engine are part of the trusted base",
    "contracts of dependencies are trusted, not analysed: tokio mpsc/RwLock, futures fold/try_fold/for_each_concurrent/join!, "
    "daggy/petgraph children/parents/Topo/update_edge/has_path_connecting, interruptible, serde",
    "the check decides the named code-shape premises (necessary conditions), not the behaviour over schedules/inputs; "
    "the induction from premises to the property is the paper argument in DESIGN.md section 4",
]

PROPS = {}


def prop(pid, rules, cfgs_quick, explanation, technique, not_decided, cfgs_thorough=(), assumptions=None, level="other"):
    PROPS[pid] = {
        "rules": rules, "cfgs_quick": list(cfgs_quick), "cfgs_thorough": list(cfgs_thorough),
        "explanation": explanation, "technique": technique, "not_decided": not_decided,
        "assumptions": assumptions or TRUST, "level": level,
    }


prop("C02",
     [("S1", S.S1, K01, {}), ("S2", S.S2, K01, {}), ("S3", S.S3, K01, {}), ("S4", S.S4, K01, {}), ("S5", S.S5, K01, {})],
     K01,
     "Decides the scheduler premises S1-S5 on the MIR of every streaming path: counts/structure pairing chain "
     "(in-degree with forward structure, out-degree with reversed structure, build() orientation, StreamOpts::rev/default), "
     "sole ready-sends (preload of zero-count ids, release guarded by COUNTS[child]==0 after its decrement), sole count writes "
     "(-=1 once per child of the id received from DONE, no early exit), done-send dominated by the Ready arm of the user "
     "future's await, and id consistency (dequeued id = looked-up id = id sent on DONE).",
     "MIR dataflow: value-source (allocation-site) provenance + dominance/control-dependence over resolved callees",
     "the induction along a topological order (paper); correctness of futures' fold/for_each_concurrent/join! and tokio channels")

prop("C03",
     [("S2", S.S2, K01, {}), ("S3", S.S3, K01, {}), ("S6", S.S6, K01, {})],
     K01,
     "Decides S2 (each ready-send is the preload of all zero-count nodes or the release at count==0 after the decrement), "
     "S3 (counts only decrease by one per predecessor edge) and S6 (channel capacities are monotone in node_count so try_send never drops an id).",
     "MIR dataflow: allocation-site provenance of channels/counts, expression reconstruction of guards and capacities",
     "liveness of user futures; the at-most-once induction (paper)")

prop("C04",
     [("T1", T.T1, K01, {}), ("T2", T.T2, K01, {}), ("T3", T.T3, K01, {"want_stream": False}),
      ("S6", S.S6, K01, {}), ("S7", S.S7, K01, {})],
     K01,
     "Decides the release-obligation table T1 per public entry point (done-sender released on EMPTY / FINISHED / INTERRUPTED / FAILED; "
     "ready-sender released by the queuer), T2 (queuer and scheduler joined), T3 (wake-up typestate of every hand-written poll function "
     "outside the stream family), S6 (capacities) and S7 (fallible sends never unwrapped).",
     "MIR typestate dataflow over poll functions + release-obligation table via control dependence and provenance, per entry point through the call graph",
     "absence of panics from index/arithmetic checks; fairness inside futures/tokio")

prop("C05",
     [("T3", T.T3, K01, {"want_stream": True}), ("U1", T.U1, K01, {}), ("S2", S.S2, K01, {}), ("S3", S.S3, K01, {}),
      ("S5", S.S5, K01, {}), ("S7", S.S7, K01, {}), ("S4", S.S4, K01, {})],
     K01,
     "Decides T3 on the stream poll closure (no return that may be Pending after a Ready(Some) from the done receiver without re-polling it), "
     "U1 (end-of-stream bookkeeping: countdown from node_count decremented on Ready(Some), both senders released at 0 and for the empty graph, "
     "READY polled only while the done-sender is held), S2/S3/S5 on the in-poll release loop, and U2 = S4(b)+S7 (FnRef::drop sends its own id, result discarded).",
     "MIR path-sensitive typestate dataflow (receiver wake-up state) + provenance",
     "tokio's poll_recv waker contract (trusted; Ready(Some) registers no waker)")
