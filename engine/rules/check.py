#!/usr/bin/env python3
"""check <property-id> --tier quick|thorough

Re-extracts MIR facts from /repo's current working tree for the configurations
the property needs, evaluates the property's rules, writes
/verif/evidence/<id>.json, prints VIOLATION / KNOWN-FINDING / OK lines.
Exit 0: every obligation discharged (or listed known finding); 1: violation;
2: infrastructure failure (no verdict)."""
import argparse
import concurrent.futures
import os
import sys
import time
import traceback

HERE = os.path.dirname(os.path.abspath(__file__))
sys.path.insert(0, HERE)

import extract  # noqa: E402
from core import RuleCtx, Ob, finish  # noqa: E402
from facts import FactBase  # noqa: E402
from model import Model  # noqa: E402
import props  # noqa: E402


CFG_FEATURES = {"K0": {"async"}, "K1": {"async", "interruptible"}, "K2": {"async", "graph_info"},
                "K3": {"async", "fn_meta", "resman", "fn_res"}, "K4": set()}


def cfg_features(cfg):
    if cfg in CFG_FEATURES:
        return CFG_FEATURES[cfg]
    if cfg.startswith("F:"):
        return set(x for x in cfg[2:].split(",") if x)
    return set()


def rule_applies(rule_cfgs, cfg):
    """a rule listed for named configurations applies to a feature set that
    contains the features of one of them"""
    if cfg in rule_cfgs:
        return True
    if not cfg.startswith("F:"):
        return False
    fs = cfg_features(cfg)
    return any(CFG_FEATURES.get(c, set()) <= fs and (c != "K4" or True) for c in rule_cfgs)


def all_feature_sets():
    import itertools
    feats = extract.ALL_FEATURES
    out = []
    for r in range(len(feats) + 1):
        for c in itertools.combinations(feats, r):
            out.append("F:" + ",".join(c))
    return out


def run_cfg(prop, cfg, repo):
    """returns (cfg, obs, info) or raises"""
    path, wall = extract.extract(cfg, repo=repo)
    fb = FactBase(path)
    try:
        os.unlink(path)
    except OSError:
        pass
    model = Model(fb)
    ctx = RuleCtx(prop, cfg, fb, model)
    spec = props.PROPS[prop]
    ran = []
    for rule_name, fn, cfgs, kwargs in spec["rules"]:
        if not rule_applies(cfgs, cfg):
            continue
        try:
            fn(ctx, **kwargs)
            ran.append(rule_name)
        except Exception:
            ctx.obs.append(Ob(rule_name, "internal-error", "unverifiable", "-",
                              "rule crashed (checker defect, fails closed): " + traceback.format_exc()[-800:], cfg))
    info = {
        "cfg": cfg, "features": fb.features, "bodies": len(fb.bodies), "fact_file_nonce": fb.nonce,
        "extract_wall_s": round(wall, 2), "rules": ran, "counts": ctx.counts,
        "model_errors": model.errors, "entry_points": len(model.entries),
    }
    return cfg, ctx.obs, info


def main():
    ap = argparse.ArgumentParser()
    ap.add_argument("prop")
    ap.add_argument("--tier", default=os.environ.get("VERIF_TIER", "quick"))
    ap.add_argument("--repo", default="/repo")
    ap.add_argument("--replay", default=None)
    a = ap.parse_args()
    if a.replay:
        print(open(a.replay).read())
        return 0
    t0 = time.time()
    seed = int(os.environ.get("VERIF_SEED", "0") or 0)
    prop = a.prop
    if prop not in props.PROPS:
        print("unknown property", prop)
        return 2
    spec = props.PROPS[prop]
    if spec.get("custom"):
        return spec["custom"](prop, a.tier, seed, a.repo, t0)
    cfgs = list(spec["cfgs_quick"])
    if a.tier == "thorough" and cfgs:
        # every combination of the crate's cargo features in which at least one rule of the property applies
        for c in all_feature_sets():
            if any(rule_applies(rc, c) for _, _, rc, _ in spec["rules"]) and c not in cfgs:
                cfgs.append(c)
    try:
        extract.ensure_driver()
    except extract.InfraError as e:
        print("INFRA: " + str(e))
        return 2
    obs = []
    infos = []
    skipped = []
    with concurrent.futures.ThreadPoolExecutor(max_workers=max(1, min(8, len(cfgs)))) as ex:
        futs = {ex.submit(run_cfg, prop, c, a.repo): c for c in cfgs}
        for f in concurrent.futures.as_completed(futs):
            c = futs[f]
            try:
                _, o, info = f.result()
                obs.extend(o)
                infos.append(info)
            except extract.BuildFailed as e:
                if spec["cfgs_quick"] and c == spec["cfgs_quick"][0]:
                    print("INFRA: base configuration %s does not build:\n%s" % (c, e.stderr[-2000:]))
                    return 2
                skipped.append({"cfg": c, "reason": "configuration does not build", "stderr_tail": e.stderr[-400:]})
            except extract.InfraError as e:
                print("INFRA: " + str(e))
                return 2
    infos.sort(key=lambda i: i["cfg"])
    winfos = []
    if spec.get("witnesses"):
        import witness
        for (wname, feats, extra_deps) in spec["witnesses"]:
            try:
                wobs, winfo = witness.run(wname, feats, repo=a.repo, extra_deps=extra_deps, prop=prop)
            except Exception:
                obs.append(Ob("W", "internal-error|%s" % wname, "unverifiable", "-", traceback.format_exc()[-600:]))
                continue
            if winfo.get("build_failed"):
                if not feats:
                    print("INFRA: fn_graph does not build with default features for witness %s:\n%s" % (wname, winfo.get("stderr_tail", "")))
                    return 2
                skipped.append({"cfg": "witness %s %s" % (wname, feats), "reason": "configuration does not build"})
                continue
            obs.extend(wobs)
            winfos.append(winfo)
    extra = {
        "witness_crates": winfos,
        "configurations": infos,
        "bodies_analysed": sum(i["bodies"] for i in infos),
        "rule": "one obligation per rule instance (site / entry point / exit kind) found in the MIR of each configuration; "
                "non-trivial = every obligation (each names a distinct construct); floors fail closed",
        "evaluations": len(obs),
        "distinct_nontrivial": len({o.key + "|" + str(o.cfg) for o in obs}),
        "not_decided": spec.get("not_decided", ""),
    }
    if a.tier == "thorough" and os.path.abspath(a.repo) == "/repo":
        # self-test of the checker (does not change the verdict on /repo): seeded changes of this
        # property must fire, benign variants must stay silent
        try:
            import selftest
            extra["selftest"] = selftest.for_property(prop)
        except Exception:
            extra["selftest"] = {"error": traceback.format_exc()[-800:]}
    return finish(prop, a.tier, seed, spec.get("level", "other"), obs, t0, spec["explanation"], spec["assumptions"], extra,
                  spec["technique"], skipped_cfgs=skipped, checker_cmd=spec.get("checker_cmd"), trusted_base=spec.get("trusted_base"))


if __name__ == "__main__":
    try:
        rc = main()
    except SystemExit:
        raise
    except BaseException:
        # never let a checker crash look like a verdict
        print("INFRA: checker crashed:\n" + traceback.format_exc()[-1500:])
        rc = 2
    sys.exit(rc)
