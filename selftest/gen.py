#!/usr/bin/env python3
"""Generates the checker's own self-test changes as patch files from
(file, old, new) replacement specs against /repo's current tree.
  mutants/<name>/patch.diff  must make the named property's check fire
  benign/<name>/patch.diff   behaviour-preserving variants: every check must stay silent
A spec whose `old` text is no longer present is skipped (recorded)."""
import json, os, shutil, subprocess, sys, tempfile

HERE = os.path.dirname(os.path.abspath(__file__))
REPO = "/repo"
FG = "src/fn_graph.rs"
AUG = "src/fn_graph_builder/data_edge_augmenter.rs"
BLD = "src/fn_graph_builder.rs"
RC = "src/fn_graph_builder/rank_calc.rs"
PC = "src/fn_graph_builder/predecessor_count_calc.rs"

M = []   # (name, property, summary, [(file, old, new, count)])


def m(name, prop, summary, *edits):
    M.append((name, prop, summary, edits))


B = []


def b(name, summary, *edits):
    B.append((name, None, summary, edits))


# ---- C01 / C11 ------------------------------------------------------------
m("c01-drop-ww-clause", "C01", "conflict predicate loses the write x write clause",
  (AUG, """                            || fn_borrow_muts
                                .iter()
                                .any(|left| fn_next_borrow_muts.iter().any(|right| left == right));""", ";", 1))
m("c01-and-instead-of-or", "C01", "first || of the conflict predicate becomes &&",
  (AUG, """.any(|left| fn_next_borrow_muts.iter().any(|right| left == right))
                            || fn_borrow_muts
                                .iter()
                                .any(|left| fn_next_borrows""", """.any(|left| fn_next_borrow_muts.iter().any(|right| left == right))
                            && fn_borrow_muts
                                .iter()
                                .any(|left| fn_next_borrows""", 1))
m("c01-all-instead-of-any", "C01", "write x read clause quantified with all() instead of any()",
  (AUG, """                            || fn_borrow_muts
                                .iter()
                                .any(|left| fn_next_borrows.iter().any(|right| left == right))""", """                            || fn_borrow_muts
                                .iter()
                                .all(|left| fn_next_borrows.iter().any(|right| left == right))""", 1))
m("c01-ne-instead-of-eq", "C01", "write x read clause compares declared types with != instead of ==",
  (AUG, """.any(|left| fn_next_borrows.iter().any(|right| left == right))""", """.any(|left| fn_next_borrows.iter().any(|right| left != right))""", 1))
m("c17-eq-asymmetric-projection", "C17", "GraphInfo == maps the other side's edges to (source, source, weight)",
  ("src/graph_info.rs", """        let other_edges = other
            .graph
            .raw_edges()
            .iter()
            .map(|e| (e.source(), e.target(), &e.weight));""", """        let other_edges = other
            .graph
            .raw_edges()
            .iter()
            .map(|e| (e.source(), e.source(), &e.weight));""", 1))
m("c01-counts-before-augment", "C01", "predecessor counts are computed before data-edge augmentation",
  (BLD, """        DataEdgeAugmenter::augment(&mut graph, &ranks);
        #[cfg(feature = "async")]
        let edge_counts = PredecessorCountCalc::calc(&graph);
""", """        #[cfg(feature = "async")]
        let edge_counts = PredecessorCountCalc::calc(&graph);
        DataEdgeAugmenter::augment(&mut graph, &ranks);
""", 1))
m("c01-r-table-swapped", "C01", "R<T>::borrow_muts (DataAccessDyn) declares T: readers look like writers",
  ("src/data_access/r.rs", """    fn borrow_muts(&self) -> TypeIds {
        TypeIds::new()
    }""", """    fn borrow_muts(&self) -> TypeIds {
        let mut type_ids = TypeIds::new();
        type_ids.push(TypeId::of::<T>());
        type_ids
    }""", 1))
m("c01-skip-same-rank", "C01", "pairs of equal rank are skipped by an extra filter",
  (AUG, """                .filter(|fn_id_next| fn_id != *fn_id_next);""",
   """                .filter(|fn_id_next| fn_id != *fn_id_next)
                .filter(|fn_id_next| ranks[fn_id.index()] != ranks[fn_id_next.index()]);""", 1))
m("c01-structure-skips-data-edges", "C01", "structure copies omit Data edges",
  (BLD, """            .try_for_each(|edge| {
                graph_structure""", """            .filter(|edge| edge.weight != Edge::Data)
            .try_for_each(|edge| {
                graph_structure""", 1))
m("c11-has-path-args-swapped", "C11", "has_path_connecting tested for (next, cur) instead of (cur, next)",
  (AUG, "has_path_connecting(&*graph, fn_id, fn_id_next, None)", "has_path_connecting(&*graph, fn_id_next, fn_id, None)", 1))
m("c11-no-has-path-guard", "C11", "Data edge inserted without the has_path_connecting guard",
  (AUG, "if !are_connected {", "if !are_connected || true {", 1))
m("c11-logic-weight-for-data-edge", "C11", "augmenter inserts Edge::Logic instead of Edge::Data",
  (AUG, ".update_edge(fn_id, fn_id_next, Edge::Data)", ".update_edge(fn_id, fn_id_next, Edge::Logic)", 1))
# ---- C02 ----------------------------------------------------------------
m("c02-release-at-le-1", "C02", "queuer releases a successor when its count is <= 1",
  (FG, """                        predecessor_counts[child_fn_id.index()] -= 1;
                        if predecessor_counts[child_fn_id.index()] == 0 {
                            if let Some(fn_ready_tx) = fn_ready_tx.as_ref() {
                                // If we fail to queue a function, the scheduler has been
                                // interrupted.
                                let _ = fn_ready_tx.try_send(child_fn_id);
                            }
                        }
                    });

                QueuerStreamState {""", """                        predecessor_counts[child_fn_id.index()] -= 1;
                        if predecessor_counts[child_fn_id.index()] <= 1 {
                            if let Some(fn_ready_tx) = fn_ready_tx.as_ref() {
                                // If we fail to queue a function, the scheduler has been
                                // interrupted.
                                let _ = fn_ready_tx.try_send(child_fn_id);
                            }
                        }
                    });

                QueuerStreamState {""", 1))
m("c02-reverse-uses-incoming", "C02", "reverse order walks the reversed structure with incoming counts",
  (FG, "StreamOrder::Reverse => (graph_structure_rev, edge_counts.outgoing().to_vec()),",
   "StreamOrder::Reverse => (graph_structure_rev, edge_counts.incoming().to_vec()),", 1))
m("c02-done-before-await", "C02", "for_each_concurrent reports done before awaiting the user future",
  (FG, """                        fn_for_each(r#fn).await;
                        fn_done_send_locked(fn_done_tx, fn_id).await;
                        fns_remaining_decrement(fns_remaining, fn_done_tx).await;
                    }

                    #[cfg(feature = "interruptible")]
                    fn_done_tx_drop_if_interrupted(fn_done_tx, interrupted).await;
                },
            )
            .await;

            let stream_outcome_state =""", """                        let fut = fn_for_each(r#fn);
                        fn_done_send_locked(fn_done_tx, fn_id).await;
                        fut.await;
                        fns_remaining_decrement(fns_remaining, fn_done_tx).await;
                    }

                    #[cfg(feature = "interruptible")]
                    fn_done_tx_drop_if_interrupted(fn_done_tx, interrupted).await;
                },
            )
            .await;

            let stream_outcome_state =""", 1))
m("c02-rev-stores-forward", "C02", "StreamOpts::rev() stores Forward",
  ("src/stream_opts.rs", "self.stream_order = StreamOrder::Reverse;", "self.stream_order = StreamOrder::Forward;", 1))
m("c02-double-decrement", "C02", "stream poll closure decrements a successor's count twice",
  (FG, """                        predecessor_counts[child_fn_id.index()] -= 1;
                        if predecessor_counts[child_fn_id.index()] == 0 {
                            if let Some(fn_ready_tx) = fn_ready_tx.as_ref() {
                                // If we fail to queue a function, the scheduler has been
                                // interrupted.
                                let _ = fn_ready_tx.try_send(child_fn_id);
                            }
                        }
                    });
            }""", """                        predecessor_counts[child_fn_id.index()] -= 1;
                        predecessor_counts[child_fn_id.index()] =
                            predecessor_counts[child_fn_id.index()].saturating_sub(1);
                        if predecessor_counts[child_fn_id.index()] == 0 {
                            if let Some(fn_ready_tx) = fn_ready_tx.as_ref() {
                                // If we fail to queue a function, the scheduler has been
                                // interrupted.
                                let _ = fn_ready_tx.try_send(child_fn_id);
                            }
                        }
                    });
            }""", 1))
m("c02-edgecounts-args-swapped", "C02", "EdgeCounts::new(outgoing, incoming)",
  (PC, "EdgeCounts::new(incoming, outgoing)", "EdgeCounts::new(outgoing, incoming)", 1))
m("c02-rev-structure-not-reversed", "C02", "graph_structure_rev is filled with (source, target)",
  (BLD, ".add_edge(edge.target(), edge.source(), edge.weight)", ".add_edge(edge.source(), edge.target(), edge.weight)", 1))
m("c02-getter-swapped", "C02", "EdgeCounts::incoming() returns the outgoing vector",
  ("src/edge_counts.rs", """    pub fn incoming(&self) -> &[usize] {
        self.incoming.as_ref()""", """    pub fn incoming(&self) -> &[usize] {
        self.outgoing.as_ref()""", 1))
m("c02-fold-state-before-await", "C02", "fold_async spawns the user future result into the seed only at the next step (returns state before completion)",
  (FG, """                        seed = fn_fold(seed, FnWrapper::new(r#fn)).await;
                        if let Some(fn_done_tx) = fn_done_tx.as_ref() {
                            fn_done_send(fn_done_tx, fn_id).await;
                        }""", """                        if let Some(fn_done_tx) = fn_done_tx.as_ref() {
                            fn_done_send(fn_done_tx, fn_id).await;
                        }
                        seed = fn_fold(seed, FnWrapper::new(r#fn)).await;""", 1))
# ---- C03 ----------------------------------------------------------------
m("c03-fixed-capacity", "C03", "ready/done channels get a fixed capacity of 16",
  (FG, """    let channel_capacity = std::cmp::max(1, graph_structure.node_count());
    let (fn_ready_tx, fn_ready_rx) = mpsc::channel(channel_capacity);""", """    let channel_capacity = std::cmp::min(16, std::cmp::max(1, graph_structure.node_count()));
    let (fn_ready_tx, fn_ready_rx) = mpsc::channel(channel_capacity);""", 1))
m("c03-preload-takes-8", "C03", "preload queues at most 8 roots",
  (FG, """        .filter(|fn_id| predecessor_counts[fn_id.index()] == 0)
}""", """        .filter(|fn_id| predecessor_counts[fn_id.index()] == 0)
        .take(8)
}""", 1))
m("c03-mut-lock-table-reversed", "C03", "the per-function lock table of for_each_concurrent_mut is built in reverse order",
  (FG, """        let fn_mut_refs = graph
            .node_weights_mut()
            .map(RwLock::new)
            .collect::<Vec<_>>();""", """        let mut fn_mut_refs = graph
            .node_weights_mut()
            .map(RwLock::new)
            .collect::<Vec<_>>();
        fn_mut_refs.reverse();""", 1))
# ---- C04 ----------------------------------------------------------------
m("c04-no-interrupted-release-fold", "C04", "fold_async forgets to drop the done-sender when interrupted",
  (FG, """                    #[cfg(feature = "interruptible")]
                    if interrupted {
                        fn_done_tx.take();
                    }

                    FoldStreamState {
                        graph,""", """                    #[cfg(feature = "interruptible")]
                    let _ = interrupted;

                    FoldStreamState {
                        graph,""", 1))
m("c04-no-finished-release-concurrent", "C04", "fns_remaining_decrement no longer drops the done-sender at 0",
  (FG, """    if fns_remaining_val == 0 {
        fn_done_tx.write().await.take();
    }""", """    let _ = (fns_remaining_val, fn_done_tx);""", 1))
m("c04-expect-on-release-try-send", "C04", "queuer unwraps the try_send of a released successor",
  (FG, """                                let _ = fn_ready_tx.try_send(child_fn_id);
                            }
                        }
                    });

                QueuerStreamState {""", """                                fn_ready_tx
                                    .try_send(child_fn_id)
                                    .expect("Failed to queue function.");
                            }
                        }
                    });

                QueuerStreamState {""", 1))
m("c04-no-failed-release-mut", "C04", "try_for_each_concurrent_mut does not drop the done-sender on Err",
  (FG, """                                .expect("Scheduler failed to send Err result in `result_tx`.");

                            // Close `fn_done_rx`, which means `fn_ready_queuer` should return
                            // `Poll::Ready(None)`.
                            fn_done_tx.write().await.take();
                        };

                        fn_done_send_locked(fn_done_tx, fn_id).await;
                        fns_remaining_decrement(fns_remaining, fn_done_tx).await;
                    }

                    #[cfg(feature = "interruptible")]
                    fn_done_tx_drop_if_interrupted(fn_done_tx, interrupted).await;
                },
            )
            .await;

            drop(result_tx);

            fn_ids_processed
        };

        let ((), fn_ids_processed) = futures::join!(queuer, scheduler);
        let stream_outcome_state = stream_outcome_state_after_stream(*fns_remaining.read().await);
        let stream_outcome =
            StreamOutcome::new(graph_structure, (), stream_outcome_state, fn_ids_processed);

        let results = stream::poll_fn(move |ctx| result_rx.poll_recv(ctx))
            .collect::<Vec<E>>()
            .await;

        if results.is_empty() {
            Ok(stream_outcome)
        } else {
            Err((stream_outcome, results))
        }
    }

    /// Returns an iterator that runs""", """                                .expect("Scheduler failed to send Err result in `result_tx`.");
                        };

                        fn_done_send_locked(fn_done_tx, fn_id).await;
                        fns_remaining_decrement(fns_remaining, fn_done_tx).await;
                    }

                    #[cfg(feature = "interruptible")]
                    fn_done_tx_drop_if_interrupted(fn_done_tx, interrupted).await;
                },
            )
            .await;

            drop(result_tx);

            fn_ids_processed
        };

        let ((), fn_ids_processed) = futures::join!(queuer, scheduler);
        let stream_outcome_state = stream_outcome_state_after_stream(*fns_remaining.read().await);
        let stream_outcome =
            StreamOutcome::new(graph_structure, (), stream_outcome_state, fn_ids_processed);

        let results = stream::poll_fn(move |ctx| result_rx.poll_recv(ctx))
            .collect::<Vec<E>>()
            .await;

        if results.is_empty() {
            Ok(stream_outcome)
        } else {
            Err((stream_outcome, results))
        }
    }

    /// Returns an iterator that runs""", 1))
m("c04-queuer-no-empty-release", "C04", "fn_ready_queuer keeps the ready-sender for an empty graph",
  (FG, """    let mut fn_ready_tx = Some(fn_ready_tx);
    if fns_remaining == 0 {
        fn_ready_tx.take();
    }
    let stream = stream::poll_fn""", """    let fn_ready_tx = Some(fn_ready_tx);
    let stream = stream::poll_fn""", 1))
m("c04-done-send-not-awaited", "C04", "for_each_concurrent_mut creates the done-send future but never awaits it",
  (FG, """                        fn_for_each(&mut r#fn).await;
                        fn_done_send_locked(fn_done_tx, fn_id).await;""", """                        fn_for_each(&mut r#fn).await;
                        let _ = fn_done_send_locked(fn_done_tx, fn_id);""", 1))
m("c04-release-not-awaited", "C04", "try_for_each_concurrent creates the countdown/release future but never awaits it",
  (FG, """                        fn_done_send_locked(fn_done_tx, fn_id).await;
                        fns_remaining_decrement(fns_remaining, fn_done_tx).await;
                    }

                    #[cfg(feature = "interruptible")]
                    fn_done_tx_drop_if_interrupted(fn_done_tx, interrupted).await;
                },
            )
            .await;

            drop(result_tx);

            fn_ids_processed
        };

        let ((), fn_ids_processed) = futures::join!(queuer, scheduler);
        let stream_outcome_state = stream_outcome_state_after_stream(*fns_remaining.read().await);
        let stream_outcome =
            StreamOutcome::new(graph_structure, (), stream_outcome_state, fn_ids_processed);

        let results = stream::poll_fn(move |ctx| result_rx.poll_recv(ctx))
            .collect::<Vec<E>>()
            .await;

        if results.is_empty() {
            Ok(stream_outcome)
        } else {
            Err((stream_outcome, results))
        }
    }

    /// Runs the provided logic over the functions concurrently in topological
    /// order, stopping when an error is encountered.
    ///
    /// This gracefully waits until all produced tasks have returned. The return
    /// error type is a `Vec<E>` as it is possible for multiple tasks to return
    /// errors.""", """                        fn_done_send_locked(fn_done_tx, fn_id).await;
                        drop(fns_remaining_decrement(fns_remaining, fn_done_tx));
                    }

                    #[cfg(feature = "interruptible")]
                    fn_done_tx_drop_if_interrupted(fn_done_tx, interrupted).await;
                },
            )
            .await;

            drop(result_tx);

            fn_ids_processed
        };

        let ((), fn_ids_processed) = futures::join!(queuer, scheduler);
        let stream_outcome_state = stream_outcome_state_after_stream(*fns_remaining.read().await);
        let stream_outcome =
            StreamOutcome::new(graph_structure, (), stream_outcome_state, fn_ids_processed);

        let results = stream::poll_fn(move |ctx| result_rx.poll_recv(ctx))
            .collect::<Vec<E>>()
            .await;

        if results.is_empty() {
            Ok(stream_outcome)
        } else {
            Err((stream_outcome, results))
        }
    }

    /// Runs the provided logic over the functions concurrently in topological
    /// order, stopping when an error is encountered.
    ///
    /// This gracefully waits until all produced tasks have returned. The return
    /// error type is a `Vec<E>` as it is possible for multiple tasks to return
    /// errors.""", 1))
# ---- C05 ----------------------------------------------------------------
m("c05-fnref-drop-expect", "C05", "FnRef::drop expects the send to succeed",
  ("src/fn_ref.rs", "let _ = self.fn_done_tx.try_send(self.fn_id);", 'self.fn_done_tx.try_send(self.fn_id).expect("stream dropped");', 1))
m("c05-no-empty-release-stream", "C05", "stream_internal keeps both senders for an empty graph",
  (FG, """        if fns_remaining == 0 {
            fn_done_tx.take();
            fn_ready_tx.take();
        }

        stream::poll_fn""", """        stream::poll_fn""", 1))
m("c05-countdown-unconditional", "C05", "the stream's countdown is decremented on every poll",
  (FG, """            if let Poll::Ready(Some(..)) = &poll {
                fns_remaining -= 1;
""", """            {
                fns_remaining = fns_remaining.saturating_sub(1);
""", 1))
# ---- C06 ----------------------------------------------------------------
m("c06-read-read-conflict", "C06", "conflict predicate also treats read x read as a conflict",
  (AUG, """                        let conflict = fn_borrows
                            .iter()
                            .any(|left| fn_next_borrow_muts.iter().any(|right| left == right))""", """                        let conflict = fn_borrows
                            .iter()
                            .any(|left| fn_next_borrows.iter().any(|right| left == right))
                            || fn_borrows
                            .iter()
                            .any(|left| fn_next_borrow_muts.iter().any(|right| left == right))""", 1))
m("c06-limit-forced-one", "C06", "for_each_concurrent_mut ignores the limit and runs one at a time",
  (FG, """            .for_each_concurrent(
                limit,
                |#[cfg(not(feature = "interruptible"))] fn_id,
                 #[cfg(feature = "interruptible")] fn_id_poll_outcome| async move {
                    #[cfg(not(feature = "interruptible"))]
                    let fn_id = Some(fn_id);
                    #[cfg(feature = "interruptible")]
                    let (fn_id, interrupted) = fn_id_from_interrupt(fn_id_poll_outcome);

                    if let Some(fn_id) = fn_id {
                        let mut r#fn = fn_mut_refs[fn_id.index()]
                            .try_write()
                            .expect("Expected to borrow fn mutably.");
                        fn_for_each(&mut r#fn).await;""", """            .for_each_concurrent(
                limit.into().map(|_| 1usize).or(Some(1)),
                |#[cfg(not(feature = "interruptible"))] fn_id,
                 #[cfg(feature = "interruptible")] fn_id_poll_outcome| async move {
                    #[cfg(not(feature = "interruptible"))]
                    let fn_id = Some(fn_id);
                    #[cfg(feature = "interruptible")]
                    let (fn_id, interrupted) = fn_id_from_interrupt(fn_id_poll_outcome);

                    if let Some(fn_id) = fn_id {
                        let mut r#fn = fn_mut_refs[fn_id.index()]
                            .try_write()
                            .expect("Expected to borrow fn mutably.");
                        fn_for_each(&mut r#fn).await;""", 1))
# ---- C07 ----------------------------------------------------------------
m("c07-error-send-not-awaited", "C07", "try_for_each_concurrent_mut creates the error send future but never awaits it",
  (FG, """                        if let Err(e) = fn_try_for_each(&mut r#fn).await {
                            result_tx_ref
                                .send(e)
                                .await
                                .expect("Scheduler failed to send Err result in `result_tx`.");""", """                        if let Err(e) = fn_try_for_each(&mut r#fn).await {
                            let _ = result_tx_ref.send(e);""", 1))
m("c07-result-capacity-one", "C07", "result channel of try_for_each_concurrent has capacity 1",
  (FG, """        let channel_capacity = std::cmp::max(1, graph_structure.node_count());
        let (result_tx, mut result_rx) = mpsc::channel(channel_capacity);

        let fn_done_tx = &fn_done_tx;
        let fn_try_for_each = &fn_try_for_each;
        let fns_remaining = &fns_remaining;
        let fn_refs = &self.graph;""", """        let (result_tx, mut result_rx) = mpsc::channel(1);

        let fn_done_tx = &fn_done_tx;
        let fn_try_for_each = &fn_try_for_each;
        let fns_remaining = &fns_remaining;
        let fn_refs = &self.graph;""", 1))
m("c07-control-adapter-break-ok", "C07", "try_for_each_concurrent_control_with maps Break(e) to Ok(())",
  (FG, """            .try_for_each_concurrent_internal(limit, opts, |f| {
                let fut = fn_try_for_each(f);
                async move {
                    match fut.await {
                        ControlFlow::Continue(()) => Result::Ok(()),
                        ControlFlow::Break(e) => Result::Err(e),""", """            .try_for_each_concurrent_internal(limit, opts, |f| {
                let fut = fn_try_for_each(f);
                async move {
                    match fut.await {
                        ControlFlow::Continue(()) => Result::Ok(()),
                        ControlFlow::Break(_e) if false => unreachable!(),
                        ControlFlow::Break(e) => { drop(e); return Result::Ok(()); }
                        #[allow(unreachable_patterns)]
                        ControlFlow::Break(e) => Result::Err(e),""", 1))
m("c07-done-before-result-check", "C07", "try_for_each_concurrent reports done before looking at the result",
  (FG, """                        let r#fn = fn_refs.node_weight(fn_id).expect("Expected to borrow fn.");
                        if let Err(e) = fn_try_for_each(r#fn).await {""", """                        let r#fn = fn_refs.node_weight(fn_id).expect("Expected to borrow fn.");
                        let result = fn_try_for_each(r#fn).await;
                        fn_done_send_locked(fn_done_tx, fn_id).await;
                        if let Err(e) = result {""", 1))
# ---- C08 ----------------------------------------------------------------
m("c08-with-ignores-opts", "C08", "for_each_concurrent_with ignores the caller's options",
  (FG, """        self.for_each_concurrent_internal(limit, opts, fn_for_each)
            .await
    }""", """        let _ = opts;
        self.for_each_concurrent_internal(limit, StreamOpts::default(), fn_for_each)
            .await
    }""", 1))
m("c08-include-flag-inverted", "C08", "poll_and_track_fn_ready inverts interrupted_next_item_include",
  (FG, "    if interrupted_next_item_include {\n        poll_and_track_fn_ready_common", "    if !interrupted_next_item_include {\n        poll_and_track_fn_ready_common", 1))
m("c08-interrupt-map-false", "C08", "fn_id_from_interrupt reports Interrupted as not interrupted",
  (FG, "PollOutcome::Interrupted(fn_id) => (fn_id, true),", "PollOutcome::Interrupted(fn_id) => (fn_id, false),", 1))
m("c08-no-interrupted-release-concurrent", "C08", "fn_done_tx_drop_if_interrupted does nothing",
  (FG, """    if interrupted {
        fn_done_tx.write().await.take();
    }
}""", """    let _ = (interrupted, fn_done_tx);
}""", 1))
# ---- C09 ----------------------------------------------------------------
m("c09-not-processed-inverted", "C09", "StreamOutcome::new lists the processed ids as not processed",
  ("src/stream_outcome.rs", """                if fn_ids_processed.contains(&fn_id) {
                    None
                } else {
                    Some(fn_id)
                }""", """                if fn_ids_processed.contains(&fn_id) {
                    Some(fn_id)
                } else {
                    None
                }""", 1))
m("c09-state-map-off-by-one", "C09", "one remaining function still counts as Finished",
  (FG, """        0 => StreamOutcomeState::Finished,""", """        0 | 1 => StreamOutcomeState::Finished,""", 1))
m("c09-control-interrupted-continues", "C09", "try_for_each_concurrent_control returns Continue for an interrupted run",
  (FG, """            Result::Ok(outcome) => match outcome.state {
                StreamOutcomeState::NotStarted | StreamOutcomeState::Interrupted => {
                    ControlFlow::Break((outcome, Vec::new()))
                }
                StreamOutcomeState::Finished => ControlFlow::Continue(outcome),
            },""", """            Result::Ok(outcome) => match outcome.state {
                StreamOutcomeState::NotStarted => ControlFlow::Break((outcome, Vec::new())),
                StreamOutcomeState::Interrupted | StreamOutcomeState::Finished => {
                    ControlFlow::Continue(outcome)
                }
            },""", 1))
m("c09-push-sorted", "C09", "processed ids are recorded sorted instead of in start order",
  (FG, """            fn_id_opt.inspect(|&fn_id| {
                fn_ids_processed.push(fn_id);
            })""", """            fn_id_opt.inspect(|&fn_id| {
                let pos = fn_ids_processed.partition_point(|x| *x < fn_id);
                fn_ids_processed.insert(pos, fn_id);
            })""", 1))
# ---- C10 ----------------------------------------------------------------
m("c10-limit-dropped-with", "C10", "try_for_each_concurrent_with drops the limit",
  (FG, """        self.try_for_each_concurrent_internal(limit, opts, fn_try_for_each)
            .await
    }""", """        let _ = limit.into();
        self.try_for_each_concurrent_internal(None, opts, fn_try_for_each)
            .await
    }""", 1))
# ---- C12 ----------------------------------------------------------------
m("c12-sort-unstable", "C12", "id list sorted with sort_unstable_by",
  (AUG, "fn_ids.sort_by(|fn_id_a, fn_id_b|", "fn_ids.sort_unstable_by(|fn_id_a, fn_id_b|", 1))
m("c12-comparator-reversed", "C12", "sort comparator compares b with a (descending rank)",
  (AUG, "ranks[fn_id_a.index()].cmp(&ranks[fn_id_b.index()])", "ranks[fn_id_b.index()].cmp(&ranks[fn_id_a.index()])", 1))
m("c12-edge-direction-swapped", "C12", "Data edge inserted from the later element to the earlier",
  (AUG, """                                .update_edge(fn_id, fn_id_next, Edge::Data)""", """                                .update_edge(fn_id_next, fn_id, Edge::Data)""", 1))
m("c12-eq-ignores-weight", "C12", "FnGraph == ignores the edge kind",
  (FG, """                        && edge_self.target() == edge_other.target()
                        && edge_self.weight == edge_other.weight""", """                        && edge_self.target() == edge_other.target()""", 1))
m("c12-inner-range-prefix", "C12", "inner scan ranges over the positions before the current element",
  (AUG, "let fn_rank_to_end_iter = fn_ids[index..]", "let fn_rank_to_end_iter = fn_ids[..index]", 1))
# ---- C13 ----------------------------------------------------------------
m("c13-plus-two", "C13", "child rank candidate is parent + 2",
  (RC, "let child_rank_maybe = fn_rank + 1;", "let child_rank_maybe = fn_rank + 2;", 1))
m("c13-seeds-leaves", "C13", "work queue seeded with nodes without children",
  (RC, "graph.parents(fn_id).walk_next(graph).is_none()", "graph.children(fn_id).walk_next(graph).is_none()", 1))
m("c13-no-requeue", "C13", "raised children are not re-queued",
  (RC, """                        fn_ids.push_back(child_fn_id);
""", """                        let _ = &mut fn_ids;
""", 1))
# ---- C14 ----------------------------------------------------------------
m("c14-iter-uses-rev", "C14", "iter() walks the reversed structure",
  (FG, """        Topo::new(&self.graph_structure)
            .iter(&self.graph_structure)
            .map(|fn_id| &self.graph[fn_id])
    }

    /// Returns an iterator of function references in reverse topological order.""", """        Topo::new(&self.graph_structure_rev)
            .iter(&self.graph_structure_rev)
            .map(|fn_id| &self.graph[fn_id])
    }

    /// Returns an iterator of function references in reverse topological order.""", 1))
m("c14-iter-rev-mismatch", "C14", "iter_rev creates Topo over the reversed structure but steps it over the forward one",
  (FG, """        Topo::new(&self.graph_structure_rev)
            .iter(&self.graph_structure_rev)""", """        Topo::new(&self.graph_structure_rev)
            .iter(&self.graph_structure)""", 1))
m("c14-iter-insertion-rev", "C14", "iter_insertion_with_indices is filtered",
  (FG, """    pub fn iter_insertion(&self) -> impl ExactSizeIterator<Item = &F> + DoubleEndedIterator {
        use daggy::petgraph::visit::IntoNodeReferences;
        self.graph.node_references().map(|(_, function)| function)""", """    pub fn iter_insertion(&self) -> impl ExactSizeIterator<Item = &F> + DoubleEndedIterator {
        use daggy::petgraph::visit::IntoNodeReferences;
        self.graph.node_references().rev().map(|(_, function)| function)""", 1))
# ---- C15 / C20 ------------------------------------------------------------
m("c15-static-run-counter", "C15", "a static counter makes every second run skip the preload",
  (FG, """    fns_no_predecessors_preload(graph_structure, &predecessor_counts, &fn_ready_tx);

    StreamSetupInit {""", """    static RUNS: std::sync::atomic::AtomicUsize = std::sync::atomic::AtomicUsize::new(0);
    if RUNS.fetch_add(1, std::sync::atomic::Ordering::Relaxed) % 1000 != 999 {
        fns_no_predecessors_preload(graph_structure, &predecessor_counts, &fn_ready_tx);
    }

    StreamSetupInit {""", 1))
m("c15-mut-run-clears-ranks", "C15", "for_each_concurrent_mut clears the ranks of the graph",
  (FG, """        let &mut FnGraph {
            ref mut graph,
            ref graph_structure,
            ref graph_structure_rev,
            ranks: _,
            ref edge_counts,
        } = self;

        let StreamSetupInitConcurrent {""", """        self.ranks.clear();
        let &mut FnGraph {
            ref mut graph,
            ref graph_structure,
            ref graph_structure_rev,
            ranks: _,
            ref edge_counts,
        } = self;

        let StreamSetupInitConcurrent {""", 1))
m("c15-cell-in-edge-counts", "C15", "EdgeCounts gains an interior-mutable hit counter (positive control for the deep-immutability walk)",
  ("src/edge_counts.rs", """    /// Number of outgoing (child) edges.
    outgoing: Vec<usize>,
}""", """    /// Number of outgoing (child) edges.
    outgoing: Vec<usize>,
    /// Number of times the counts were read.
    hits: std::cell::Cell<usize>,
}""", 1),
  ("src/edge_counts.rs", "Self { incoming, outgoing }", "Self { incoming, outgoing, hits: std::cell::Cell::new(0) }", 1))
m("c20-cell-in-edge-counts", "C20", "EdgeCounts gains an interior-mutable hit counter",
  ("src/edge_counts.rs", """    /// Number of outgoing (child) edges.
    outgoing: Vec<usize>,
}""", """    /// Number of outgoing (child) edges.
    outgoing: Vec<usize>,
    /// Number of times the counts were read.
    hits: std::cell::Cell<usize>,
}""", 1),
  ("src/edge_counts.rs", "Self { incoming, outgoing }", "Self { incoming, outgoing, hits: std::cell::Cell::new(0) }", 1))
m("c20-unsafe-static-scratch", "C20", "a static mut scratch buffer shared by all runs",
  (FG, """    fns_no_predecessors_preload(graph_structure, &predecessor_counts, &fn_ready_tx);

    StreamSetupInit {""", """    static mut LAST_CAPACITY: usize = 0;
    #[allow(static_mut_refs)]
    unsafe {
        LAST_CAPACITY = channel_capacity;
    }
    fns_no_predecessors_preload(graph_structure, &predecessor_counts, &fn_ready_tx);

    StreamSetupInit {""", 1))
# ---- C16 ----------------------------------------------------------------
m("c16-args-swapped", "C16", "add_contains_edge passes (to, from)",
  (BLD, ".update_edge(function_from, function_to, Edge::Contains)", ".update_edge(function_to, function_from, Edge::Contains)", 1))
m("c16-contains-uses-logic", "C16", "add_contains_edge inserts Edge::Logic",
  (BLD, ".update_edge(function_from, function_to, Edge::Contains)", ".update_edge(function_from, function_to, Edge::Logic)", 1))
m("c16-add-edge-not-update", "C16", "add_logic_edge uses add_edge (parallel edges possible)",
  (BLD, ".update_edge(function_from, function_to, Edge::Logic)", ".add_edge(function_from, function_to, Edge::Logic)", 1))
m("c16-batch-reversed", "C16", "add_logic_edges applies the edges in reverse order",
  (BLD, """        IntoIterator::into_iter(edges)
            .zip(edge_ids.iter_mut())
            .try_for_each(|((fn_from, fn_to), edge_id)| {
                self.add_logic_edge(fn_from, fn_to).map(|edge_index| {""", """        IntoIterator::into_iter(edges)
            .zip(edge_ids.iter_mut())
            .rev()
            .try_for_each(|((fn_from, fn_to), edge_id)| {
                self.add_logic_edge(fn_from, fn_to).map(|edge_index| {""", 1))
# ---- C17 ----------------------------------------------------------------
m("c17-drops-data-edges", "C17", "GraphInfo::from_graph filters out Data edges",
  ("src/graph_info.rs", """            .iter()
            .map(|e| (e.source(), e.target(), e.weight));""", """            .iter()
            .filter(|e| e.weight != Edge::Data)
            .map(|e| (e.source(), e.target(), e.weight));""", 1))
m("c17-source-target-swapped", "C17", "GraphInfo edges have source and target swapped",
  ("src/graph_info.rs", ".map(|e| (e.source(), e.target(), e.weight));", ".map(|e| (e.target(), e.source(), e.weight));", 1))
m("c17-iter-rev-forward", "C17", "GraphInfo::iter_rev walks the graph forwards",
  ("src/graph_info.rs", """        let reversed = Reversed(&self.graph);
        Topo::new(reversed)
            .iter(reversed)""", """        let reversed = Reversed(&self.graph);
        let _ = reversed;
        Topo::new(&self.graph)
            .iter(&self.graph)""", 1))
m("c17-serde-skip-serializing", "C17", "GraphInfo.graph is not serialised (asymmetric serde attribute)",
  ("src/graph_info.rs", """    /// The underlying directed acyclic graph.
    pub graph: Dag<NodeInfo, Edge, FnIdInner>,""", """    /// The underlying directed acyclic graph.
    #[serde(skip_serializing)]
    pub graph: Dag<NodeInfo, Edge, FnIdInner>,""", 1))
m("c17-serde-rename-variant", "C17", "Edge::Data is written under another name than it is read (asymmetric rename)",
  ("src/edge.rs", """    Data,""", """    #[cfg_attr(feature = "graph_info", serde(rename(serialize = "DataAccess")))]
    Data,""", 1))
m("c09-outcome-gets-fresh-vec", "C09", "for_each_concurrent reports a clone of the processed ids taken before the run",
  (FG, """            let stream_outcome_state =
                stream_outcome_state_after_stream(*fns_remaining.read().await);
            StreamOutcome::new(graph_structure, (), stream_outcome_state, fn_ids_processed)""", """            let stream_outcome_state =
                stream_outcome_state_after_stream(*fns_remaining.read().await);
            let reported = Vec::with_capacity(fn_ids_processed.len());
            StreamOutcome::new(graph_structure, (), stream_outcome_state, reported)""", 1))
# ---- C19 ----------------------------------------------------------------
m("c19-fnref-not-send", "C19", "FnRef gains an Rc marker and stops being Send",
  ("src/fn_ref.rs", """    /// Channel to notify when this reference is dropped.
    pub(crate) fn_done_tx: Sender<FnId>,
}""", """    /// Channel to notify when this reference is dropped.
    pub(crate) fn_done_tx: Sender<FnId>,
    /// Marker.
    pub(crate) marker: std::marker::PhantomData<std::rc::Rc<()>>,
}""", 1),
  (FG, """                            fn_done_tx: fn_done_tx.clone(),
                        }""", """                            fn_done_tx: fn_done_tx.clone(),
                            marker: std::marker::PhantomData,
                        }""", 1))
m("c19-local-future-in-concurrent", "C19", "for_each_concurrent holds an Rc across an await",
  (FG, """        let fn_done_tx = &fn_done_tx;
        let fn_for_each = &fn_for_each;
        let fns_remaining = &fns_remaining;
        let fn_refs = graph;

        if graph_structure.node_count() == 0 {
            fn_done_tx.write().await.take();
        }""", """        let fn_done_tx = &fn_done_tx;
        let fn_for_each = &fn_for_each;
        let fns_remaining = &fns_remaining;
        let fn_refs = graph;
        let run_marker = std::rc::Rc::new(());

        if graph_structure.node_count() == 0 {
            fn_done_tx.write().await.take();
        }
        let _ = &run_marker;""", 1))

# ---- benign variants --------------------------------------------------------
b("benign-max-method", "channel capacity spelled n.max(1)",
  (FG, """    let channel_capacity = std::cmp::max(1, graph_structure.node_count());
    let (fn_ready_tx, fn_ready_rx) = mpsc::channel(channel_capacity);""", """    let channel_capacity = graph_structure.node_count().max(1);
    let (fn_ready_tx, fn_ready_rx) = mpsc::channel(channel_capacity);""", 1))
b("benign-rename-locals", "locals renamed in the queuer release loop",
  (FG, """                    .for_each(|(_edge_id, child_fn_id)| {
                        predecessor_counts[child_fn_id.index()] -= 1;
                        if predecessor_counts[child_fn_id.index()] == 0 {
                            if let Some(fn_ready_tx) = fn_ready_tx.as_ref() {
                                // If we fail to queue a function, the scheduler has been
                                // interrupted.
                                let _ = fn_ready_tx.try_send(child_fn_id);
                            }
                        }
                    });

                QueuerStreamState {""", """                    .for_each(|(_e, succ)| {
                        let slot = succ.index();
                        predecessor_counts[slot] -= 1;
                        if predecessor_counts[slot] == 0 {
                            if let Some(tx) = fn_ready_tx.as_ref() {
                                let _ = tx.try_send(succ);
                            }
                        }
                    });

                QueuerStreamState {""", 1))
b("benign-sort-by-key", "sort_by replaced by the equivalent stable sort_by_key",
  (AUG, "fn_ids.sort_by(|fn_id_a, fn_id_b| ranks[fn_id_a.index()].cmp(&ranks[fn_id_b.index()]));",
   "fn_ids.sort_by_key(|fn_id| ranks[fn_id.index()]);", 1))
b("benign-rank-max-form", "rank relaxation written with max() and a raise test",
  (RC, """                    if child_rank_maybe > child_rank_existing {
                        ranks[child_fn_id.index()] = child_rank_maybe;

                        fn_ids.push_back(child_fn_id);
                    }""", """                    if child_rank_existing < child_rank_maybe {
                        ranks[child_fn_id.index()] = child_rank_maybe;
                        fn_ids.push_back(child_fn_id);
                    }""", 1))
b("benign-reorder-independent", "independent statements reordered in stream_setup_init",
  (FG, """    let (fn_ready_tx, fn_ready_rx) = mpsc::channel(channel_capacity);
    let (fn_done_tx, fn_done_rx) = mpsc::channel::<FnId>(channel_capacity);
""", """    let (fn_done_tx, fn_done_rx) = mpsc::channel::<FnId>(channel_capacity);
    let (fn_ready_tx, fn_ready_rx) = mpsc::channel(channel_capacity);
""", 1))
b("benign-helper-extraction", "empty-graph release moved into a helper function",
  (FG, """        if graph_structure.node_count() == 0 {
            fn_done_tx.write().await.take();
        }
        let scheduler = async move {
            let mut fn_ids_processed = Vec::with_capacity(graph_structure.node_count());
            poll_and_track_fn_ready(
                fn_ready_rx,
                &mut fn_ids_processed,
                #[cfg(feature = "interruptible")]
                interruptibility_state,
                #[cfg(feature = "interruptible")]
                interrupted_next_item_include,
            )
            .for_each_concurrent(
                limit,
                |#[cfg(not(feature = "interruptible"))] fn_id,
                 #[cfg(feature = "interruptible")] fn_id_poll_outcome| async move {
                    #[cfg(not(feature = "interruptible"))]
                    let fn_id = Some(fn_id);
                    #[cfg(feature = "interruptible")]
                    let (fn_id, interrupted) = fn_id_from_interrupt(fn_id_poll_outcome);

                    if let Some(fn_id) = fn_id {
                        let r#fn = fn_refs.node_weight(fn_id).expect("Expected to borrow fn.");
                        fn_for_each(r#fn).await;""", """        fn_done_tx_drop_if_empty(fn_done_tx, graph_structure).await;
        let scheduler = async move {
            let mut fn_ids_processed = Vec::with_capacity(graph_structure.node_count());
            poll_and_track_fn_ready(
                fn_ready_rx,
                &mut fn_ids_processed,
                #[cfg(feature = "interruptible")]
                interruptibility_state,
                #[cfg(feature = "interruptible")]
                interrupted_next_item_include,
            )
            .for_each_concurrent(
                limit,
                |#[cfg(not(feature = "interruptible"))] fn_id,
                 #[cfg(feature = "interruptible")] fn_id_poll_outcome| async move {
                    #[cfg(not(feature = "interruptible"))]
                    let fn_id = Some(fn_id);
                    #[cfg(feature = "interruptible")]
                    let (fn_id, interrupted) = fn_id_from_interrupt(fn_id_poll_outcome);

                    if let Some(fn_id) = fn_id {
                        let r#fn = fn_refs.node_weight(fn_id).expect("Expected to borrow fn.");
                        fn_for_each(r#fn).await;""", 1),
  (FG, """/// Drops `fn_done_tx` if interrupted.""", """/// Drops `fn_done_tx` if the graph is empty.
#[cfg(feature = "async")]
async fn fn_done_tx_drop_if_empty(
    fn_done_tx: &RwLock<Option<Sender<NodeIndex<FnIdInner>>>>,
    graph_structure: &Dag<(), Edge, FnIdInner>,
) {
    if graph_structure.node_count() == 0 {
        fn_done_tx.write().await.take();
    }
}

/// Drops `fn_done_tx` if interrupted.""", 1))
b("benign-for-loop-release", "stream release loop written as a for loop over the walker",
  (FG, """                graph_structure
                    .children(fn_id)
                    .iter(graph_structure)
                    .for_each(|(_edge_id, child_fn_id)| {
                        predecessor_counts[child_fn_id.index()] -= 1;
                        if predecessor_counts[child_fn_id.index()] == 0 {
                            if let Some(fn_ready_tx) = fn_ready_tx.as_ref() {
                                // If we fail to queue a function, the scheduler has been
                                // interrupted.
                                let _ = fn_ready_tx.try_send(child_fn_id);
                            }
                        }
                    });
            }""", """                for (_edge_id, child_fn_id) in graph_structure.children(fn_id).iter(graph_structure) {
                    predecessor_counts[child_fn_id.index()] -= 1;
                    if predecessor_counts[child_fn_id.index()] == 0 {
                        if let Some(fn_ready_tx) = fn_ready_tx.as_ref() {
                            let _ = fn_ready_tx.try_send(child_fn_id);
                        }
                    }
                }
            }""", 1))
b("benign-ne-zero-guard", "release guard written as `!= 0 {} else {send}`",
  (FG, """                        predecessor_counts[child_fn_id.index()] -= 1;
                        if predecessor_counts[child_fn_id.index()] == 0 {
                            if let Some(fn_ready_tx) = fn_ready_tx.as_ref() {
                                // If we fail to queue a function, the scheduler has been
                                // interrupted.
                                let _ = fn_ready_tx.try_send(child_fn_id);
                            }
                        }
                    });

                QueuerStreamState {""", """                        predecessor_counts[child_fn_id.index()] -= 1;
                        if predecessor_counts[child_fn_id.index()] != 0 {
                            return;
                        }
                        if let Some(fn_ready_tx) = fn_ready_tx.as_ref() {
                            let _ = fn_ready_tx.try_send(child_fn_id);
                        }
                    });

                QueuerStreamState {""", 1))
b("benign-comments-and-blank-lines", "comments and blank lines added, lines shifted",
  (FG, "use std::{\n    fmt::Debug,", "// A comment that shifts every line of the file.\n//\n// And another one.\n\nuse std::{\n    fmt::Debug,", 1),
  (AUG, "use std::marker::PhantomData;", "// shifted\n\n\nuse std::marker::PhantomData;", 1))


b("benign-release-by-assignment", "done-sender released by assigning None instead of take()",
  (FG, """        let fns_remaining = graph_structure.node_count();
        let mut fn_done_tx = Some(fn_done_tx);
        if fns_remaining == 0 {
            fn_done_tx.take();
        }
        let fold_stream_state = FoldStreamState {
            graph,
            fns_remaining,
            fn_done_tx,
            seed,
            fn_fold,
        };""", """        let fns_remaining = graph_structure.node_count();
        let mut fn_done_tx = Some(fn_done_tx);
        if fns_remaining == 0 {
            fn_done_tx = None;
        }
        let fold_stream_state = FoldStreamState {
            graph,
            fns_remaining,
            fn_done_tx,
            seed,
            fn_fold,
        };""", 1))
b("benign-loop-match-drain", "done receiver drained with loop/match/break instead of while let",
  (FG, """            while let Poll::Ready(Some(fn_id)) = fn_done_rx.poll_recv(context) {
                graph_structure""", """            loop {
                let fn_id = match fn_done_rx.poll_recv(context) {
                    Poll::Ready(Some(fn_id)) => fn_id,
                    Poll::Ready(None) | Poll::Pending => break,
                };
                graph_structure""", 1))
b("benign-conflict-with-contains", "conflict predicate written with contains() and clauses reordered",
  (AUG, """                        let conflict = fn_borrows
                            .iter()
                            .any(|left| fn_next_borrow_muts.iter().any(|right| left == right))
                            || fn_borrow_muts
                                .iter()
                                .any(|left| fn_next_borrows.iter().any(|right| left == right))
                            || fn_borrow_muts
                                .iter()
                                .any(|left| fn_next_borrow_muts.iter().any(|right| left == right));""", """                        let conflict = fn_borrow_muts
                            .iter()
                            .any(|left| fn_next_borrow_muts.contains(left))
                            || fn_borrow_muts.iter().any(|left| fn_next_borrows.contains(left))
                            || fn_borrows
                                .iter()
                                .any(|left| fn_next_borrow_muts.contains(left));""", 1))
b("benign-try-send-ok", "`let _ = try_send(..)` spelled `.ok();`",
  ("src/fn_ref.rs", "let _ = self.fn_done_tx.try_send(self.fn_id);", "self.fn_done_tx.try_send(self.fn_id).ok();", 1))
b("benign-swap-add-node-order", "the two structure copies add their node in the other order",
  (BLD, """            graph_structure.add_node(());
            graph_structure_rev.add_node(());""", """            graph_structure_rev.add_node(());
            graph_structure.add_node(());""", 1))
b("benign-capacity-plus-one", "channel capacity node_count + 1",
  (FG, """    let channel_capacity = std::cmp::max(1, graph_structure.node_count());
    let (fn_ready_tx, fn_ready_rx) = mpsc::channel(channel_capacity);""", """    let channel_capacity = graph_structure.node_count() + 1;
    let (fn_ready_tx, fn_ready_rx) = mpsc::channel(channel_capacity);""", 1))
b("benign-rank-via-max", "rank relaxation keeps max() and re-queues only on a raise",
  (RC, """                    if child_rank_maybe > child_rank_existing {
                        ranks[child_fn_id.index()] = child_rank_maybe;

                        fn_ids.push_back(child_fn_id);
                    }""", """                    let child_rank_new = std::cmp::max(child_rank_existing, child_rank_maybe);
                    if child_rank_new > child_rank_existing {
                        ranks[child_fn_id.index()] = child_rank_new;
                        fn_ids.push_back(child_fn_id);
                    }""", 1))
b("benign-inline-done-send-locked", "fn_done_send_locked inlined at one call site",
  (FG, """                        fn_for_each(r#fn).await;
                        fn_done_send_locked(fn_done_tx, fn_id).await;
                        fns_remaining_decrement(fns_remaining, fn_done_tx).await;
                    }

                    #[cfg(feature = "interruptible")]
                    fn_done_tx_drop_if_interrupted(fn_done_tx, interrupted).await;
                },
            )
            .await;

            let stream_outcome_state =""", """                        fn_for_each(r#fn).await;
                        if let Some(tx) = fn_done_tx.read().await.as_ref() {
                            fn_done_send(tx, fn_id).await;
                        }
                        fns_remaining_decrement(fns_remaining, fn_done_tx).await;
                    }

                    #[cfg(feature = "interruptible")]
                    fn_done_tx_drop_if_interrupted(fn_done_tx, interrupted).await;
                },
            )
            .await;

            let stream_outcome_state =""", 1))
b("benign-iter-insertion-via-raw-nodes", "GraphInfo / eq keep using iter_insertion; toposort helper reused by iter",
  (FG, """        Topo::new(&self.graph_structure)
            .iter(&self.graph_structure)
            .map(|fn_id| &self.graph[fn_id])
    }

    /// Returns an iterator of function references in reverse topological order.""", """        self.toposort()
            .iter(&self.graph_structure)
            .map(|fn_id| &self.graph[fn_id])
    }

    /// Returns an iterator of function references in reverse topological order.""", 1))


def apply(edits, dst):
    for (f, old, new, cnt) in edits:
        p = os.path.join(dst, f)
        s = open(p).read()
        if s.count(old) < 1:
            return "pattern not found in %s: %r" % (f, old[:60])
        s = s.replace(old, new, cnt)
        open(p, "w").write(s)
    return None


def gen(specs, outdir):
    os.makedirs(outdir, exist_ok=True)
    skipped = []
    for (name, prop, summary, edits) in specs:
        tmp = tempfile.mkdtemp(prefix="gen_")
        a = os.path.join(tmp, "a")
        bdir = os.path.join(tmp, "b")
        shutil.copytree(os.path.join(REPO, "src"), os.path.join(a, "src"))
        shutil.copytree(os.path.join(REPO, "src"), os.path.join(bdir, "src"))
        err = apply(edits, bdir)
        if err:
            skipped.append((name, err))
            shutil.rmtree(tmp)
            continue
        d = subprocess.run(["diff", "-ruN", "a/src", "b/src"], cwd=tmp, stdout=subprocess.PIPE, text=True).stdout
        od = os.path.join(outdir, name)
        os.makedirs(od, exist_ok=True)
        open(os.path.join(od, "patch.diff"), "w").write(d)
        json.dump({"property": prop, "summary": summary, "origin": "checker self-test (written with the rules; no run-time demonstration)"},
                  open(os.path.join(od, "meta.json"), "w"), indent=1)
        shutil.rmtree(tmp)
    return skipped


if __name__ == "__main__":
    sk = gen(M, os.path.join(HERE, "mutants")) + gen(B, os.path.join(HERE, "benign"))
    print("generated %d mutants, %d benign; skipped: %s" % (len(M), len(B), sk))
