#!/usr/bin/env python3
"""merge fast-regression JSONs into /verif/selftest/results/selftest-<kind>.json (same record shape as selftest.py writes)"""
import json, sys, os, re
kind = sys.argv[1]; srcs = sys.argv[2:]
dst = "/verif/selftest/results/selftest-%s.json" % kind
cur = json.load(open(dst))
byname = {r["name"]: r for r in cur}
kd = {"seeded": "/verif/seeded", "own": "/verif/selftest/mutants", "benign": "/verif/selftest/benign"}[kind]
for s in srcs:
    for name, r in json.load(open(s)).items():
        if not os.path.isdir(os.path.join(kd, name)): continue
        try: prop = json.load(open(os.path.join(kd, name, "meta.json"))).get("property")
        except Exception: prop = None
        fired = [p for p in r["fired"] if re.match(r"^C\d\d$", p)]
        keys = {p: [re.sub(r" \[(violation|unverifiable)\].*$", "", k) for k in r["keys"].get(p, [])][:6] for p in fired}
        rec = {"name": name, "status": "ran", "property": prop, "fired": fired, "infra": [p for p in r["fired"] if p not in fired],
               "keys": keys, "infra_msg": {}, "wall_s": None, "source": "fast regression driver (one extraction per configuration, all 20 rule sets), rules of the final commit"}
        byname[name] = rec
out = sorted(byname.values(), key=lambda r: r["name"])
json.dump(out, open(dst, "w"), indent=1)
print(kind, len(cur), "->", len(out))
