"""Fact base loader and MIR helpers (A0-A2 of DESIGN.md).

The fact base is the JSON written by engine/mirfacts for one configuration of
/repo. Nothing in here executes the analysed code.
"""
import json
from collections import defaultdict


class Body:
    def __init__(self, j, fb):
        self.j = j
        self.fb = fb
        self.id = j["id"]
        self.kind = j["kind"]
        self.coroutine_kind = j.get("coroutine_kind")
        self.parent = j.get("parent")
        self.root = j.get("root", self.id)
        self.blocks = j["blocks"]
        self.locals = j["locals"]
        self.arg_count = j["arg_count"]
        self.sp = j["sp"]
        self.captures = j.get("captures", [])
        self.debug = j.get("debug", [])
        self._succ = None
        self._pred = None
        self._dom = None
        self._pdom = None
        self._names = None

    # -- naming ------------------------------------------------------------
    def local_names(self):
        """debug names: local index -> name (only for plain locals)."""
        if self._names is None:
            n = {}
            for d in self.debug:
                pl = d.get("pl")
                if pl and not pl["p"]:
                    n.setdefault(pl["l"], d["name"])
            self._names = n
        return self._names

    def upvar_names(self):
        """field index of _1 -> captured variable name (closures/coroutines)."""
        out = {}
        for d in self.debug:
            pl = d.get("pl")
            if pl and pl["l"] == 1 and pl["p"]:
                for e in pl["p"]:
                    if isinstance(e, dict) and "f" in e:
                        out.setdefault(e["f"], d["name"])
                        break
        return out

    def loc(self, bb=None, si=None):
        sp = self.sp
        if bb is not None:
            blk = self.blocks[bb]
            if si is not None and si < len(blk["stmts"]):
                sp = blk["stmts"][si]["sp"]
            else:
                sp = blk["term"]["sp"]
        return "%s:%d" % (sp["file"], sp["line"])

    # -- CFG ---------------------------------------------------------------
    def term(self, bb):
        return self.blocks[bb]["term"]

    def succs(self, bb, unwind=False, imaginary=False, coroutine_drop=False):
        t = self.blocks[bb]["term"]
        k = t["k"]
        out = []
        if k in ("goto", "drop", "assert", "false_unwind"):
            out.append(t["target"])
        elif k == "false_edge":
            out.append(t["target"])
            if imaginary:
                out.append(t["imaginary"])
        elif k == "switch":
            out.extend(x[1] for x in t["targets"])
            out.append(t["otherwise"])
        elif k == "call":
            if t["target"] is not None:
                out.append(t["target"])
        elif k == "yield":
            out.append(t["resume"])
            if coroutine_drop and t.get("drop") is not None:
                out.append(t["drop"])
        if unwind and t.get("unwind") is not None:
            out.append(t["unwind"])
        seen = []
        for s in out:
            if s not in seen:
                seen.append(s)
        return seen

    def normal_succ(self):
        if self._succ is None:
            self._succ = [self.succs(i) for i in range(len(self.blocks))]
            pred = [[] for _ in self.blocks]
            for i, ss in enumerate(self._succ):
                for s in ss:
                    pred[s].append(i)
            self._pred = pred
        return self._succ

    def normal_pred(self):
        self.normal_succ()
        return self._pred

    def reachable(self, start=0, succ=None, avoid=()):
        succ = succ or self.normal_succ()
        seen = set()
        st = [start]
        while st:
            b = st.pop()
            if b in seen or b in avoid:
                continue
            seen.add(b)
            st.extend(succ[b])
        return seen

    def forward_succ(self):
        """normal successors without back edges (edges into a dominating block)"""
        fs = getattr(self, "_fsucc", None)
        if fs is None:
            dom = self.dominators()
            fs = []
            for b, ss in enumerate(self.normal_succ()):
                fs.append([s for s in ss if not (b in dom and s in dom[b])])
            self._fsucc = fs
        return fs

    def reachable_fwd(self, start, avoid=()):
        """blocks reachable from start within one loop iteration (no back edges)"""
        return self.reachable(start, succ=self.forward_succ(), avoid=avoid)

    def dominators(self):
        """dom[b] = set of blocks dominating b (normal edges, from entry 0)."""
        if self._dom is None:
            succ = self.normal_succ()
            pred = self.normal_pred()
            reach = self.reachable(0)
            allb = set(reach)
            dom = {b: set(allb) for b in reach}
            dom[0] = {0}
            order = self._rpo(0, succ)
            changed = True
            while changed:
                changed = False
                for b in order:
                    if b == 0:
                        continue
                    ps = [p for p in pred[b] if p in reach]
                    if not ps:
                        continue
                    new = set.intersection(*(dom[p] for p in ps)) | {b}
                    if new != dom[b]:
                        dom[b] = new
                        changed = True
            self._dom = dom
        return self._dom

    def _rpo(self, start, succ):
        seen = set()
        order = []

        def dfs(b):
            stack = [(b, iter(succ[b]))]
            seen.add(b)
            while stack:
                n, it = stack[-1]
                adv = False
                for s in it:
                    if s not in seen:
                        seen.add(s)
                        stack.append((s, iter(succ[s])))
                        adv = True
                        break
                if not adv:
                    order.append(n)
                    stack.pop()
        dfs(start)
        order.reverse()
        return order

    def dominates(self, a, b):
        d = self.dominators()
        return b in d and a in d[b]

    def exits(self):
        """normal exit blocks (return terminators)."""
        return [i for i, b in enumerate(self.blocks) if b["term"]["k"] == "return"]

    def all_paths_pass(self, src, via, dst_set):
        """True iff every normal path from src to any block in dst_set passes
        through a block in `via` (must-pass-through)."""
        via = set(via)
        if src in via:
            return True
        reach = self.reachable(src, avoid=via)
        return not (reach & set(dst_set))

    # -- instruction iteration --------------------------------------------
    def calls(self):
        for i, b in enumerate(self.blocks):
            t = b["term"]
            if t["k"] == "call":
                yield i, t

    def stmts(self):
        for i, b in enumerate(self.blocks):
            for si, s in enumerate(b["stmts"]):
                yield i, si, s

    def back_edges(self):
        """(src, header) pairs where header dominates src."""
        dom = self.dominators()
        out = []
        for b in dom:
            for s in self.normal_succ()[b]:
                if s in dom.get(b, ()):  # s dominates b
                    out.append((b, s))
        return out

    def natural_loop(self, src, header):
        body = {header}
        st = [src]
        pred = self.normal_pred()
        while st:
            n = st.pop()
            if n in body:
                continue
            body.add(n)
            st.extend(pred[n])
        return body


def callee_path(t):
    c = t.get("callee")
    if not c:
        return None
    return c["path"]


def callee_resolved(t):
    c = t.get("callee")
    if not c:
        return None
    r = c.get("resolved")
    if isinstance(r, dict):
        return r["path"]
    return None


def is_param_call(t):
    """Call of Fn/FnMut/FnOnce through a type parameter -> name of the param."""
    c = t.get("callee")
    if not c:
        ct = t.get("callee_ty")
        if ct and ct.get("k") == "param":
            return ct.get("def")
        return None
    if c.get("trait") in ("core::ops::function::Fn", "core::ops::function::FnMut", "core::ops::function::FnOnce",
                          "std::ops::Fn", "std::ops::FnMut", "std::ops::FnOnce"):
        st = c.get("self_ty") or {}
        k = st.get("k")
        if k == "param":
            return st.get("def")
    return None


def _norm(p):
    """`core::`/`alloc::` and `std::` name the same library items depending on
    where rustc's path printer found them: use `std::` throughout."""
    if isinstance(p, str):
        if p.startswith("core::"):
            return "std::" + p[6:]
        if p.startswith("alloc::"):
            return "std::" + p[7:]
    return p


def _normalise_paths(j):
    local_fn_ids = {f["id"] for f in j.get("fns", [])} | {b["id"] for b in j.get("bodies", [])}

    def fix_callee(c):
        if not isinstance(c, dict):
            return
        for k in ("path", "trait"):
            if k in c:
                c[k] = _norm(c[k])
        r = c.get("resolved")
        if isinstance(r, dict) and "path" in r:
            r["path"] = _norm(r["path"])
            # a method of a crate-local trait called on a type whose crate-local impl the compiler resolved (`lock.close_after_last(..)`
            # of a private extension trait): for every rule this is a call of that impl's method, like a call of a free helper
            if c.get("trait") and c.get("local") and r.get("local") and r["path"] != c.get("path") and r["path"] in local_fn_ids:
                c["trait_method"] = c["path"]
                c["path"] = r["path"]

    def fix_op(o):
        if isinstance(o, dict) and o.get("k") == "const" and "fn" in o:
            fix_callee(o["fn"])
    for b in j["bodies"]:
        for blk in b["blocks"]:
            for s in blk["stmts"]:
                rv = s.get("rv")
                if rv:
                    if "def" in rv:
                        rv["def"] = _norm(rv["def"])
                    for k in ("op", "a", "b"):
                        if k in rv:
                            fix_op(rv[k])
                    for o in rv.get("ops", []):
                        fix_op(o)
            t = blk["term"]
            if t["k"] == "call":
                fix_callee(t.get("callee"))
                for a in t["args"]:
                    fix_op(a)
    for f in j["fns"]:
        if "impl_trait" in f:
            f["impl_trait"] = _norm(f["impl_trait"])
    for i in j["impls"]:
        if "trait" in i:
            i["trait"] = _norm(i["trait"])


class FactBase:
    def __init__(self, path):
        with open(path) as f:
            self.j = json.load(f)
        _normalise_paths(self.j)
        self.path = path
        self.crate = self.j["crate"]
        self.nonce = self.j["nonce"]
        self.features = self.j["features"]
        self.bodies = {}
        for b in self.j["bodies"]:
            self.bodies[b["id"]] = Body(b, self)
        self.fns = {f["id"]: f for f in self.j["fns"]}
        self.adts = {a["id"]: a for a in self.j["adts"]}
        self.impls = self.j["impls"]
        self.statics = self.j["statics"]
        self.unsafe_blocks = self.j["unsafe_blocks"]
        self.typewalk = {w["id"]: w for w in self.j["typewalk"]}
        self.children = defaultdict(list)
        for b in self.bodies.values():
            if b.parent:
                self.children[b.parent].append(b.id)

    def body(self, id_):
        return self.bodies.get(id_)

    def find_bodies(self, pred):
        return [b for b in self.bodies.values() if pred(b)]

    def descendants(self, id_):
        """body ids nested (closures, async blocks) inside `id_`, incl itself."""
        out = [id_]
        for c in self.children.get(id_, []):
            out.extend(self.descendants(c))
        return out

    def is_test_body(self, b):
        return "::tests::" in b.id or b.id.endswith("::tests")

    def prod_bodies(self):
        return [b for b in self.bodies.values() if not self.is_test_body(b)]


# ---------------------------------------------------------------------------
# pretty printing (debugging aid and violation slices)

def fmt_place(p, body=None):
    s = "_%d" % p["l"]
    if body is not None:
        n = body.local_names().get(p["l"])
        if n:
            s = "%s/*%s*/" % (s, n)
    for e in p["p"]:
        if e == "*":
            s = "(*%s)" % s
        elif isinstance(e, dict):
            if "f" in e:
                s = "%s.%d" % (s, e["f"])
                if body is not None and p["l"] == 1 and body.kind in ("closure", "coroutine"):
                    un = body.upvar_names().get(e["f"])
                    if un and s.count(".") == 1:
                        s += "/*%s*/" % un
            elif "i" in e:
                s = "%s[_%d]" % (s, e["i"])
            elif "d" in e:
                s = "(%s as %s)" % (s, e.get("name", e["d"]))
            elif "ci" in e:
                s = "%s[%d]" % (s, e["ci"])
            else:
                s = "%s{%s}" % (s, e)
        else:
            s = "%s.%s" % (s, e)
    return s


def fmt_op(o, body=None):
    if o["k"] in ("copy", "move"):
        return ("move " if o["k"] == "move" else "") + fmt_place(o["pl"], body)
    if o["k"] == "const":
        if "fn" in o:
            return "fn:" + o["fn"]["full"]
        return "const %s" % o["val"]
    return str(o)


def fmt_rv(rv, body=None):
    k = rv["k"]
    if k == "use":
        return fmt_op(rv["op"], body)
    if k == "ref":
        return "&%s%s" % ("mut " if rv["bk"] == "mut" else ("fake " if rv["bk"] == "fake" else ""), fmt_place(rv["pl"], body))
    if k == "binop":
        return "%s(%s, %s)" % (rv["op"], fmt_op(rv["a"], body), fmt_op(rv["b"], body))
    if k == "unop":
        return "%s(%s)" % (rv["op"], fmt_op(rv["a"], body))
    if k == "discr":
        return "discriminant(%s)" % fmt_place(rv["pl"], body)
    if k == "agg":
        ak = rv["ak"]
        hd = ak
        if ak == "adt":
            hd = "%s::%s" % (rv["def"], rv["variant"])
        elif ak in ("closure", "coroutine", "coroutine_closure"):
            hd = "%s{%s}" % (ak, rv["def"])
        return "%s(%s)" % (hd, ", ".join(fmt_op(o, body) for o in rv["ops"]))
    if k == "cast":
        return "%s as %s [%s]" % (fmt_op(rv["op"], body), rv["ty"], rv["ck"])
    if k == "copy_for_deref":
        return "deref_copy %s" % fmt_place(rv["pl"], body)
    if k == "rawptr":
        return "&raw %s" % fmt_place(rv["pl"], body)
    if k == "repeat":
        return "[%s; %s]" % (fmt_op(rv["op"], body), rv["n"])
    return str(rv)


def fmt_term(t, body=None):
    k = t["k"]
    if k == "call":
        c = t.get("callee")
        name = c["full"] if c else "(%s)" % fmt_op(t["func"], body)
        res = ""
        if c:
            r = c.get("resolved")
            if isinstance(r, dict) and r["path"] != c["path"]:
                res = " [=> %s]" % r["path"]
            elif r is None:
                res = " [unresolved]"
        return "%s = %s(%s)%s -> bb%s" % (fmt_place(t["dest"], body), name,
                                        ", ".join(fmt_op(a, body) for a in t["args"]), res, t["target"])
    if k == "switch":
        return "switch(%s) [%s, otherwise: bb%d]" % (fmt_op(t["discr"], body),
                                                     ", ".join("%s: bb%d" % (v, b) for v, b in t["targets"]), t["otherwise"])
    if k in ("goto", "false_unwind"):
        return "%s -> bb%d" % (k, t["target"])
    if k == "false_edge":
        return "false_edge -> bb%d (imag bb%d)" % (t["target"], t["imaginary"])
    if k == "drop":
        return "drop(%s) -> bb%d" % (fmt_place(t["pl"], body), t["target"])
    if k == "assert":
        return "assert(%s == %s, %s) -> bb%d" % (fmt_op(t["cond"], body), t["expected"], t["msg"], t["target"])
    if k == "yield":
        return "yield(%s) -> resume bb%d, drop bb%s" % (fmt_op(t["value"], body), t["resume"], t["drop"])
    return k


def dump_body(b, out=None):
    lines = []
    lines.append("// %s  [%s %s] %s" % (b.id, b.kind, b.coroutine_kind or "", b.loc()))
    for i, l in enumerate(b.locals):
        nm = b.local_names().get(i, "")
        lines.append("  let _%d: %s; // %s" % (i, l["s"], nm))
    if b.captures:
        lines.append("  // captures: " + ", ".join("%d:%s(%s)" % (i, c["var"], c["by"]) for i, c in enumerate(b.captures)))
    for i, blk in enumerate(b.blocks):
        lines.append(" bb%d%s:" % (i, " (cleanup)" if blk.get("cleanup") else ""))
        for s in blk["stmts"]:
            if s["k"] == "assign":
                lines.append("    %s = %s;   // L%d%s" % (fmt_place(s["pl"], b), fmt_rv(s["rv"], b), s["sp"]["line"],
                                                        " exp:" + s["sp"].get("desugar", s["sp"].get("macro", "")) if s["sp"].get("exp") else ""))
            else:
                lines.append("    %s" % s)
        t = blk["term"]
        lines.append("    %s;   // L%d%s" % (fmt_term(t, b), t["sp"]["line"],
                                            " exp:" + t["sp"].get("desugar", t["sp"].get("macro", "")) if t["sp"].get("exp") else ""))
    txt = "\n".join(lines)
    if out:
        out.write(txt + "\n")
    return txt


if __name__ == "__main__":
    import sys
    fb = FactBase(sys.argv[1])
    pat = sys.argv[2] if len(sys.argv) > 2 else None
    for b in fb.bodies.values():
        if pat is None:
            print(b.kind, b.coroutine_kind or "-", b.id, len(b.blocks), b.loc())
        elif pat in b.id:
            print(dump_body(b))
            print()
