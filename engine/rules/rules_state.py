"""C15 / C20: non-interference premises N1-N5 (DESIGN.md section 5)."""
from analysis import (E, Src, expr_operand, expr_place, fmt_expr, fmt_src, get_defs, strip_refs, walk_expr)
from facts import callee_path
from model import short
from rules_sched import structure_roles
from rules_build import DAG_MUTATORS, build_reach

IMMUTABLE_ROOTS = ("fn_graph::FnGraph", "edge_counts::EdgeCounts", "rank::Rank", "edge::Edge", "fn_id_inner::FnIdInner")
ALLOWED_MUT_GRAPH = {
    "std::ops::IndexMut::index_mut", "daggy::Dag::<N, E, Ix>::node_weights_mut", "daggy::Dag::<N, E, Ix>::node_weight_mut",
    "std::ops::DerefMut::deref_mut", "std::ops::Deref::deref", "std::ops::Index::index",
}


def peel(ty):
    while True:
        if ty.startswith("&mut "):
            ty = ty[5:]
        elif ty.startswith("&"):
            ty = ty[1:]
            # lifetimes like &'a T
            if ty.startswith("'"):
                ty = ty.split(" ", 1)[1] if " " in ty else ty
        else:
            return ty


def fngraph_field_accesses(body, place):
    """[(field index)] for projections of `place` that select a field of a FnGraph value"""
    cur = body.locals[place["l"]]["s"]
    out = []
    for pr in place["p"]:
        if pr == "*":
            if cur.startswith("&mut "):
                cur = cur[5:]
            elif cur.startswith("&"):
                cur = peel(cur) if cur.startswith("&'") else cur[1:]
            continue
        if isinstance(pr, dict) and "f" in pr:
            if peel(cur).startswith("fn_graph::FnGraph<"):
                out.append(pr["f"])
            cur = pr["ty"]
        elif isinstance(pr, dict) and ("i" in pr or "ci" in pr):
            continue
        elif isinstance(pr, dict) and "d" in pr:
            continue
    return out


def N_rules(ctx, rule="N"):
    fb, m, fl = ctx.fb, ctx.model, ctx.model.flow
    roles = structure_roles(ctx)
    # N1: deep immutability
    for root in IMMUTABLE_ROOTS:
        w = fb.typewalk.get(root)
        if w is None:
            ctx.unverifiable(rule + "1", "typewalk|%s" % root, "-", "type %s not found in the crate" % root)
            continue
        cells = [c for c in w["cells"]]
        ctx.check(not cells, rule + "1", "no-cell|%s" % root, "%s (%d types visited)" % (root, w["types_visited"]),
                  "nothing reachable through `&%s` (fields, generic arguments, pointees; stopping at type parameters) contains an UnsafeCell" % w["root"],
                  "interior mutability reachable through &%s: %s" % (w["root"], cells[:3]))
    # N2: unsafe
    user_unsafe = [u for u in fb.unsafe_blocks if not u.get("exp")]
    ctx.check(not user_unsafe, rule + "2", "no-unsafe-block", "-",
              "the crate contains no hand-written `unsafe` block (%d compiler/library expansions of .await / join! / pin! are excluded)" % (
                  len(fb.unsafe_blocks) - len(user_unsafe)),
              "unsafe block(s) at %s" % [(u["sp"]["file"], u["sp"]["line"]) for u in user_unsafe[:5]])
    # `derive(Clone, Copy)` on this nightly emits `unsafe impl TrivialClone` (automatically derived): not hand-written
    unsafe_impls = [i for i in fb.impls if i.get("safety") == "Unsafe" and not i.get("derived")]
    okimpls = True
    for i in unsafe_impls:
        if not (i.get("trait", "").endswith("IndexType") and i["self_ty"] == "fn_id_inner::FnIdInner"):
            okimpls = False
            ctx.bad(rule + "2", "unsafe-impl|%s" % i["id"][:60], "%s:%d" % (i["sp"]["file"], i["sp"]["line"]),
                    "unexpected `unsafe impl %s for %s`" % (i.get("trait"), i["self_ty"]))
    # IndexType for FnIdInner: new/index wrap/unwrap unchanged, max = usize::MAX
    idx_ok = {}
    for b in fb.prod_bodies():
        sig = fb.fns.get(b.id, {})
        if (sig.get("impl_trait") or "").endswith("IndexType") and sig.get("impl_self") == "fn_id_inner::FnIdInner":
            from rules_sched import return_expr
            re_ = return_expr(b)
            nm = sig["name"]
            if nm == "new":
                idx_ok[nm] = re_ is not None and re_.kind == "agg" and re_[2] == "fn_id_inner::FnIdInner" and strip_refs(re_[4][0]) == E(("arg", 1))
            elif nm == "index":
                r = strip_refs(re_) if re_ is not None else None
                idx_ok[nm] = r is not None and r.kind == "field" and r[2] == 0 and strip_refs(r[1]) == E(("arg", 1))
            elif nm == "max":
                idx_ok[nm] = re_ is not None and re_.kind == "agg" and re_[4] and re_[4][0].kind == "const" and \
                    str(re_[4][0][1]) in (str(2 ** 64 - 1), "usize::MAX")
    ctx.check(okimpls and idx_ok.get("new") and idx_ok.get("index") and idx_ok.get("max"), rule + "2", "indextype", "src/fn_id_inner.rs",
              "the only `unsafe impl` is IndexType for FnIdInner, whose new/index wrap and unwrap the usize unchanged and max is usize::MAX",
              "IndexType for FnIdInner is not the identity wrapper: %s" % idx_ok)
    # N3: statics / thread locals
    bad_static = [s for s in fb.statics if s["mut"] or not s["freeze"] or s["thread_local"]]
    tl_refs = []
    for b in fb.prod_bodies():
        for bb, si, s in b.stmts():
            if s["k"] == "assign" and s["rv"]["k"] == "thread_local_ref":
                tl_refs.append(m.where(b, bb, si))
        for bb, t in b.calls():
            p = callee_path(t) or ""
            if p.startswith("std::thread::LocalKey") or p.startswith("std::sync::OnceLock") or p.startswith("std::sync::LazyLock"):
                tl_refs.append(m.where(b, bb))
    ctx.check(not bad_static and not tl_refs, rule + "3", "no-global-state", "-",
              "no `static mut`, no non-Freeze static, no thread_local!/OnceLock/LazyLock use in the crate (%d statics inspected)" % len(fb.statics),
              "global mutable state: statics %s, thread-local/once uses %s" % ([s["id"] for s in bad_static], tl_refs[:3]))
    # N5: writes / mutable borrows of FnGraph fields
    if roles is None:
        ctx.unverifiable(rule + "5", "roles", "-", "structure roles not found")
        return
    gidx = roles["graph"]
    fields = m.fngraph_fields()
    n_acc = 0
    viol = 0
    for b in fb.prod_bodies():
        rsig = fb.fns.get(b.root) or {}
        if (rsig.get("impl_self") or "").startswith("fn_graph_builder::FnGraphBuilder") and not rsig.get("public"):
            continue        # a private step of build(): the value is still under construction, nobody else can hold it yet
        for bb, si, s in b.stmts():
            if s["k"] != "assign":
                continue
            # direct write
            for f in fngraph_field_accesses(b, s["pl"]):
                n_acc += 1
                # writing *through* graph (e.g. graph[i] = ..) selects field graph first; only scheduling fields matter
                if f != gidx:
                    viol += 1
                    ctx.bad(rule + "5", "write|%s|%s" % (short(b.id), fields[f]), m.where(b, bb, si),
                            "FnGraph.%s is written after construction: a run could change what later / concurrent runs see" % fields[f])
            rv = s["rv"]
            if rv["k"] in ("ref", "rawptr") and rv.get("bk") in ("mut", "Mut", "raw") or (rv["k"] == "rawptr"):
                for f in fngraph_field_accesses(b, rv["pl"]):
                    n_acc += 1
                    if f != gidx:
                        viol += 1
                        ctx.bad(rule + "5", "mut-borrow|%s|%s" % (short(b.id), fields[f]), m.where(b, bb, si),
                                "FnGraph.%s is borrowed mutably: scheduling state may be changed by a run" % fields[f])
    if not viol:
        ctx.ok(rule + "5", "no-field-writes", "-",
               "no body of the crate writes or mutably borrows graph_structure / graph_structure_rev / ranks / edge_counts of an existing FnGraph (%d field accesses of kind write/&mut inspected, all on `graph`)" % n_acc)
    # &mut Dag<F> only to node-weight accessors (outside build())
    breach = {b.id for b in build_reach(ctx)}
    n_mut = 0
    for b in fb.prod_bodies():
        if b.id in breach:
            continue
        sig = fb.fns.get(b.root, {})
        for bb, t in b.calls():
            p = callee_path(t) or ""
            for a in t["args"]:
                ty = a.get("pl", {}).get("ty", "")
                if ty.startswith("&mut daggy::Dag<F,") or ty.startswith("&mut fn_graph::FnGraph<"):
                    n_mut += 1
                    if p in fb.bodies or (t.get("callee") or {}).get("local"):
                        continue
                    if p in DAG_MUTATORS or p not in ALLOWED_MUT_GRAPH:
                        # builder methods legitimately mutate their own Dag
                        if (fb.fns.get(b.root, {}).get("impl_self") or "").startswith("fn_graph_builder::FnGraphBuilder<"):
                            continue
                        ctx.bad(rule + "5", "graph-mutator|%s|%s" % (short(b.id), p.split("::")[-1]), m.where(b, bb),
                                "`&mut graph` of a built FnGraph is passed to %s (only node-weight accessors are allowed during runs)" % p)
    ctx.ok(rule + "5", "mut-graph-uses", "-", "%d uses of `&mut Dag<F>`/`&mut FnGraph` outside build(): all node-weight accessors / crate-local" % n_mut)
    # N4: per-run state is allocated inside the call: role allocation sites live in bodies reachable from entries
    if m.async_cfg and m.SETUP:
        setup = fb.bodies[m.SETUP]
        ctx.check(setup.kind == "fn" and not any(s["mut"] for s in fb.statics), rule + "4", "per-call-alloc", m.where(setup),
                  "READY/DONE channels and the counts copy are allocated inside %s, called afresh by every streaming call; no role allocation can reach a FnGraph field (N5) or a static (N3)" % short(setup.id),
                  "per-run state is not allocated per call")
