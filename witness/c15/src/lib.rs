//! C15 / C20 must-compile witness.
#![allow(dead_code, clippy::all)]
use fn_graph::FnGraph;

fn assert_sync<T: Sync>(_: &T) {}

/// Several shared-reference runs may be in progress on one graph at once (C20): the borrow
/// checker accepts it for every F because they only need `&FnGraph`.
pub fn two_shared_runs_at_once<F: Sync>(g: &FnGraph<F>) {
    let a = g.for_each_concurrent(None::<usize>, |_f: &F| async {});
    let b = g.try_for_each_concurrent(None::<usize>, |_f: &F| async { Ok::<(), ()>(()) });
    let s = g.stream();
    drop((a, b, s));
}

/// A graph can be run again after an earlier run was created and dropped midway (C15): nothing
/// of the first run outlives its future.
pub fn run_again_after_drop<F>(g: &mut FnGraph<F>) {
    let a = g.for_each_concurrent_mut(None::<usize>, |_f: &mut F| async {});
    drop(a);
    let b = g.for_each_concurrent_mut(None::<usize>, |_f: &mut F| async {});
    drop(b);
    let c = g.for_each_concurrent(None::<usize>, |_f: &F| async {});
    drop(c);
}

/// Shared runs from several threads need `FnGraph<F>: Sync`.
pub fn graph_is_sync<F: Send + Sync>(g: &FnGraph<F>) {
    assert_sync(g);
}
