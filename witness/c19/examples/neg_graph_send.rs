// expect: E0277 cannot be sent between threads safely
// Twin of graph_is_send_sync without `F: Send`: the assertion must be rejected.
use fn_graph::FnGraph;
fn assert_send<T: Send>(_: &T) {}
pub fn graph_is_send<F: Sync>(g: &FnGraph<F>) {
    assert_send(g);
}
fn main() {}
