#!/usr/bin/env python3
"""runpatch.py name=patch ... : apply each to a scratch copy of /repo and run allcheck; prints per-name result"""
import sys, os, json, subprocess, shutil, concurrent.futures
sys.path.insert(0, "/verif/engine/rules")
import selftest
def one(arg):
    name, patch = arg.split("=", 1)
    tmp, dst, err = selftest.make_scratch("/repo", patch)
    if tmp is None:
        return name, {"PATCH": [err]}
    try:
        r = subprocess.run([sys.executable, "" + os.path.join(os.path.dirname(os.path.abspath(__file__)), "allcheck.py") + "", dst, "--witness"], stdout=subprocess.PIPE, stderr=subprocess.PIPE, text=True)
        try: return name, json.loads(r.stdout.strip().splitlines()[-1])
        except Exception: return name, {"CRASH": [r.stdout[-300:] + r.stderr[-500:]]}
    finally:
        shutil.rmtree(tmp, ignore_errors=True)
with concurrent.futures.ThreadPoolExecutor(int(os.environ.get("JOBS", "6"))) as ex:
    for name, res in ex.map(one, sys.argv[1:]):
        print("==", name, "fired:", sorted(res.keys()))
        if os.environ.get("V"):
            for p, ks in res.items():
                for k in ks[:int(os.environ.get("V"))]: print("    ", p, k)
