#!/usr/bin/env python3
"""allcheck.py <repo> [--witness]: one extraction per cfg, all props' rules; prints JSON {prop: [keys]} of non-ok obligations"""
import sys, os, json, traceback, concurrent.futures
RULES = os.environ.get("RULES_DIR", "/verif/engine/rules")
sys.path.insert(0, RULES)
import extract, props, check
from core import RuleCtx, Ob
from facts import FactBase
from model import Model
repo = sys.argv[1]
with_w = "--witness" in sys.argv
extract.ensure_driver()
cfgs = ["K0", "K1", "K2", "K3", "K4"]
def load(c):
    try:
        path, wall = extract.extract(c, repo=repo)
    except extract.BuildFailed as e:
        return c, None, e.stderr[-600:]
    fb = FactBase(path)
    try: os.unlink(path)
    except OSError: pass
    return c, (fb, Model(fb)), ""
loaded = {}
with concurrent.futures.ThreadPoolExecutor(5) as ex:
    for c, v, err in ex.map(load, cfgs):
        loaded[c] = (v, err)
out = {}
if loaded["K0"][0] is None:
    print(json.dumps({"BUILD": [loaded["K0"][1]]})); sys.exit(0)
for p, spec in props.PROPS.items():
    bad = []
    for c in spec["cfgs_quick"]:
        v, err = loaded[c]
        if v is None:
            bad.append("cfg %s does not build" % c); continue
        fb, model = v
        ctx = RuleCtx(p, c, fb, model)
        for rn, fn, rc, kw in spec["rules"]:
            if not check.rule_applies(rc, c): continue
            try: fn(ctx, **kw)
            except Exception:
                ctx.obs.append(Ob(rn, "internal-error", "unverifiable", "-", traceback.format_exc()[-300:], c))
        bad += ["%s @%s [%s] %s" % (o.key, c, o.status, (o.msg or "")[:160]) for o in ctx.obs if o.status != "ok"]
    if with_w and spec.get("witnesses"):
        import witness
        for (wn, feats, extra) in spec["witnesses"]:
            try:
                wobs, winfo = witness.run(wn, feats, repo=repo, extra_deps=extra, prop=p)
                if winfo.get("build_failed"):
                    if not feats: bad.append("witness build failed")
                    continue
                bad += ["%s @W [%s] %s" % (o.key, o.status, (o.msg or "")[:160]) for o in wobs if o.status != "ok"]
            except Exception:
                bad.append("witness crashed " + traceback.format_exc()[-200:])
    if bad: out[p] = bad
print(json.dumps(out))
