"""Run-time rules beyond S/T: C02 fold await-before-return, C03 extras,
C07 F1-F5, C08 I1-I2, C09 O1-O4, C10 L1-L2, C14 Q1-Q5, C17 G1-G5."""
from analysis import (E, Src, awaits, expr_operand, expr_place, expr_local, expr_rvalue, fmt_expr, fmt_src, get_defs,
                      guards_of, strip_proj, strip_refs, switch_expr, walk_expr, upvar_index)
from facts import callee_path, is_param_call
from model import CHANNEL_FNS, SEND_FNS, RECV_FNS, short
from rules_sched import (NODE_COUNT_FNS, TAKE, cond_guards, guard_eq_zero, is_const, sources_of_expr, interrupt_mapper,
                         effective_sites, user_awaits, structure_roles, iterator_chain, closure_of_arg, return_expr,
                         SELECTIVE_ITER, NEUTRAL_ITER, MORE_ITER, ALL_NODE_SOURCES, LOOKUP_FNS, node_index_arg, const_val, loop_region)
from rules_term import release_sites, is_pre_scheduler_body

FOR_EACH_CONCURRENT = "futures::StreamExt::for_each_concurrent"
TOPO_NEW = "daggy::petgraph::visit::Topo::<N, VM>::new"
TOPO_NEXT = "daggy::petgraph::visit::Topo::<N, VM>::next"
WALKER_ITER = "daggy::Walker::iter"


def entry_where(e):
    return "%s:%d (FnGraph::%s)" % (e["sp"]["file"], e["sp"]["line"], e["name"])


def entry_param_index(e, pred):
    """1-based local index of the entry's parameter whose type satisfies pred"""
    for i, inp in enumerate(e["inputs"]):
        if pred(inp["s"]):
            return i + 1
    return None


# ---------------------------------------------------------------------------
# C10

def L6(ctx, rule="L6", sinks=None):
    """every invocation of the caller's function in the concurrent families happens inside the body driven by the one
    `for_each_concurrent` over the tracked ready stream: that driver is what applies the limit and what the interruption
    wrapper gates"""
    m, fb, fl = ctx.model, ctx.fb, ctx.model.flow
    if sinks is None:
        sinks = [(b, bb, t) for b in fb.prod_bodies() for bb, t in b.calls() if callee_path(t) == FOR_EACH_CONCURRENT]
        if not sinks:
            ctx.unverifiable(rule, "floor", "-", "no for_each_concurrent call found")
            return
    # every invocation of the caller's function in these families happens inside the body driven by that limited
    # for_each_concurrent: a side path (`join_all`, `buffer_unordered`, a fast path for graphs without edges) starts functions
    # the limit never sees
    under = set()
    for (b, bb, t) in sinks:
        if len(t["args"]) > 2:
            cbody = closure_of_arg(ctx, b, expr_operand(b, t["args"][2]))
            if cbody is not None:
                under |= set(m.reach(cbody.id)) | {x for x in fb.bodies if x == cbody.id or x.startswith(cbody.id + "::")}
    for e in m.entries:
        if m.family(e) not in ("for_each", "try_for_each"):
            continue
        for pb in m.per_item_bodies(e["id"]):
            if pb.id in under:
                continue
            # an adapting closure (or a coroutine inside one) handed as THE callback to a sibling entry point: it runs where that
            # sibling invokes its callback, which is checked there
            top = pb
            while top is not None and top.kind == "coroutine" and top.parent:
                top = fb.bodies.get(top.parent)
            us_ = fl.closure_uses(top) if top is not None and top.kind == "closure" else []
            if us_ and all(((ut_.get("callee") or {}).get("local") or ((ut_.get("callee") or {}).get("resolved") or {}).get("local"))
                           and (callee_path(ut_) or "") in fb.bodies or
                           ((ut_.get("callee") or {}).get("resolved") or {}).get("path") in fb.bodies for (_, _, ut_, _) in us_):
                continue
            if True:
                ctx.bad(rule, "outside-limit|%s|%s" % (e["name"], short(pb.id)), m.where(pb),
                        "%s invokes the caller's function in %s, which is not driven by the limited for_each_concurrent: these "
                        "functions run without regard to `limit`" % (e["name"], short(pb.id)))
    # ... nor is the callback itself handed to some other driver as a value (`.map(&fn_for_each)` under `join_all`)
    for e in m.entries:
        if m.family(e) not in ("for_each", "try_for_each"):
            continue
        for bx in m.reach_bodies(e["id"]):
            if bx.id in under:
                continue
            gen_in = {x["s"].lstrip("&").replace("mut ", "").strip() for x in (fb.fns.get(bx.root) or {}).get("inputs", [])}
            gen_in = {g for g in gen_in if g.isidentifier() and g.startswith("Fn")}
            for bbx, tx in bx.calls():
                c_ = tx.get("callee") or {}
                if is_param_call(tx) or c_.get("local") or ((c_.get("resolved") or {}) if isinstance(c_.get("resolved"), dict) else {}).get("local"):
                    continue
                for a_ in tx["args"]:
                    aty = ((a_.get("pl") or {}).get("ty") or a_.get("ty") or "").lstrip("&").replace("mut ", "").strip()
                    if aty in gen_in and (callee_path(tx) or "").split("::")[-1] in ("map", "then", "for_each", "for_each_concurrent", "and_then", "filter_map",
                                                                                       "buffer_unordered", "buffered", "fold", "try_for_each", "try_for_each_concurrent"):
                        ctx.bad(rule, "outside-limit|%s|%s" % (e["name"], short(bx.id)), m.where(bx, bbx),
                                "%s hands the caller's function to `%s` outside the limited for_each_concurrent: those invocations ignore `limit`" % (
                                    e["name"], callee_path(tx)))
    if rule == "L6":
        ctx.ok(rule, "under-driver", "-", "all invocations of the caller's function in the concurrent families are under %d for_each_concurrent driver(s)" % len(sinks))


def L1(ctx, rule="L1"):
    m, fb, fl = ctx.model, ctx.fb, ctx.model.flow
    sinks = []
    for b in fb.prod_bodies():
        for bb, t in b.calls():
            if callee_path(t) == FOR_EACH_CONCURRENT:
                sinks.append((b, bb, t))
    n = 0
    for e in m.entries:
        li = entry_param_index(e, lambda s: "Into<" in s and "Option<usize>" in s)
        fam = m.family(e)
        if fam not in ("for_each", "try_for_each"):
            continue
        where = entry_where(e)
        n += 1
        if li is None:
            ctx.bad(rule, "no-limit-param|%s" % e["name"], where, "concurrent entry point has no `limit` parameter")
            continue
        reach = m.reach(e["id"])
        mine = [(b, bb, t) for (b, bb, t) in sinks if b.id in reach]
        ok = False
        why = "no for_each_concurrent reachable"
        for (b, bb, t) in mine:
            srcs = fl.sources_operand(b, t["args"][1])
            has = any(s.kind == "param" and s[1] == e["id"] and s[2] == li and s[3] == () for s in srcs)
            others = [s for s in srcs if not (s.kind == "param" and s[3] == () and
                                              "Into<" in (fb.bodies[s[1]].locals[s[2]]["s"] if s[1] in fb.bodies else ""))]
            if has and not others:
                ok = True
            else:
                why = "limit reaching for_each_concurrent at %s has sources %s" % (m.where(b, bb), [fmt_src(s) for s in srcs][:4])
        ctx.check(ok, rule, "limit|%s" % e["name"], where,
                  "`limit` flows unchanged from the public parameter into StreamExt::for_each_concurrent's limit argument",
                  "`limit` is not forwarded unchanged: %s" % why)
    for (b, bb, t) in sinks:
        # the stream argument is the READY stream
        n += 1
        ssrc = fl.sources_operand(b, t["args"][0], ("$item",))
        ctx.check(m.is_ready_item(ssrc), rule, "stream|%s" % short(b.id), m.where(b, bb),
                  "for_each_concurrent consumes the READY stream (ids dequeued from the ready channel)",
                  "for_each_concurrent consumes %s" % [fmt_src(s) for s in ssrc][:4])
    L6(ctx, rule, sinks)
    ctx.counts[rule] = n
    for (b, bb, t) in sinks:
        ctx.cover(rule, b.id)
    ctx.entry_floor(rule, rule, ("for_each", "try_for_each"), "for_each_concurrent call")


ASYNC_LOCKS = ("tokio::sync::RwLock::<T>::write", "tokio::sync::RwLock::<T>::read", "tokio::sync::Mutex::<T>::lock",
               "tokio::sync::RwLock::<T>::write_owned", "tokio::sync::RwLock::<T>::read_owned", "tokio::sync::Mutex::<T>::lock_owned",
               "tokio::sync::Semaphore::acquire", "tokio::sync::Semaphore::acquire_owned", "tokio::sync::Semaphore::acquire_many",
               "futures::lock::Mutex::<T>::lock")
SYNC_LOCKS = ("std::sync::Mutex::<T>::lock", "std::sync::RwLock::<T>::write", "std::sync::RwLock::<T>::read")


def L4(ctx, rule="L4"):
    """no shared lock / permit is taken before a user future is started and held while it runs: in the concurrent families a
    per-item body acquires, ahead of the user future's await, at most the lock that belongs to that one function
    (an element of a per-function table), and only without waiting (`try_write`)."""
    m, fb, fl = ctx.model, ctx.fb, ctx.model.flow
    seen = set()
    n = 0
    for e in m.entries:
        if m.family(e) not in ("for_each", "try_for_each"):
            continue
        for b in m.per_item_bodies(e["id"]):
            if b.id in seen or b.kind != "coroutine":
                continue
            seen.add(b.id)
            uas = user_awaits(ctx, b)
            if not uas:
                continue
            n += 1
            ua = uas[0]
            bad = []
            for bb, t in b.calls():
                p_ = callee_path(t) or ""
                if p_ not in ASYNC_LOCKS and p_ not in SYNC_LOCKS:
                    continue
                if ua.into_bb is None or not b.dominates(bb, ua.into_bb):
                    continue        # taken after the user future completed (bookkeeping)
                le = strip_refs(expr_operand(b, t["args"][0])) if t["args"] else None
                per_fn = le is not None and any(c.kind == "call" and c[1] in ("std::ops::Index::index", "std::ops::IndexMut::index_mut",
                                                                                 "std::slice::<impl [T]>::get", "std::slice::<impl [T]>::get_mut")
                                                for c in walk_expr(le))
                if per_fn and p_ not in ASYNC_LOCKS:
                    continue
                bad.append("%s at %s%s" % (p_.split("::")[-1], b.loc(bb), "" if not per_fn else " (per-function, but waits)"))
            ctx.check(not bad, rule, "no-shared-lock|%s" % short(b.id), m.where(b, ua.into_bb),
                      "no shared lock or permit is acquired ahead of the user future in the per-function body",
                      "a lock / permit shared by all functions is acquired before the user future is awaited and held across it (%s): "
                      "functions run one (or a fixed few) at a time whatever `limit` says, and futures that wait for each other deadlock" % bad[:3])
    ctx.counts[rule] = n
    if n < 2:
        ctx.unverifiable(rule, "floor", "-", "expected >= 2 per-function bodies of the concurrent families, found %d" % n)


def L5(ctx, rule="L5"):
    """no async lock is re-acquired for writing while a guard of the same lock is still alive in the same future (tokio's
    RwLock is not re-entrant: `x.read().await` held across `x.write().await` - directly or inside an awaited helper -
    waits for itself forever)"""
    m, fb, fl = ctx.model, ctx.fb, ctx.model.flow
    n = 0
    WRITE = ("tokio::sync::RwLock::<T>::write", "tokio::sync::Mutex::<T>::lock")
    ACQ = ("tokio::sync::RwLock::<T>::write", "tokio::sync::RwLock::<T>::read", "tokio::sync::Mutex::<T>::lock")

    # tokio's RwLock is write-preferring: once any task waits in `write()`, a second `read()` queues behind it - so a read guard
    # held across another `read()` of the same lock (directly or inside an awaited helper) deadlocks as soon as a writer arrives
    # in between.  The crate has such writers (the interrupt / failure paths take `write()` to drop the done-sender).
    READ = ("tokio::sync::RwLock::<T>::read",)
    has_writer = any(callee_path(t0) == "tokio::sync::RwLock::<T>::write" for b0 in fb.prod_bodies() for _, t0 in b0.calls())

    def writes_param(hid, kinds=WRITE):
        """parameter indices of async fn `hid` whose lock it (transitively) acquires for writing"""
        out = set()
        own_co = hid + "::{closure#0}"
        bodies_ = set(m.reach_calls(hid))
        if own_co in fb.bodies and fb.bodies[own_co].kind == "coroutine":
            bodies_ |= set(m.reach_calls(own_co))      # the body of an `async fn` is its coroutine
        for x in sorted(bodies_):
            xb = fb.bodies[x]
            for bb2, t2 in xb.calls():
                if callee_path(t2) in kinds and t2["args"]:
                    for q in fl.sources_operand(xb, t2["args"][0], (), "prov@" + hid):
                        if q.kind == "param" and q[1] == hid:
                            out.add(q[2])
        return out
    for b in fb.prod_bodies():
        if b.kind != "coroutine":
            continue
        aws = awaits(b)
        acq = []
        for a in aws:
            if a.operand.get("k") == "const" or a.ready_bb is None:
                continue
            d = get_defs(b).unique_full(a.operand["pl"]["l"])
            if not d or d[0] != "call":
                continue
            p_ = callee_path(d[3]) or ""
            if p_ in ACQ and d[3]["args"]:
                acq.append((a, p_, d[1], fl.sources_operand(b, d[3]["args"][0]), None))
            elif p_ in fb.bodies:
                wp_ = writes_param(p_)
                for pi in sorted(wp_):
                    if pi - 1 < len(d[3]["args"]):
                        acq.append((a, "helper " + short(p_), d[1], fl.sources_operand(b, d[3]["args"][pi - 1]), p_))
                if has_writer:
                    for pi in sorted(writes_param(p_, READ) - wp_):
                        if pi - 1 < len(d[3]["args"]):
                            acq.append((a, "reading helper " + short(p_), d[1], fl.sources_operand(b, d[3]["args"][pi - 1]), p_))
        for (a1, p1, bb1, l1, h1) in acq:
            if h1 is not None or not l1:
                continue        # a helper's guards end with the helper
            n += 1
            # blocks where the guard obtained by a1 is dropped (the guard itself or what it was moved into)
            gl = {a1.result_local}
            for bb2, si2, s2 in b.stmts():
                if s2["k"] == "assign" and s2["rv"]["k"] == "use" and s2["rv"]["op"].get("k") == "move" and not s2["rv"]["op"]["pl"]["p"] and \
                        s2["rv"]["op"]["pl"]["l"] in gl and not s2["pl"]["p"]:
                    gl.add(s2["pl"]["l"])
            drops = set()
            for x, blk in enumerate(b.blocks):
                t_ = blk["term"]
                if t_["k"] == "drop" and t_.get("pl", {}).get("l") in gl and not t_["pl"]["p"]:
                    drops.add(x)
                if t_["k"] == "call" and callee_path(t_) == "std::mem::drop" and t_["args"] and t_["args"][0].get("k") == "move" and \
                        t_["args"][0]["pl"]["l"] in gl:
                    drops.add(x)
            # the drop in the Ready arm itself belongs to the assignment of the await's result (the slot's previous value), not to
            # the guard just obtained
            drops.discard(a1.ready_bb)
            live = b.reachable(a1.ready_bb, avoid=drops) | {a1.ready_bb}
            bad = []
            for (a2, p2, bb2, l2, h2) in acq:
                if a2 is a1 or not (p2 in WRITE or h2 is not None or (has_writer and p2 in READ)):
                    continue
                if (p2 in READ or p2.startswith("reading helper")) and p1 not in READ:
                    continue        # write-then-read of the same lock is the self-deadlock the write case already reports
                if bb2 in live and l2 and set(l2) == set(l1):
                    bad.append("%s at %s" % (p2.split("::")[-1], b.loc(bb2)))
            ordinal = sorted(x[2] for x in acq if x[4] is None).index(bb1)
            ctx.check(not bad, rule, "no-self-deadlock|%s|%d" % (short(b.id), ordinal), m.where(b, bb1),
                      "the guard taken here is released before the same lock is acquired again (for writing; or for reading, which queues "
                      "behind any waiting writer of tokio's write-preferring RwLock)",
                      "the guard taken by %s is still alive when the same lock is acquired again (%s): the future waits for itself - or, for "
                      "read under read, for a writer that waits for it - and never completes" % (p1.split("::")[-1], bad[:2]))
    ctx.counts[rule] = n
    if n < 2:
        ctx.unverifiable(rule, "floor", "-", "expected >= 2 awaited lock acquisitions in the crate, found %d" % n)


def L3(ctx, rule="L3"):
    """`limit` influences nothing but for_each_concurrent's limit argument: no
    channel capacity, lock or loop bound derives from it (otherwise a small
    limit can block completion)."""
    m, fb, fl = ctx.model, ctx.fb, ctx.model.flow
    n = 0
    for e in m.entries:
        li = entry_param_index(e, lambda s: "Into<" in s and "Option<usize>" in s)
        if li is None:
            continue
        n += 1
        bad = []
        for b in m.reach_bodies(e["id"]):
            for bb, t in b.calls():
                p = callee_path(t) or ""
                if p == FOR_EACH_CONCURRENT or p in fb.bodies or (t.get("callee") or {}).get("local"):
                    continue
                if p in ("std::convert::Into::into", "std::convert::From::from", "std::future::IntoFuture::into_future", "std::mem::drop"):
                    continue
                for a in t["args"]:
                    if a["k"] == "const":
                        continue
                    ty = a["pl"]["ty"]
                    if not ("usize" in ty or "Into<" in ty):
                        continue
                    srcs = fl.sources_operand(b, a, (), "taint")
                    if any(x.kind == "param" and x[1] == e["id"] and x[2] == li for x in srcs):
                        bad.append("%s at %s" % (p, b.loc(bb)))
        ctx.check(not bad, rule, "limit-only-limits|%s" % e["name"], entry_where(e),
                  "`limit` reaches no call other than for_each_concurrent's limit argument",
                  "`limit` also determines %s: a small limit can block completion" % bad[:3])
    if n < 1:
        ctx.unverifiable(rule, "floor", "-", "no entry point with a `limit` parameter found")


def W4(ctx, rule="W4"):
    """C06: the caller's `limit` reaches for_each_concurrent (so `None` gates nothing): the
    argument must depend on the public parameter (a constant replacing it would serialise runs)."""
    m, fb, fl = ctx.model, ctx.fb, ctx.model.flow
    sinks = []
    for b in fb.prod_bodies():
        for bb, t in b.calls():
            if callee_path(t) == FOR_EACH_CONCURRENT:
                sinks.append((b, bb, t))
    n = 0
    for e in m.entries:
        li = entry_param_index(e, lambda s: "Into<" in s and "Option<usize>" in s)
        if li is None:
            continue
        n += 1
        reach = m.reach(e["id"])
        ok = False
        for (b, bb, t) in sinks:
            if b.id not in reach:
                continue
            srcs = fl.sources_operand(b, t["args"][1], (), "taint")
            if any(x.kind == "param" and x[1] == e["id"] and x[2] == li for x in srcs):
                ok = True
        ctx.check(ok, rule, "limit-reaches|%s" % e["name"], entry_where(e),
                  "the caller's `limit` determines for_each_concurrent's limit argument",
                  "the caller's `limit` does not reach for_each_concurrent: the concurrency is fixed by the library")
        # `None` and `0` (both "no limit") must arrive as they are: the value is forwarded unchanged, or only ever raised to at
        # least the number of functions
        for (b, bb, t) in sinks:
            if b.id not in reach:
                continue
            srcs = fl.sources_operand(b, t["args"][1])
            others = [s_ for s_ in srcs if not (s_.kind == "param" and s_[3] == () and
                                                "Into<" in (fb.bodies[s_[1]].locals[s_[2]]["s"] if s_[1] in fb.bodies else ""))]
            bad_o = []
            for s_ in others:
                fine = False
                if s_.kind == "alloc" and s_[4] in ("std::cmp::max", "std::cmp::Ord::max") and s_[1] in fb.bodies:
                    tt = fb.bodies[s_[1]].blocks[s_[2]]["term"]
                    ex = [strip_refs(expr_operand(fb.bodies[s_[1]], a_)) for a_ in tt["args"][:2]]
                    fine = any(c.kind == "call" and c[1] in NODE_COUNT_FNS for x_ in ex for c in walk_expr(x_))
                if not fine:
                    bad_o.append(fmt_src(s_))
            ctx.check(not bad_o, rule, "unbounded-preserved|%s|%s" % (e["name"], short(b.id)), m.where(b, bb),
                      "for_each_concurrent's limit is the caller's value unchanged (or raised to the number of functions): None and 0 stay unbounded",
                      "the caller's `limit` is transformed before it reaches for_each_concurrent (%s): a `None`/`0` (unbounded) request may become a finite bound" % bad_o[:3])
    if n < 1:
        ctx.unverifiable(rule, "floor", "-", "no entry point with a `limit` parameter found")


def L2(ctx, rule="L2"):
    """fold / try_fold paths: sequential combinators + state returned only after the user future's Ready arm"""
    m, fb, fl = ctx.model, ctx.fb, ctx.model.flow
    n = 0
    seen = set()
    for e in m.entries:
        fam = m.family(e)
        if fam not in ("fold", "try_fold"):
            continue
        for b in m.per_item_bodies(e["id"]):
            if b.id in seen:
                continue
            seen.add(b.id)
            n += 1
            ctx.cover(rule, b.id)
            key = short(b.id)
            uas = user_awaits(ctx, b)
            pcs = m.param_calls(b)
            if not uas or not pcs:
                ctx.bad(rule, "no-await|%s" % key, m.where(b), "fold step does not await the user future")
                continue
            a = uas[0]
            call_bb = pcs[0][0]
            # loop form: the step is the body of `while let Some(x) = ready.next().await { .. }` inside one coroutine
            lr = loop_region(ctx, b, call_bb) if b.kind == "coroutine" else None
            if lr is not None and lr["driver"] == "await":
                ok_seq = a.ready_bb is not None and b.all_paths_pass(call_bb, [a.ready_bb], [lr["next_bb"]] + b.exits())
                ctx.check(ok_seq, rule, "await-before-return|%s" % key, m.where(b, a.into_bb),
                          "the loop step dequeues the next id only after the Ready arm of the user future's await (<= 1 in flight)",
                          "the loop can dequeue the next id / finish without the user future having completed")
                ctx.ok(rule, "sequential|%s" % key, m.where(b),
                       "the step is the body of a `while let Some(..) = ready.next().await` loop of one coroutine (sequential by construction)")
                continue
            # every assignment of the returned value reachable from the user call is dominated by the Ready arm
            bad = []
            for kind, bb, si, x in get_defs(b).of(0):
                # every path from the user call to an assignment of the returned value passes the Ready arm
                if not b.all_paths_pass(call_bb, [a.ready_bb], [bb]):
                    bad.append(b.loc(bb))
            ctx.check(not bad, rule, "await-before-return|%s" % key, m.where(b, a.into_bb),
                      "the fold step returns its state only after the Ready arm of the user future's await: the next id is dequeued after completion (<= 1 in flight)",
                      "the fold step can return at %s without the user future having completed" % bad)
            # the adaptor consuming the step closure
            par = fb.bodies.get(b.parent)
            uses = fl.closure_uses(par) if par is not None else []
            cons = [callee_path(t) for (_, _, t, _) in uses]
            if par is not None and par.kind == "fn" and not uses:
                # the step is a named private async fn / method: the fold's closure only calls it and returns its future
                cons = []
                for (cb_, cbb_, ct_) in fl.call_sites().get(par.id, []):
                    if fb.is_test_body(cb_):
                        continue
                    rd_ = get_defs(cb_).of(0)
                    direct = len(rd_) == 1 and rd_[0][0] == "call" and rd_[0][1] == cbb_
                    us_ = fl.closure_uses(cb_) if cb_.kind == "closure" else []
                    cons += [callee_path(t_) if direct else "%s (future not returned directly)" % callee_path(t_) for (_, _, t_, _) in us_] or ["?"]
                cons = sorted(set(cons))
            ctx.check(cons in (["futures::StreamExt::fold"], ["futures::TryStreamExt::try_fold"]), rule, "sequential|%s" % key, m.where(b),
                      "the step closure is driven by %s (sequential by construction)" % (cons[0].split("::")[-1] if cons else "?"),
                      "the step closure is driven by %s" % cons)
    ctx.counts[rule] = n
    ctx.entry_floor(rule, rule, ("fold", "try_fold"), "fold step body awaiting the user future")


# ---------------------------------------------------------------------------
# C03 extras

def C03_mut_lookup(ctx, rule="M1"):
    """_mut concurrent paths: per-function lock acquired with try_write and the
    callback argument comes from that guard"""
    m, fb, fl = ctx.model, ctx.fb, ctx.model.flow
    n = 0
    seen = set()
    for e in m.entries:
        if m.family(e) not in ("for_each", "try_for_each"):
            continue
        if not e["inputs"][0]["s"].startswith("&mut") and "mut" not in e["inputs"][0]["s"]:
            continue
        for b in m.per_item_bodies(e["id"]):
            if b.id in seen or b.kind != "coroutine":
                continue
            pcs = m.param_calls(b)
            tup = expr_operand(b, pcs[0][1]["args"][1])
            arg = tup[4][0] if tup.kind == "agg" and tup[4] else tup
            calls = [c for c in walk_expr(arg) if c.kind == "call"]
            if not any(c[1] == "std::ops::Index::index" for c in calls):
                continue
            seen.add(b.id)
            n += 1
            tw = [c for c in calls if c[1] in ("tokio::sync::RwLock::<T>::try_write",)]
            blocking = [c for c in calls if c[1] in ("tokio::sync::RwLock::<T>::write", "tokio::sync::RwLock::<T>::blocking_write",
                                                     "tokio::sync::RwLock::<T>::read", "tokio::sync::RwLock::<T>::try_read")]
            ctx.check(bool(tw) and not blocking, rule, "try-write|%s" % short(b.id), m.where(b, pcs[0][0]),
                      "the `&mut F` handed to the callback is borrowed from the per-function RwLock with try_write (a second concurrent hand-out cannot alias it)",
                      "the `&mut F` handed to the callback is not obtained through try_write on the per-function lock: %s" % [c[1] for c in calls])
    ctx.counts[rule] = n
    if n < 2:
        ctx.unverifiable(rule, "floor", "-", "expected 2 mutable concurrent per-item bodies, found %d" % n)


# ---------------------------------------------------------------------------
# C07

def try_concurrent_bodies(ctx):
    m = ctx.model
    out = []
    seen = set()
    for e in m.entries:
        if m.family(e) != "try_for_each":
            continue
        for b in m.per_item_bodies(e["id"]):
            if b.id in seen:
                continue
            seen.add(b.id)
            out.append(b)
    return out


SHORT_CIRCUIT_CONCURRENT = ("try_for_each_concurrent", "try_buffer_unordered", "try_buffered", "try_join", "try_join3", "try_join4", "try_join5",
                            "try_join_all", "select", "select_all", "select_ok", "try_select", "race")


def A2(ctx, rule="A2"):
    """no concurrent driver of the per-function futures short-circuits: every consumer between a body that invokes the
    user's callback and its public entry is one that runs every started future to completion"""
    m, fb, fl = ctx.model, ctx.fb, ctx.model.flow
    seen = set()
    n = 0
    for e in m.entries:
        if m.family(e) == "stream":
            continue
        for b in m.per_item_bodies(e["id"]):
            if b.id in seen:
                continue
            seen.add(b.id)
            x = b
            chain = []
            while x is not None:
                if x.kind == "closure":
                    for (ub, ubb, ut, ai) in fl.closure_uses(x):
                        chain.append((callee_path(ut) or "?", ub, ubb))
                x = fb.bodies.get(x.parent) if x.parent else None
            if not chain:
                continue
            n += 1
            bad = [(c, ub, ubb) for (c, ub, ubb) in chain if c.split("::")[-1] in SHORT_CIRCUIT_CONCURRENT]
            where = m.where(bad[0][1], bad[0][2]) if bad else m.where(b)
            ctx.check(not bad, rule, "driver|%s" % short(b.id), where,
                      "the futures of %s are driven by %s: none of them stops at a first Err/Break and drops the other started user futures" % (
                          short(b.id), ", ".join(sorted({c.split("::")[-1] for c, _, _ in chain}))),
                      "the per-function futures are driven by %s, which returns at the first Err and drops every other started user future mid-way: "
                      "the call returns while user futures it started have not completed" % (bad[0][0] if bad else ""))
    ctx.floor(rule, 4, "closures invoking the user callback under a stream consumer")


def F_rules(ctx, rule="F"):
    m, fb, fl = ctx.model, ctx.fb, ctx.model.flow
    sends = m.send_sites()
    rel = release_sites(ctx)
    n_internal = 0
    n_adapter = 0
    for b in try_concurrent_bodies(ctx):
        key = short(b.id)
        rs = [s for s in sends if s["body"].id == b.id and "RESULT" in s["roles"]]
        helper_send = None
        if not rs:
            # the error may be reported through a private async helper called from the per-item body: the call is the send
            for hbb, ht in b.calls():
                hp = callee_path(ht)
                hco = fb.bodies.get((hp or "") + "::{closure#0}")
                if hp in fb.bodies and hco is not None and hco.kind == "coroutine":
                    hs = [s2 for s2 in sends if s2["body"].id == hco.id and "RESULT" in s2["roles"]]
                    if len(hs) == 1:
                        # value sent = one of the helper's parameters: take the argument of this call
                        vsrc_h = fl.sources_operand(hco, hs[0]["t"]["args"][1], (), "prov@" + hp)
                        pidx = None
                        perr = None
                        for s3 in vsrc_h:
                            if s3.kind == "param" and s3[1] == hp and not s3[3]:
                                pidx = s3[2]
                            elif s3.kind == "param" and s3[1] == hp and tuple(s3[3]) == ("E",):
                                perr = s3[2]
                        hs_aw = [a for a in awaits(hco) if a.operand.get("pl", {}).get("l") == hs[0]["t"]["dest"]["l"]]
                        if pidx is not None and pidx - 1 < len(ht["args"]) and hs_aw and not cond_guards(hco, hs[0]["bb"]):
                            helper_send = {"body": b, "bb": hbb, "t": {"args": [None, ht["args"][pidx - 1]], "dest": ht["dest"]}, "roles": {"RESULT"}}
                        elif perr is not None and pidx is None and perr - 1 < len(ht["args"]) and hs_aw and len(vsrc_h) == 1:
                            # the helper takes the function's whole Result and does the `if let Err(e)` itself: its send must sit
                            # exactly on the Err arm of that parameter
                            hg = [g for g in cond_guards(hco, hs[0]["bb"]) if (hco.blocks[g[0]]["term"].get("sp") or {}).get("desugar") != "Await"]
                            on_err_h = bool(hg)
                            for sb_, de_, vals_ in hg:
                                e_ = strip_refs(de_)
                                ok_g = False
                                if e_.kind == "discr":
                                    gsrc = fl.sources_operand(hco, {"k": "copy", "pl": {"l": 0, "p": []}}, (), "prov@" + hp) if False else None
                                    ps_ = sources_of_expr(ctx, hco, strip_refs(e_[1]), mode="prov@" + hp)
                                    ok_g = bool(ps_) and all(q.kind == "param" and q[1] == hp and q[2] == perr and not q[3] for q in ps_) and vals_ == frozenset(["1"])
                                if not ok_g:
                                    on_err_h = False
                            if on_err_h:
                                helper_send = {"body": b, "bb": hbb, "t": {"args": [None, ht["args"][perr - 1]], "dest": ht["dest"]}, "roles": {"RESULT"},
                                               "err_in_helper": True, "hco": hco, "hbb": hs[0]["bb"]}
            if helper_send is not None:
                rs = [helper_send]
        if not rs:
            # control-wrapper adapter closure: F4
            if b.kind == "closure":
                n_adapter += 1
                ctx.cover(rule + "4", b.id)
                F4_adapter(ctx, rule + "4", b)
            continue
        n_internal += 1
        ctx.cover(rule + "1", b.id)
        where = m.where(b, rs[0]["bb"])
        # F6: the driver of the per-item futures runs every started future to completion (no short-circuit on a failure)
        x = b
        cons = None
        while x is not None and cons is None:
            uses = fl.closure_uses(x) if x.kind == "closure" else []
            if uses:
                cons = callee_path(uses[0][2])
            x = fb.bodies.get(x.parent) if x.parent else None
        SHORT = ("try_for_each_concurrent", "try_for_each", "try_fold", "take_while", "try_collect", "try_buffer_unordered", "try_buffered")
        if cons is not None:
            ctx.check(cons == FOR_EACH_CONCURRENT or cons.split("::")[-1] not in SHORT, rule + "6", "driver|%s" % key, where,
                      "the per-item futures are driven by %s: a failing function does not cancel the in-flight ones" % cons.split("::")[-1],
                      "the per-item futures are driven by %s, which stops at the first Err and drops every in-flight function future mid-way" % cons)
        # F1: exactly one RESULT send, carrying the user's error, on the Err arm
        ok1 = len(rs) == 1 and not b.back_edges_in_user_code() if hasattr(b, "back_edges_in_user_code") else len(rs) == 1
        vs = fl.sources_operand(b, rs[0]["t"]["args"][1])
        carries = bool(vs) and all(s.kind == "userfut" and s[2] == ("E",) for s in vs)
        on_err = False
        err_sb = None
        if rs[0].get("err_in_helper"):
            # the helper receives the user future's whole output and selects the Err arm itself (checked above)
            carries = bool(vs) and all(s.kind == "userfut" and tuple(s[2]) == () for s in vs)
            on_err = carries
            err_sb = rs[0]["bb"]
        for sb, de, vals in cond_guards(b, rs[0]["bb"]):
            e_ = strip_refs(de)
            if e_.kind == "discr":
                srcs = sources_of_expr(ctx, b, strip_refs(e_[1]))
                if any(s.kind == "userfut" for s in srcs) and vals == frozenset(["1"]):
                    on_err = True
                    err_sb = sb
        ctx.check(ok1 and carries and on_err, rule + "1", "one-error-send|%s" % key, where,
                  "on the Err arm of the user future exactly one send on the RESULT channel carries that error value",
                  "RESULT sends: %d, carries the user's error: %s, on the Err arm: %s" % (len(rs), carries, on_err))
        # the send result: awaited and not ignored silently -> must be awaited (sender.send is async)
        aw = [a for a in awaits(b) if a.operand.get("pl", {}).get("l") == rs[0]["t"]["dest"]["l"]]
        ctx.check(bool(aw), rule + "1", "error-send-awaited|%s" % key, where,
                  "the RESULT send future is awaited (the error is actually delivered)",
                  "the RESULT send future is never awaited: the error is lost")
        # F2: from the Err arm every path to a done-send passes through a release of the done-sender
        done_blocks = []
        for s in sends:
            if "DONE" in s["roles"]:
                for (eb, ebb, depth) in effective_sites(ctx, s["body"], s["bb"]):
                    if eb.id == b.id:
                        done_blocks.append(ebb)
        rel_blocks = [r["bb"] for r in rel if r["body"].id == b.id and "DONE" in r["roles"] and r["kind"] == "FAILED"]
        okf2 = bool(done_blocks) and bool(rel_blocks) and b.all_paths_pass(rs[0]["bb"], rel_blocks, done_blocks)
        if rs[0].get("err_in_helper"):
            # error arm and release both live in the helper: from its send every path to its return releases the done-sender
            hco_ = rs[0]["hco"]
            rel_blocks = [r["bb"] for r in rel if r["body"].id == hco_.id and "DONE" in r["roles"]]
            okf2 = bool(done_blocks) and bool(rel_blocks) and hco_.all_paths_pass(rs[0]["hbb"], rel_blocks, hco_.exits()) and \
                all(b.dominates(rs[0]["bb"], x) for x in done_blocks)
        # ... and no done-send happens before the result is examined
        early = [x for x in done_blocks if err_sb is None or not b.dominates(err_sb, x)]
        ctx.check(not early, rule + "2", "done-after-result-check|%s" % key, where,
                  "every done-send lies behind the examination of the user future's result (a failing function cannot have reported done already)",
                  "a done-send at %s is not dominated by the match on the user future's result: a failing function reports done before its failure is seen" % [b.loc(x) for x in early])
        ctx.check(okf2, rule + "2", "release-before-done|%s" % key, where,
                  "from the Err arm every path to the done-send passes through the release of the done-sender: a failed function never reports done, so its successors never reach count 0",
                  "from the Err arm a done-send is reachable without releasing the done-sender first (release blocks %s, done-send blocks %s): dependents of a failed function are started" % (rel_blocks, done_blocks))
    # F3: RESULT receiver drained only after the join; Err iff non-empty
    n3 = 0
    for s in m.recv_sites():
        if "RESULT" not in s["roles"]:
            continue
        cb = s["body"]
        if s.get("lifted"):
            # `WrapperStream::new(result_rx).collect().await` in the entry's own async body
            par = cb
            site = (cb, s["bb"])
        elif cb.kind == "coroutine" and s["fn"].endswith("::recv"):
            # `while let Some(e) = result_rx.recv().await { results.push(e) }` in the entry's own async body
            par = cb
            site = (cb, s["bb"])
        else:
            par = fb.bodies.get(cb.parent) if cb.parent else None
            site = None
        if par is None:
            continue
        n3 += 1
        ctx.cover(rule + "3", par.id)
        key = short(par.id)
        # the poll_fn(closure).collect().await in `par`; the join await must dominate it
        for (pb, bb, si, st) in (fl.closure_sites().get(cb.id, []) if par is not cb else []):
            site = (pb, bb)
        from rules_term import join_sites
        join_aw = [js for js in join_sites(ctx, par) if js["ready_bb"] is not None]
        ok3 = bool(join_aw) and site is not None and par.dominates(join_aw[0]["ready_bb"], site[1])
        if not join_aw and par.kind == "coroutine" and par.parent in fb.bodies:
            # the drain lives in a private async helper: its (only) call must come after the join in the caller
            csites = [(cb_, cbb_, ct_) for (cb_, cbb_, ct_) in fl.call_sites().get(par.parent, []) if not fb.is_test_body(cb_)]
            ok3 = bool(csites)
            for cb_, cbb_, ct_ in csites:
                ja = [js for js in join_sites(ctx, cb_) if js["ready_bb"] is not None]
                if not (ja and cb_.dominates(ja[0]["ready_bb"], cbb_)):
                    ok3 = False
        ctx.check(ok3, rule + "3", "drain-after-join|%s" % key, m.where(par, site[1]) if site else m.where(par),
                  "the RESULT receiver is drained only after the join of queuer and scheduler completed (every started future has finished)",
                  "the RESULT receiver is polled before / without the join having completed")
        # Err iff results non-empty, carrying the collected vector unchanged
        def err_iff_nonempty(par, helper=None):
            """(ok, why) for the body `par`; with `helper` = (is_coll of the draining helper, sources of its vector) the emptiness test
            and the Ok/Err pair are looked for in `par`, a caller of that helper"""
            okret = False
            why = "no is_empty() test on the collected errors"
            for bb, t in par.calls():
                if (callee_path(t) or "").endswith("::is_empty"):
                    vsrc = fl.sources_operand(par, t["args"][0])
                    is_coll = any(x.kind == "alloc" and "collect" in x[4] for x in vsrc)
                    if helper is not None:
                        is_coll = bool(helper[0]) and bool(set(vsrc) & set(helper[1]))
                    elif not is_coll:
                        # a vector filled by pushing every item received from the RESULT channel
                        for pbb, pt in par.calls():
                            if (callee_path(pt) or "").endswith("Vec::<T, A>::push") and set(fl.sources_operand(par, pt["args"][0])) & set(vsrc):
                                isrc = fl.sources_operand(par, pt["args"][1])
                                roles_, other_ = m.roles_of_sources(isrc, half=1)
                                if roles_ == {"RESULT"} and not other_ and all("$item" in x[3] for x in isrc):
                                    lr = loop_region(ctx, par, pbb)
                                    is_coll = lr is not None and not lr["early_exits"] and not [g for g in cond_guards(par, pbb) if g[0] in lr["blocks"] and g[0] != lr.get("switch_bb")
                                                                                                and (par.blocks[g[0]]["term"].get("sp") or {}).get("desugar") != "Await"]
                    # Ok on true arm, Err on false arm
                    oks = errs = None
                    ok_unguarded = False
                    for kind, dbb, si, x in get_defs(par).of(0):
                        if kind == "stmt" and x["rv"]["k"] == "agg" and x["rv"].get("def") == "std::result::Result":
                            gs = []
                            for sb, vals in guards_of(par, dbb):
                                ge = strip_refs(switch_expr(par, sb))
                                neg = False
                                while ge.kind == "unop" and ge[1] == "Not":
                                    neg = not neg
                                    ge = strip_refs(ge[2])
                                if ge.kind == "call" and len(ge) > 3 and ge[3] == bb:
                                    if neg:
                                        vals = frozenset(("otherwise" if v == "0" else "0") for v in vals)
                                    gs.append((sb, vals))
                            if not gs and x["rv"]["variant"] == "Ok":
                                ok_unguarded = True        # an `Ok(..)` returned without looking at the collected errors
                            if gs:
                                taken_true = "otherwise" in gs[0][1] and "0" not in gs[0][1]
                                if x["rv"]["variant"] == "Ok":
                                    oks = taken_true if oks is not False else False
                                else:
                                    errs = not taken_true
                                    # payload .1 is the collected vector
                                    esrc = fl.sources_local(par, 0, ("E", 1))
                                    errs = errs and bool(esrc) and set(esrc) == set(vsrc)
                    # nothing rewrites the collected vector between the drain and the return
                    for mbb, mt in par.calls():
                        mp = callee_path(mt) or ""
                        if mp.endswith("Vec::<T, A>::push") or mp in ("std::ops::Deref::deref", "std::ops::DerefMut::deref_mut"):
                            continue
                        for a_ in mt["args"]:
                            if a_["k"] != "const" and a_["pl"]["ty"].startswith(("&mut std::vec::Vec<", "&mut [")) and \
                                    set(fl.sources_operand(par, a_)) & set(vsrc):
                                is_coll = False
                                why = "the collected errors are modified by %s before being returned" % mp
                    okret = bool(is_coll and oks and errs and not ok_unguarded)
                    if is_coll or not str(why).startswith("the collected errors are modified"):
                        why = "Ok when empty: %s, Err((outcome, results)) with the collected vector otherwise: %s%s" % (
                            oks, errs, "; an Ok(..) is also returned on a path that never looks at the collected errors" if ok_unguarded else "")
            return okret, why

        okret, why = err_iff_nonempty(par)
        if not okret and par.kind == "coroutine" and par.parent in fb.bodies and not (fb.fns.get(par.parent) or {}).get("public") and \
                "std::vec::Vec<" in ((fb.fns.get(par.parent) or {}).get("output") or {}).get("s", ""):
            # the drain lives in a private async helper that returns the vector itself (`fn_errors_collect(rx) -> Vec<E>`): the
            # vector is every received error (checked in the helper), the emptiness test and the Ok / Err pair are its callers'
            hv = fl.sources_local(par, 0, ())
            h_coll = False
            for pbb, pt in par.calls():
                if (callee_path(pt) or "").endswith("Vec::<T, A>::push") and set(fl.sources_operand(par, pt["args"][0])) & set(hv):
                    isrc = fl.sources_operand(par, pt["args"][1])
                    roles_, other_ = m.roles_of_sources(isrc, half=1)
                    if roles_ == {"RESULT"} and not other_ and all("$item" in x[3] for x in isrc):
                        lr = loop_region(ctx, par, pbb)
                        h_coll = lr is not None and not lr["early_exits"] and not [g for g in cond_guards(par, pbb) if g[0] in lr["blocks"] and g[0] != lr.get("switch_bb")
                                                                                     and (par.blocks[g[0]]["term"].get("sp") or {}).get("desugar") != "Await"]
            if any(x.kind == "alloc" and "collect" in x[4] for x in hv):
                h_coll = True
            callers = [cb_ for (cb_, cbb_, ct_) in fl.call_sites().get(par.parent, []) if not fb.is_test_body(cb_)]
            if h_coll and callers:
                res_ = [err_iff_nonempty(cb_, (h_coll, hv)) for cb_ in callers]
                okret = all(r_[0] for r_ in res_)
                why = "; ".join(r_[1] for r_ in res_ if not r_[0]) or why
        ctx.check(okret, rule + "3", "err-iff-nonempty|%s" % key, m.where(par),
                  "the call returns Err((outcome, errors)) iff the collected error vector is non-empty, carrying it unchanged", why)
    # F5: try-fold
    n5 = 0
    seen = set()
    for e in m.entries:
        if m.family(e) != "try_fold":
            continue
        for b in m.per_item_bodies(e["id"]):
            if b.id in seen:
                continue
            seen.add(b.id)
            n5 += 1
            ctx.cover(rule + "5", b.id)
            key = short(b.id)
            esrc = fl.sources_local(b, 0, ("E",))
            ok = bool(esrc) and all(s.kind == "userfut" and s[2] == ("E",) for s in esrc)
            ctx.check(ok, rule + "5", "first-error|%s" % key, m.where(b),
                      "the fold step's Err value is exactly the user future's error (`?` directly after the await)",
                      "the fold step's Err value has sources %s" % [fmt_src(s) for s in esrc])
            # no user call reachable from the Err edge
            pcs = [bb for bb, t, pn in m.param_calls(b)]
            fr = [bb for bb, t in b.calls() if callee_path(t) == "std::ops::FromResidual::from_residual"]
            bad = [x for x in fr if set(pcs) & b.reachable(x)]
            ctx.check(bool(fr) and not bad, rule + "5", "no-call-after-error|%s" % key, m.where(b),
                      "no call through the callback parameter is reachable after the error return within the step",
                      "a user callback is invoked after the error path")
    ctx.counts[rule] = n_internal + n_adapter + n3 + n5
    ctx.entry_floor(rule + "1", rule + "1", ("try_for_each",), "per-item body sending the user's error on the RESULT channel")
    ctx.entry_floor(rule + "3", rule + "3", ("try_for_each",), "drain of the RESULT channel")
    ctx.entry_floor(rule + "5", rule + "5", ("try_fold",), "try-fold step body")
    # control wrappers: each must reach an adapter
    for e in m.entries:
        if "ControlFlow<" in e["output"]["s"]:
            cov = ctx.__dict__.get("_cover", {}).get(rule + "4", set())
            if not (m.reach(e["id"]) & cov):
                ctx.unverifiable(rule + "4", "floor|%s" % e["name"], entry_where(e), "control wrapper reaches no ControlFlow->Result adapter")


def F4_adapter(ctx, rule, b):
    """control adapter closure |f| { let fut = cb(f); async move { match fut.await { Continue(()) => Ok(()), Break(e) => Err(e) } } }"""
    m, fb, fl = ctx.model, ctx.fb, ctx.model.flow
    key = short(b.id)
    # the async block it returns
    subs = [fb.bodies[x] for x in m.reach(b.id) if x != b.id and fb.bodies[x].kind == "coroutine"]
    if len(subs) != 1:
        ctx.unverifiable(rule, "adapter-shape|%s" % key, m.where(b), "adapter does not return exactly one async block")
        return
    ab = subs[0]
    ab0 = ab
    # the Continue/Break -> Ok/Err mapping may live in a crate-local helper called from the async block
    def has_result_aggs(bx):
        return any(kind == "stmt" and x["rv"]["k"] == "agg" and x["rv"].get("def") == "std::result::Result"
                   for kind, dbb, si, x in get_defs(bx).of(0))
    if not has_result_aggs(ab):
        for bx in m.reach_bodies(ab.id):
            if bx.id != ab.id and has_result_aggs(bx):
                ab = bx
    oks = []
    errs = []
    for kind, dbb, si, x in get_defs(ab).of(0):
        if kind == "stmt" and x["rv"]["k"] == "agg" and x["rv"].get("def") == "std::result::Result":
            arm = None
            for sb, vals in guards_of(ab, dbb):
                de = switch_expr(ab, sb)
                if de.kind == "discr":
                    dd = get_defs(ab).unique_full(ab.blocks[sb]["term"]["discr"].get("pl", {}).get("l", -1))
                    if not (dd and dd[0] == "stmt" and dd[3]["rv"]["k"] == "discr" and dd[3]["rv"]["pl"]["ty"].startswith("std::ops::ControlFlow")):
                        continue        # e.g. the Ready/Pending test of the await
                    vs = [v for v in vals if v != "otherwise"]
                    if len(vs) == 1 and len(vals) == 1:
                        arm = int(vs[0])
                    elif vals == frozenset(["otherwise"]):
                        listed = [v for v, _ in ab.blocks[sb]["term"]["targets"]]
                        rest = [v for v in ("0", "1") if v not in listed]      # ControlFlow: Continue = 0, Break = 1
                        if len(rest) == 1:
                            arm = int(rest[0])
            if x["rv"]["variant"] == "Ok":
                oks.append(arm)
            else:
                esrc = fl.sources_operand(ab, x["rv"]["ops"][0])
                good = bool(esrc) and all(s.kind == "userfut" and s[2] == ("E",) for s in esrc)
                errs.append((arm, good))
    # ControlFlow: Continue = 0, Break = 1
    ok = oks == [0] and errs == [(1, True)]
    ctx.check(ok, rule, "adapter-map|%s" % key, m.where(ab),
              "the control adapter maps Continue(()) -> Ok(()) and Break(e) -> Err(e) with e unchanged",
              "the control adapter maps arms Ok<-%s, Err<-%s" % (oks, errs))
    # the awaited future is the user's future for the same function
    uas = user_awaits(ctx, ab0)
    ctx.check(len(uas) == 1, rule, "adapter-await|%s" % key, m.where(ab),
              "the adapter awaits the user's future exactly once", "adapter awaits %d user futures" % len(uas))


# ---------------------------------------------------------------------------
# C08

def track_refs(ctx, f):
    """where the tracking function finds the interruptibility state and the include flag: (parameter index, field path),
    either as parameters of their own or as fields of a small crate-private options struct passed as one parameter"""
    st = inc = None
    for i, x in enumerate(f["inputs"]):
        s_ = x["s"]
        if "InterruptibilityState" in s_ and not s_.lstrip("&").replace("mut ", "").strip().split("<")[0] in ctx.fb.adts:
            st = (i + 1, ())
        elif s_ == "bool":
            inc = (i + 1, ())
        else:
            adt = ctx.fb.adts.get(s_.lstrip("&").replace("mut ", "").strip().split("<")[0])
            if adt is not None and not adt.get("public") and adt.get("kind") == "Struct":
                for fi, fd in enumerate(adt["variants"][0]["fields"]):
                    if "InterruptibilityState" in fd["ty"]["s"]:
                        st = (i + 1, (fi,))
                    elif fd["ty"]["s"] == "bool":
                        inc = (i + 1, (fi,))
    return st, inc


def is_ref_expr(e, ref):
    """expression `e` denotes the value at `ref` = (parameter index, field path)"""
    if ref is None:
        return False
    e = strip_refs(e)
    for fld in reversed(ref[1]):
        if not (e.kind == "field" and e[2] == fld):
            return False
        e = strip_refs(e[1])
    return e.kind == "arg" and e[1] == ref[0]


def track_fn(ctx):
    """the crate-local function that takes the READY receiver and an InterruptibilityState"""
    cands = []
    for f in ctx.fb.fns.values():
        ins = [i["s"] for i in f["inputs"]]
        if any("mpsc::Receiver<" in s for s in ins) and (any("InterruptibilityState" in s for s in ins) or track_refs(ctx, f)[0] is not None):
            cands.append(f)
    # the one that wraps the stream itself (others merely pass the receiver and the state on)
    own = []
    for f in cands:
        for b in ctx.fb.bodies.values():
            if b.root == f["id"] and any(callee_path(t) == "interruptible::InterruptibleStreamExt::interruptible_with" for _, t in b.calls()):
                own.append(f)
                break
    if len(own) == 1:
        return own[0]
    if len(own) > 1:
        # one arm of the tracking function split off into a private function of its own: the tracking function is the one
        # that reaches the others
        m = ctx.model
        tops = [f for f in own if all(g["id"] == f["id"] or g["id"] in m.reach(f["id"]) for g in own)]
        if len(tops) == 1:
            return tops[0]
    return cands[0] if len(cands) == 1 else None


def I_rules(ctx, rule="I"):
    m, fb, fl = ctx.model, ctx.fb, ctx.model.flow
    if not m.interruptible:
        ctx.unverifiable(rule + "1", "cfg", "-", "configuration without the `interruptible` feature")
        return
    tf = track_fn(ctx)
    if tf is None:
        ctx.unverifiable(rule + "1", "track-fn", "-", "ready-stream tracking function (Receiver + InterruptibilityState) not found")
        return
    tb = fb.bodies[tf["id"]]
    st_idx, inc_idx = track_refs(ctx, tf)
    if st_idx is None:
        ctx.unverifiable(rule + "1", "track-fn", "-", "the tracking function has no interruptibility state parameter / field")
        return
    # inside the tracking function the state handed to `interruptible_with` is the one it was given, whatever that state says:
    # no substitute (`new_non_interruptible()` when the receiver looks closed, a reborrowed default) decides for the caller
    n_wrap = 0
    for bx in m.reach_bodies(tf["id"]):
        for bbx, tx in bx.calls():
            if callee_path(tx) != "interruptible::InterruptibleStreamExt::interruptible_with" or len(tx["args"]) < 2:
                continue
            n_wrap += 1
            ss_ = fl.sources_operand(bx, tx["args"][1], (), "prov@" + tf["id"])
            foreign = [x for x in ss_ if not (x.kind == "param" and x[1] == tf["id"] and x[2] == st_idx[0])]
            ctx.check(bool(ss_) and not foreign, rule + "1", "track-state-unchanged|%s" % short(bx.id), m.where(bx, bbx),
                      "the ready stream is wrapped with exactly the interruptibility state the tracking function was given",
                      "the ready stream can be wrapped with a state other than the caller's (%s): a pending or later signal is ignored" % [fmt_src(x) for x in foreign][:3])
    so = fb.adts["stream_opts::StreamOpts"]["variants"][0]["fields"]
    f_state = [i for i, f in enumerate(so) if "InterruptibilityState" in f["ty"]["s"]][0]
    f_inc = [i for i, f in enumerate(so) if f["ty"]["s"] == "bool"][0]
    default_body = None
    ctor_ids = []
    for b in fb.prod_bodies():
        sig = fb.fns.get(b.id, {})
        if sig.get("impl_trait") == "std::default::Default" and (sig.get("impl_self") or "").startswith("stream_opts::StreamOpts"):
            default_body = b
        # constructors of the options (default / new): no `self`, return StreamOpts
        if (sig.get("impl_self") or "").startswith("stream_opts::StreamOpts") and (sig.get("output") or {}).get("s", "").startswith("stream_opts::StreamOpts") \
                and not (sig.get("inputs") and sig["inputs"][0]["s"].startswith("stream_opts::StreamOpts")):
            ctor_ids.append(b.id)
    # I1: per entry
    n = 0
    for e in m.entries:
        fam = m.family(e)
        where = entry_where(e)
        oi = entry_param_index(e, lambda s: s.startswith("stream_opts::StreamOpts<"))
        if fam == "stream":
            # stream_with_interruptible passes the state to interruptible_with; stream / stream_with do not wrap
            wraps = []
            for b in m.reach_bodies(e["id"]):
                for bb, t in b.calls():
                    if callee_path(t) == "interruptible::InterruptibleStreamExt::interruptible_with":
                        wraps.append((b, bb, t))
            is_int = "PollOutcome" in e["output"]["s"]
            n += 1
            if not is_int:
                ctx.check(not wraps, rule + "1", "stream-plain|%s" % e["name"], where,
                          "the plain stream is not wrapped by interruptible_with", "a non-interruptible stream API wraps the stream with interruptible_with")
            else:
                ok = False
                why = "no interruptible_with reached"
                for (b, bb, t) in wraps:
                    srcs = fl.sources_operand(b, t["args"][1])
                    fromp = [s for s in srcs if s.kind == "param" and s[3][:1] == (f_state,)]
                    fromd = [s for s in srcs if s.kind in ("alloc", "agg", "const") and any(cid in str(s) for cid in ctor_ids)]
                    ok = bool(fromp or fromd) and len(fromp) + len(fromd) == len(srcs)
                    why = "state has sources %s" % [fmt_src(s) for s in srcs][:4]
                ctx.check(ok, rule + "1", "stream-state|%s" % e["name"], where,
                          "the interruptible stream wraps stream_internal with the caller's interruptibility_state", why)
                # what interruptible_with yields is what the caller gets: no adaptor rewrites or drops items afterwards (the streams
                # ignore the include flag; the Interrupted item carries the function polled at the interruption)
                eb_ = fb.bodies.get(e["id"])
                post = []
                if eb_ is not None:
                    re_ = return_expr(eb_)
                    if re_ is not None:
                        for c in walk_expr(re_):
                            if c.kind == "call" and c[1] != "interruptible::InterruptibleStreamExt::interruptible_with" and \
                                    (c[1].startswith("futures::StreamExt::") or c[1].startswith("futures::TryStreamExt::")) and \
                                    any(x.kind == "call" and x[1] == "interruptible::InterruptibleStreamExt::interruptible_with" for x in walk_expr(c)):
                                post.append(c[1].split("::")[-1])
                incl = [s_ for bx_ in m.reach_bodies(e["id"]) if bx_.root == e["id"] for sb_, blk_ in enumerate(bx_.blocks) if blk_["term"]["k"] == "switch"
                        for s_ in sources_of_expr(ctx, bx_, strip_refs(switch_expr(bx_, sb_)), mode="taint")
                        if s_.kind == "param" and s_[1] == e["id"] and s_[3][:1] == (f_inc,)]
                ctx.check(not post and not incl, rule + "1", "stream-items|%s" % e["name"], where,
                          "the items of interruptible_with are returned as they are; the include flag is not consulted by the stream API",
                          "the interruptible stream's items pass through %s / depend on interrupted_next_item_include after interruptible_with: "
                          "an Interrupted(Some(fn)) item can be rewritten or dropped" % (post or "a branch on the include flag"))
            continue
        # fold/for_each families: the call of the tracking function
        sites = [(b, bb, t) for (b, bb, t) in fl.call_sites().get(tf["id"], []) if b.id in m.reach(e["id"])]
        n += 1
        if len(sites) != 1:
            ctx.bad(rule + "1", "track-call|%s" % e["name"], where, "expected exactly one call of the ready-stream tracking function, found %d" % len(sites))
            continue
        b, bb, t = sites[0]
        for (pi, fld, nm) in ((st_idx, f_state, "interruptibility_state"), (inc_idx, f_inc, "interrupted_next_item_include")):
            if pi is None:
                continue
            srcs = fl.sources_operand(b, t["args"][pi[0] - 1], pi[1])
            if oi is not None:
                has = any(s.kind == "param" and s[1] == e["id"] and s[2] == oi and s[3][:1] == (fld,) for s in srcs)
                ctx.check(has, rule + "1", "%s|%s" % (nm, e["name"]), where,
                          "opts.%s flows unchanged from the public parameter to the ready-stream wrapper" % nm,
                          "opts.%s of this entry point does not reach the ready-stream wrapper: %s" % (nm, [fmt_src(s) for s in srcs][:4]))
            # every source is an opts parameter field or comes from StreamOpts::default()
            bad = []
            for s in srcs:
                if s.kind == "param" and s[3][:1] == (fld,) and "StreamOpts" in fb.bodies[s[1]].locals[s[2]]["s"]:
                    continue
                if any(cid in str(tuple(s)) for cid in ctor_ids):
                    continue
                bad.append(s)
            ctx.check(not bad, rule + "1", "%s-only|%s" % (nm, e["name"]), where,
                      "the %s given to the wrapper is only ever the caller's option or StreamOpts::default()'s value" % nm,
                      "the %s given to the wrapper also comes from %s" % (nm, [fmt_src(s) for s in bad][:3]))
    # I2: inside the tracking function
    I2(ctx, rule + "2", tb, inc_idx)
    ctx.counts[rule] = n
    if n < len(m.entries) or n < 5:
        ctx.unverifiable(rule + "1", "floor", "-", "only %d of %d entry points were checked for the interruptibility wiring" % (n, len(m.entries)))


def I2_rule(ctx, rule="I2"):
    """stand-alone entry for I2 (used by C09: an id that is run must be recorded)"""
    if not ctx.model.interruptible:
        return
    tf = track_fn(ctx)
    if tf is None:
        ctx.unverifiable(rule, "track-fn", "-", "ready-stream tracking function not found")
        return
    I2(ctx, rule, ctx.fb.bodies[tf["id"]], track_refs(ctx, tf)[1])


def I2(ctx, rule, tb, inc_idx):
    m, fb, fl = ctx.model, ctx.fb, ctx.model.flow
    where = m.where(tb)
    wraps = [(bb, t) for bb, t in tb.calls() if callee_path(t) == "interruptible::InterruptibleStreamExt::interruptible_with"]
    arms = {}
    for bb, t in wraps:
        arm = None
        for sb, vals in guards_of(tb, bb):
            d = tb.blocks[sb]["term"]["discr"]
            e = strip_refs(expr_operand(tb, d))
            if is_ref_expr(e, inc_idx):
                arm = "true" if ("otherwise" in vals and "0" not in vals) else "false"
        # is the wrapped stream the tracking (pushing) stream?
        inner = strip_refs(expr_operand(tb, t["args"][0]))
        pushes = False
        for c in walk_expr(inner):
            roots_ = []
            if c.kind == "call" and c[1] in fb.bodies:
                roots_.append(c[1])
            elif c.kind == "agg" and c[1] in ("closure", "coroutine") and c[2] in fb.bodies:
                roots_.append(c[2])     # the tracking stream written in place: `stream::poll_fn(move |cx| rx.poll_recv(cx).map(.. push ..))`
            for r_ in roots_:
                for bx in m.reach_bodies(r_):
                    if any((callee_path(t2) or "").endswith("Vec::<T, A>::push") for _, t2 in bx.calls()):
                        pushes = True
        arms[arm] = (pushes, bb)
    ok = arms.get("true", (False,))[0] is True and arms.get("false", (True,))[0] is False and len(wraps) == 2
    ctx.check(ok, rule, "include-selects", where,
              "interrupted_next_item_include == true wraps the *tracking* stream (the item polled at interruption is recorded and passed on); false wraps the raw receiver",
              "the include flag does not select between the tracking stream and the raw receiver: %s" % {k: v[0] for k, v in arms.items()})
    # false arm: the adaptor behind the raw interruptible stream: Interrupted arm clears the id and does not
    # record it; NoInterrupt records.  (filter_map with in-place mutation, or map rebuilding the outcome)
    fm = [(bb, t) for bb, t in tb.calls() if callee_path(t) in ("futures::StreamExt::filter_map", "futures::StreamExt::map",
                                                                 "futures::StreamExt::inspect", "futures::StreamExt::then")
          and any(c.kind == "call" and c[1] == "interruptible::InterruptibleStreamExt::interruptible_with"
                  for c in walk_expr(strip_refs(expr_operand(tb, t["args"][0]))))]
    okf = False
    why = "no adaptor recording ids behind the raw interruptible stream"
    if len(fm) == 1:
        fcl = fl._closure_body_of_operand(tb, fm[0][1]["args"][1])
        if fcl is not None and not any((callee_path(t) or "").endswith("Vec::<T, A>::push") for _, t in fcl.calls()):
            # the closure only forwards to a named private function (`move |o| fn_id_track_unless_interrupted(ids, o)`)
            hs_ = [fb.bodies[callee_path(t)] for _, t in fcl.calls() if (callee_path(t) or "") in fb.bodies and fb.bodies[callee_path(t)].kind == "fn"]
            hs_ = [h for h in hs_ if any((callee_path(t) or "").endswith("Vec::<T, A>::push") for _, t in h.calls())]
            if len(hs_) == 1:
                fcl = hs_[0]
        if fcl is not None:
            pushes = [(bb, t) for bb, t in fcl.calls() if (callee_path(t) or "").endswith("Vec::<T, A>::push")]
            takes = [(bb, t) for bb, t in fcl.calls() if callee_path(t) == TAKE]
            def names_of(body_):
                names = {}
                for bb_, si_, s_ in body_.stmts():
                    if s_["k"] != "assign":
                        continue
                    pls = []
                    if s_["rv"]["k"] in ("ref", "copy_for_deref", "discr"):
                        pls.append(s_["rv"]["pl"])
                    elif s_["rv"]["k"] == "use" and s_["rv"]["op"]["k"] != "const":
                        pls.append(s_["rv"]["op"]["pl"])
                    for pl in pls:
                        for pr in pl["p"]:
                            if isinstance(pr, dict) and "d" in pr and pr.get("name") in ("Interrupted", "NoInterrupt"):
                                names[pr["d"]] = pr["name"]
                if len(names) == 1:
                    # two-variant enum: the other index is the other variant
                    (d0, n0), = names.items()
                    names[1 - d0] = "NoInterrupt" if n0 == "Interrupted" else "Interrupted"
                return names
            names = names_of(fcl)

            def variant_guard(bb, fcl=fcl, names=names):
                out = set()
                for sb, vals in guards_of(fcl, bb):
                    de = switch_expr(fcl, sb)
                    if de.kind == "discr":
                        d = get_defs(fcl).unique_full(fcl.blocks[sb]["term"]["discr"]["pl"]["l"])
                        if d and "PollOutcome" in d[3]["rv"]["pl"]["ty"]:
                            listed = {v for v, _ in fcl.blocks[sb]["term"]["targets"]}
                            for v in vals:
                                if v != "otherwise":
                                    out.add(names.get(int(v), v))
                                else:
                                    # the `else` of a let-else / `_` arm: every variant that has no arm of its own
                                    for dv, nm in names.items():
                                        if str(dv) not in listed:
                                            out.add(nm)
                return out
            # (i) the push happens only for ids of the NoInterrupt arm
            push_ok = len(pushes) == 1
            why_p = "expected exactly one push"
            if push_ok:
                direct = variant_guard(pushes[0][0])
                if direct == {"NoInterrupt"}:
                    push_ok = True
                else:
                    opt_local = None
                    for sb, vals in guards_of(fcl, pushes[0][0]):
                        de = switch_expr(fcl, sb)
                        if de.kind == "discr" and strip_refs(de[1]).kind == "local":
                            opt_local = strip_refs(de[1])[1]
                    arms_opt = {}
                    if opt_local is not None:
                        for kind, bb, si, x in get_defs(fcl).of(opt_local):
                            if kind == "stmt" and x["rv"]["k"] == "agg":
                                arms_opt[x["rv"]["variant"]] = variant_guard(bb)
                    push_ok = arms_opt.get("Some") == {"NoInterrupt"} and arms_opt.get("None") == {"Interrupted"}
                    why_p = "pushed id assigned per arm: %s, direct guard %s" % (arms_opt, sorted(direct))
            # (ii) the Interrupted arm passes on no id
            take_arms = set()
            for bb, t in takes:
                take_arms |= variant_guard(bb)
            cleared = take_arms == {"Interrupted"}
            if not cleared:
                # `*fn_id = None` in the Interrupted arm
                for kind_, bb_, si_, st_ in [d for ds in get_defs(fcl).through.values() for d in ds]:
                    rv_ = st_["rv"]
                    if rv_["k"] == "use" and rv_["op"]["k"] != "const" and not rv_["op"]["pl"]["p"]:
                        d_ = get_defs(fcl).unique_full(rv_["op"]["pl"]["l"])
                        if d_ and d_[0] == "stmt":
                            rv_ = d_[3]["rv"]
                    if rv_["k"] == "agg" and rv_.get("variant") == "None" and variant_guard(bb_) == {"Interrupted"}:
                        cleared = True
            if not cleared:
                for bb_, si_, s_ in fcl.stmts():
                    if s_["k"] == "assign" and s_["rv"]["k"] == "agg" and (s_["rv"].get("def") or "").endswith("PollOutcome") and \
                            s_["rv"].get("variant") == "Interrupted" and variant_guard(bb_) == {"Interrupted"}:
                        pe = strip_refs(expr_operand(fcl, s_["rv"]["ops"][0]))
                        if pe.kind == "agg" and pe[3] == "None":
                            cleared = True
            if not cleared:
                # the clearing is done by a private helper applied to the item (`let o = interrupted_fn_id_discard(o);`): it rebuilds
                # `Interrupted(None)` in its Interrupted arm, constructs no other outcome, and what the closure passes on is its result
                for bbh_, th_ in fcl.calls():
                    H_ = fb.bodies.get(callee_path(th_) or "")
                    if H_ is None or H_.kind != "fn" or (fb.fns.get(H_.id) or {}).get("public") or len(th_["args"]) != 1:
                        continue
                    if strip_refs(expr_operand(fcl, th_["args"][0])) != E(("arg", 2)):
                        continue
                    hn_ = names_of(H_)
                    h_clear = False
                    h_other = False
                    for bb_, si_, s_ in H_.stmts():
                        if s_["k"] == "assign" and s_["rv"]["k"] == "agg" and (s_["rv"].get("def") or "").endswith("PollOutcome"):
                            pe = strip_refs(expr_operand(H_, s_["rv"]["ops"][0])) if s_["rv"]["ops"] else None
                            if s_["rv"].get("variant") == "Interrupted" and variant_guard(bb_, H_, hn_) == {"Interrupted"} and \
                                    pe is not None and pe.kind == "agg" and pe[3] == "None":
                                h_clear = True
                            else:
                                h_other = True
                    # the Interrupted arm of the helper returns only the rebuilt value: no def of the return place under the
                    # Interrupted guard other than the aggregate
                    passes_on = any(c.kind == "call" and c[1] == H_.id for c in walk_expr(strip_refs(expr_operand(fcl, get_defs(fcl).of(0)[0][3]["args"][0])))) \
                        if len(get_defs(fcl).of(0)) == 1 and get_defs(fcl).of(0)[0][0] == "call" else False
                    if h_clear and not h_other and passes_on and not list(H_.calls()):
                        cleared = True
            okf = push_ok and cleared
            if not okf:
                why = "push only for NoInterrupt ids: %s (%s); Interrupted arm carries no id: %s" % (push_ok, why_p, cleared)
    ctx.check(okf, rule, "exclude-filter", where,
              "with include == false the Interrupted arm clears the id (it is neither recorded nor run) and only NoInterrupt ids are recorded",
              why)


# ---------------------------------------------------------------------------
# C09

def O_rules(ctx, rule="O"):
    m, fb, fl = ctx.model, ctx.fb, ctx.model.flow
    new_id = "stream_outcome::StreamOutcome::<T>::new"
    newb = fb.bodies.get(new_id)
    if newb is None:
        ctx.unverifiable(rule + "2", "new", "-", "StreamOutcome::new not found")
        return
    sig = fb.fns[new_id]
    p_proc = [i for i, x in enumerate(sig["inputs"]) if x["s"].startswith("std::vec::Vec<")][0] + 1
    p_state = [i for i, x in enumerate(sig["inputs"]) if "StreamOutcomeState" in x["s"]][0] + 1
    p_graph = [i for i, x in enumerate(sig["inputs"]) if "daggy::Dag" in x["s"]][0] + 1
    sites = [(b, bb, t) for (b, bb, t) in fl.call_sites().get(new_id, []) if not fb.is_test_body(b)]
    proc_allocs = set()
    for (b, bb, t) in sites:
        for s in fl.sources_operand(b, t["args"][p_proc - 1]):
            if s.kind == "alloc":
                proc_allocs.add((s[1], s[2]))
    push_allocs = set()
    for b0 in fb.prod_bodies():
        for bb0, t0 in b0.calls():
            if (callee_path(t0) or "").endswith("Vec::<T, A>::push"):
                if m.is_ready_item(fl.sources_operand(b0, t0["args"][1])):
                    for s0 in fl.sources_operand(b0, t0["args"][0]):
                        if s0.kind == "alloc":
                            push_allocs.add((s0[1], s0[2]))
    # O1: pushes
    n1 = 0
    for b in fb.prod_bodies():
        for bb, t in b.calls():
            if not (callee_path(t) or "").endswith("Vec::<T, A>::push"):
                continue
            vs = fl.sources_operand(b, t["args"][0])
            if not any(s.kind == "alloc" and (s[1], s[2]) in proc_allocs for s in vs):
                continue
            n1 += 1
            key = short(b.id)
            idsrc = fl.sources_operand(b, t["args"][1])
            ctx.check(m.is_ready_item(idsrc), rule + "1", "push-id|%s" % key, m.where(b, bb),
                      "the id pushed to fn_ids_processed is the id dequeued from READY",
                      "fn_ids_processed receives an id with sources %s" % [fmt_src(s) for s in idsrc][:4])
            # location: not inside a per-item body (recorded at dequeue, not at completion)
            in_item = any(b.id == pb.id or b.id.startswith(pb.id + "::") or b.id in m.reach_calls(pb.id)
                          for e in m.entries for pb in m.per_item_bodies(e["id"]))
            ctx.check(not in_item and not b.back_edges(), rule + "1", "push-at-dequeue|%s" % key, m.where(b, bb),
                      "the push happens in the ready-stream adaptor (at dequeue, once per id), not in the per-item body",
                      "the push happens in the per-item body / in a loop: order and multiplicity of fn_ids_processed no longer follow the dequeue order")
    want1 = 2 if m.interruptible else 1
    if n1 < want1:
        ctx.unverifiable(rule + "1", "floor", "-", "expected %d push site(s) on fn_ids_processed, found %d" % (want1, n1))
    # every streaming call hands the vector it tracked to StreamOutcome::new
    for (b, bb, t) in sites:
        vs = fl.sources_operand(b, t["args"][p_proc - 1])
        ok = bool(vs) and all(s.kind == "alloc" and (s[1], s[2]) in push_allocs for s in vs)
        gs = fl.sources_operand(b, t["args"][p_graph - 1])
        from rules_sched import structure_from_setup
        ctx.check(ok and structure_from_setup(ctx, gs), rule + "2", "new-args|%s" % short(b.id), m.where(b, bb),
                  "StreamOutcome::new receives the very vector the dequeued ids were pushed to, and the walked structure",
                  "StreamOutcome::new receives processed=%s structure=%s" % ([fmt_src(s) for s in vs][:3], [fmt_src(s) for s in gs][:3]))
    for (b, bb, t) in sites:
        ctx.cover(rule + "2", b.id)
    ctx.entry_floor(rule + "2", rule + "2", ("fold", "for_each", "try_fold", "try_for_each"), "StreamOutcome::new call")
    # O2: body of new
    agg = None
    for bb, si, s in newb.stmts():
        if s["k"] == "assign" and s["rv"]["k"] == "agg" and s["rv"].get("def") == "stream_outcome::StreamOutcome":
            agg = s
    via_ctor = None
    if agg is None:
        # `new` may hand its parts to a private all-fields constructor (`Self::with_state(value, state, processed, not_processed)`)
        for bb_, t_ in newb.calls():
            W = fb.bodies.get(callee_path(t_) or "")
            if W is None or W.kind != "fn" or (fb.fns.get(W.id) or {}).get("public") or "StreamOutcome" not in t_["dest"]["ty"]:
                continue
            for bbw, siw, sw in W.stmts():
                if sw["k"] == "assign" and sw["rv"]["k"] == "agg" and sw["rv"].get("def") == "stream_outcome::StreamOutcome":
                    exs = [strip_refs(expr_operand(W, o)) for o in sw["rv"]["ops"]]
                    if all(e_.kind == "arg" for e_ in exs):
                        agg = sw
                        via_ctor = (t_, [e_[1] for e_ in exs])
    if agg is None:
        ctx.unverifiable(rule + "2", "new-agg", m.where(newb), "StreamOutcome construction not found")
    else:
        fields = agg["rv"]["fields"]
        ops = agg["rv"]["ops"]
        if via_ctor is not None:
            ops = [via_ctor[0]["args"][k_ - 1] for k_ in via_ctor[1]]
        def src_of(name):
            return strip_refs(expr_operand(newb, ops[fields.index(name)]))
        ps = src_of("fn_ids_processed")
        ss = src_of("state")
        ctx.check(ps == E(("arg", p_proc)) and ss == E(("arg", p_state)),
                  rule + "2", "stored-unchanged", m.where(newb),
                  "fn_ids_processed and state are stored exactly as passed in",
                  "fn_ids_processed/state are not stored unchanged: %s / %s" % (fmt_expr(ps, newb), fmt_expr(ss, newb)))
        # not-processed = filter over all nodes of the structure by !processed.contains(id), in node order
        npe = strip_refs(expr_operand(newb, ops[fields.index("fn_ids_not_processed")]))
        ok2 = False
        why = "fn_ids_not_processed is not a collect() over the structure's nodes"
        newb0, p_graph0, p_proc0 = newb, p_graph, p_proc
        if npe.kind == "call" and npe[1] in fb.bodies and fb.bodies[npe[1]].kind == "fn" and not (fb.fns.get(npe[1]) or {}).get("public"):
            # computed by a private helper (`Self::fn_ids_not_in(graph_structure, &fn_ids_processed)`): look at its body, with
            # its parameters standing for the structure and the processed list
            H_ = fb.bodies[npe[1]]
            hg = [i + 1 for i, a_ in enumerate(npe[2]) if strip_refs(a_) == E(("arg", p_graph))]
            hp = [i + 1 for i, a_ in enumerate(npe[2]) if strip_refs(a_) == E(("arg", p_proc)) or E(("arg", p_proc)) in list(walk_expr(strip_refs(a_)))]
            re_h = return_expr(H_)
            if len(hg) == 1 and len(hp) == 1 and re_h is not None:
                newb, p_graph, p_proc, npe = H_, hg[0], hp[0], strip_refs(re_h)
        if npe.kind == "call" and npe[1] == "std::iter::Iterator::collect":
            chain = iterator_chain(ctx, newb, npe[2][0])
            names = [c[0] for c in chain]
            srcn = [c for c in chain if c[0] in ALL_NODE_SOURCES]
            fms = [c for c in chain if c[0] in ("std::iter::Iterator::filter_map", "std::iter::Iterator::filter")]
            other = [n for n in names if n in SELECTIVE_ITER and n not in ("std::iter::Iterator::filter_map", "std::iter::Iterator::filter")
                     or n in MORE_ITER]
            if srcn and len(fms) == 1 and not other:
                ge_ = strip_refs(srcn[0][2][2][0])
                while ge_.kind == "call" and (ge_[1].endswith("Dag::<N, E, Ix>::graph") or ge_[1] == "std::ops::Deref::deref") and ge_[2]:
                    ge_ = strip_refs(ge_[2][0])     # the Dag's inner petgraph: same nodes, same order
                g_ok = ge_ == E(("arg", p_graph)) and srcn[0][1].id == newb.id
                fcl = closure_of_arg(ctx, fms[0][1], fms[0][2][2][1])
                if fcl is not None:
                    cont = [(bb, t) for bb, t in fcl.calls() if (callee_path(t) or "").endswith("::contains")]
                    if len(cont) == 1:
                        bbc, tc = cont[0]
                        he = strip_refs(expr_operand(fcl, tc["args"][0]))
                        h_ok = False
                        for c_ in walk_expr(he):
                            ui = upvar_index(c_)
                            if ui is not None:
                                sites_ = fl.closure_sites().get(fcl.id, [])
                                if len(sites_) == 1:
                                    pe = strip_refs(expr_operand(sites_[0][0], sites_[0][3]["rv"]["ops"][ui]))
                                    h_ok = pe == E(("arg", p_proc)) or E(("arg", p_proc)) in list(walk_expr(pe))
                        # Some(id) returned on the not-contained arm
                        some_arm = none_arm = None
                        for kind, dbb, si, x in get_defs(fcl).of(0):
                            if kind == "stmt" and x["rv"]["k"] == "agg":
                                for sb, vals in guards_of(fcl, dbb):
                                    if fcl.blocks[sb]["term"]["discr"].get("pl", {}).get("l") == tc["dest"]["l"]:
                                        tt = "otherwise" in vals and "0" not in vals
                                        if x["rv"]["variant"] == "Some":
                                            some_arm = tt
                                        else:
                                            none_arm = tt
                        re0 = return_expr(fcl)
                        if fms[0][0] == "std::iter::Iterator::filter_map" and re0 is not None and re0.kind == "call" and \
                                re0[1].endswith("::then_some") and len(re0[2]) == 2:
                            # `(!processed.contains(&id)).then_some(id)`
                            c0 = strip_refs(re0[2][0])
                            neg = False
                            while c0.kind == "unop" and c0[1] == "Not":
                                neg = not neg
                                c0 = strip_refs(c0[2])
                            if c0.kind == "call" and len(c0) > 3 and c0[3] == bbc and neg:
                                some_arm, none_arm = False, True
                        if fms[0][0] == "std::iter::Iterator::filter":
                            # `filter(|id| !processed.contains(id))`: kept iff not contained
                            re_ = return_expr(fcl)
                            neg = False
                            while re_ is not None and re_.kind == "unop" and re_[1] == "Not":
                                neg = not neg
                                re_ = strip_refs(re_[2])
                            if re_ is not None and re_.kind == "call" and len(re_) > 3 and re_[3] == bbc and neg:
                                some_arm, none_arm = False, True
                        ok2 = g_ok and h_ok and some_arm is False and none_arm is True
                        why = "structure is the parameter: %s; haystack is fn_ids_processed: %s; Some on not-contained: %s; None on contained: %s" % (
                            g_ok, h_ok, some_arm is False, none_arm is True)
        if not ok2 and not (npe.kind == "call" and npe[1] == "std::iter::Iterator::collect"):
            # loop form: `let mut out = Vec::new(); for id in <all nodes> { if !processed.contains(&id) { out.push(id) } } out`
            from rules_sched import ranges_all_nodes
            from rules_build import loop_item_path
            rsrc_ = fl.sources_local(newb, 0, ()) if newb is not newb0 else fl.sources_operand(newb0, ops[fields.index("fn_ids_not_processed")])
            news_ = [x for x in rsrc_ if x.kind == "alloc" and x[1] == newb.id and x[4].split("::")[-1] in ("new", "with_capacity")]
            pushes_ = [(pbb, pt) for pbb, pt in newb.calls() if (callee_path(pt) or "").endswith("Vec::<T, A>::push") and
                       set(fl.sources_operand(newb, pt["args"][0])) & set(rsrc_)]
            if len(news_) == 1 and len(rsrc_) == 1 and len(pushes_) == 1:
                pbb, pt = pushes_[0]
                lr = loop_region(ctx, newb, pbb)
                if lr is not None and not lr["early_exits"] and lr.get("iter_expr") is not None:
                    chain = iterator_chain(ctx, newb, lr["iter_expr"])
                    names = [c[0] for c in chain]
                    all_nodes = (ranges_all_nodes(chain) or bool([c for c in chain if c[0] in ALL_NODE_SOURCES])) and \
                        not [n for n in names if n in SELECTIVE_ITER or n == "std::iter::Iterator::rev"]
                    gsrc_ok = True
                    for c in chain:
                        for x in walk_expr(c[2]):
                            if x.kind == "call" and x[1] in set(NODE_COUNT_FNS) | set(ALL_NODE_SOURCES) and x[2]:
                                ge_ = strip_refs(x[2][0])
                                while ge_.kind == "call" and (ge_[1].endswith("Dag::<N, E, Ix>::graph") or ge_[1] == "std::ops::Deref::deref") and ge_[2]:
                                    ge_ = strip_refs(ge_[2][0])
                                gsrc_ok = gsrc_ok and ge_ == E(("arg", p_graph))
                    ip = loop_item_path(strip_refs(expr_operand(newb, pt["args"][1])))
                    item_ok = ip is not None and ip[0] == lr["next_bb"]
                    gl = [(sb, de, vals) for sb, de, vals in cond_guards(newb, pbb) if sb in lr["blocks"] and sb != lr.get("switch_bb")]
                    g_ok2 = False
                    if len(gl) == 1:
                        de = strip_refs(gl[0][1])
                        neg = False
                        while de.kind == "unop" and de[1] == "Not":
                            neg = not neg
                            de = strip_refs(de[2])
                        taken_true = "otherwise" in gl[0][2] and "0" not in gl[0][2]
                        taken_false = "0" in gl[0][2] and "otherwise" not in gl[0][2]
                        if de.kind == "call" and de[1].endswith("::contains") and len(de[2]) == 2:
                            hay = strip_refs(de[2][0])
                            hay_ok = hay == E(("arg", p_proc)) or E(("arg", p_proc)) in list(walk_expr(hay))
                            needle = loop_item_path(strip_refs(de[2][1]))
                            g_ok2 = hay_ok and needle is not None and needle[0] == lr["next_bb"] and ((taken_false and not neg) or (taken_true and neg))
                    ok2 = bool(all_nodes and gsrc_ok and item_ok and g_ok2)
                    why = "loop form: over all nodes of the structure parameter %s/%s, pushes the loop item %s, guarded exactly by `!processed.contains(item)` %s" % (
                        all_nodes, gsrc_ok, item_ok, g_ok2)
        ctx.check(ok2, rule + "2", "complement", m.where(newb),
                  "fn_ids_not_processed is the node-order filter `!fn_ids_processed.contains(id)` over all nodes of the walked structure", why)
        newb, p_graph, p_proc = newb0, p_graph0, p_proc0
    # O3: state mapping
    mp = None
    mp_arg = 1
    for f in fb.fns.values():
        if len(f["inputs"]) == 1 and f["inputs"][0]["s"] == "usize" and "StreamOutcomeState" in f["output"]["s"] and not f.get("impl_self"):
            mp = fb.bodies.get(f["id"])
    if mp is None:
        # an associated function / a constructor taking the countdown among other things
        # (`StreamOutcomeState::after_stream(n)`, `StreamOutcome::after_stream(structure, value, n, processed)`)
        for f in sorted(fb.fns.values(), key=lambda x: x["id"]):
            us = [i for i, x in enumerate(f["inputs"]) if x["s"] == "usize"]
            bx_ = fb.bodies.get(f["id"])
            if f.get("public") or len(us) != 1 or bx_ is None or bx_.kind != "fn" or fb.is_test_body(bx_):
                continue
            if not ("StreamOutcomeState" in f["output"]["s"] or "stream_outcome::StreamOutcome<" in f["output"]["s"]):
                continue
            vs_ = {s_["rv"].get("variant") for _, _, s_ in bx_.stmts() if s_["k"] == "assign" and s_["rv"]["k"] == "agg" and
                   s_["rv"].get("def") == "stream_outcome::StreamOutcomeState"}
            if {"Finished", "Interrupted"} <= vs_:
                mp = bx_
                mp_arg = us[0] + 1
    if mp is None:
        ctx.unverifiable(rule + "3", "state-map", "-", "state mapping function (usize -> StreamOutcomeState) not found")
    else:
        arms = {}
        state_defs = [(kind, dbb, si, x) for kind, dbb, si, x in get_defs(mp).of(0)]
        if not any(kind == "stmt" and x["rv"]["k"] == "agg" and x["rv"].get("def") == "stream_outcome::StreamOutcomeState" for kind, dbb, si, x in state_defs):
            state_defs = [("stmt", bb_, si_, s_) for bb_, si_, s_ in mp.stmts() if s_["k"] == "assign" and s_["rv"]["k"] == "agg" and
                          s_["rv"].get("def") == "stream_outcome::StreamOutcomeState"]
        for kind, dbb, si, x in state_defs:
            if kind == "stmt" and x["rv"]["k"] == "agg":
                for sb, vals in guards_of(mp, dbb):
                    de = strip_refs(switch_expr(mp, sb))
                    if de.kind == "arg":
                        # match n { 0 => .., _ => .. }
                        arms[x["rv"]["variant"]] = "zero" if sorted(vals) == ["0"] else ("nonzero" if "0" not in vals else "?")
                    elif de.kind == "binop" and de[1] in ("Eq", "Ne") and (is_const(de[3], 0) or is_const(de[2], 0)):
                        other = de[2] if is_const(de[3], 0) else de[3]
                        if strip_refs(other).kind == "arg":
                            tt = "otherwise" in vals and "0" not in vals
                            zero = (de[1] == "Eq") == tt
                            arms[x["rv"]["variant"]] = "zero" if zero else "nonzero"
        ctx.check(arms == {"Finished": "zero", "Interrupted": "nonzero"}, rule + "3", "state-map", m.where(mp),
                  "remaining == 0 maps to Finished, anything else to Interrupted", "state mapping is %s" % arms)
        n3 = 0
        for (b, bb, t) in fl.call_sites().get(mp.id, []):
            if fb.is_test_body(b):
                continue
            n3 += 1
            ctx.cover(rule + "3", b.id)
            srcs = fl.sources_operand(b, t["args"][mp_arg - 1], (), "taint") if mp_arg - 1 < len(t["args"]) else frozenset()
            has_nc = any(s.kind == "alloc" and s[4] in NODE_COUNT_FNS for s in srcs)
            ctx.check(has_nc, rule + "3", "remaining-arg|%s" % short(b.id), m.where(b, bb),
                      "the state is derived from the countdown initialised from node_count()",
                      "the state is derived from %s" % [fmt_src(s) for s in srcs][:4])
        # the mapped state is what the outcome carries: the `state` argument of every StreamOutcome::new outside the mapping function
        # comes from a call of the mapping function only (a later `if interrupted_seen { Interrupted } else { state }` reports
        # Interrupted although every function was processed)
        new_sig = fb.fns.get(new_id) or {}
        st_idx = [i for i, x in enumerate(new_sig.get("inputs", [])) if "StreamOutcomeState" in x["s"]]
        if len(st_idx) == 1:
            for (b, bb, t) in fl.call_sites().get(new_id, []):
                if fb.is_test_body(b) or b.id == mp.id or b.root == mp.id or st_idx[0] >= len(t["args"]):
                    continue
                srcs = fl.sources_operand(b, t["args"][st_idx[0]])
                mp_reach = set(m.reach(mp.id))

                def from_mp(s_):
                    # the flow query looks through the call: the mapping's own aggregates (or its call, when opaque)
                    return (s_.kind == "alloc" and s_[4] == mp.id) or (s_.kind in ("agg", "alloc", "const") and len(s_) > 1 and s_[1] in mp_reach)
                other = [s for s in srcs if not from_mp(s) and s.kind != "param"]
                if not any(from_mp(s) for s in srcs):
                    continue        # a constructor call that does not use the mapping at all (covered by state-map / remaining-arg floors)
                ctx.check(not other, rule + "3", "state-from-map|%s" % short(b.id), m.where(b, bb),
                          "the state stored in the outcome is the mapping's result, unchanged",
                          "the state stored in the outcome is the mapping's result or %s: the outcome can say Interrupted / Finished against the countdown" % [fmt_src(s) for s in other][:3])
        ctx.entry_floor(rule + "3", rule + "3", ("fold", "for_each", "try_fold", "try_for_each"), "call of the state mapping")
    O4(ctx, rule + "4")


def O5(ctx, rule="O5"):
    """Who may make an outcome: on the streaming paths every StreamOutcome is
    produced by StreamOutcome::new (state and lists computed from the run) and
    afterwards only transformed by map/replace*; no path returns a literal, a
    Default or a `finished_with` outcome."""
    m, fb = ctx.model, ctx.fb
    bodies = set()
    for e in m.entries:
        if m.family(e) != "stream":
            bodies |= m.reach(e["id"])
    n_new = 0
    bad = []
    tampered = []
    so_fields = [f["name"] for f in (fb.adts.get("stream_outcome::StreamOutcome") or {"variants": [{"fields": []}]})["variants"][0]["fields"]]

    def outcome_field(b, pl):
        """name of the StreamOutcome field a place projects into, if any"""
        cur = (b.locals[pl["l"]] or {}).get("def") if pl["l"] < len(b.locals) else None
        for el in pl["p"]:
            if isinstance(el, dict) and "f" in el:
                if cur == "stream_outcome::StreamOutcome":
                    return so_fields[el["f"]] if el["f"] < len(so_fields) else "?"
                ty = el.get("ty") or ""
                cur = "stream_outcome::StreamOutcome" if ty.lstrip("&mut ").startswith("stream_outcome::StreamOutcome<") else None
            elif el != "*":
                cur = None
        return None

    for bid in sorted(bodies):
        b = fb.bodies[bid]
        if bid.startswith("stream_outcome::") or bid.startswith("<stream_outcome::"):
            # the outcome type's own methods: only a crate-private constructor that goes through `new` counts as a source
            for bb, t in b.calls():
                if (callee_path(t) or "") == "stream_outcome::StreamOutcome::<T>::new" and not (fb.fns.get(b.id) or {}).get("public"):
                    n_new += 1
                    ctx.cover(rule, b.id)
            continue
        for bb, t in b.calls():
            p = callee_path(t) or ""
            r = ((t.get("callee") or {}).get("resolved") or {})
            rp = r.get("path", "") if isinstance(r, dict) else ""
            if p == "stream_outcome::StreamOutcome::<T>::new":
                n_new += 1
                ctx.cover(rule, b.id)
            elif t["dest"]["ty"].startswith("stream_outcome::StreamOutcome<") and (
                    p in ("std::default::Default::default", "stream_outcome::StreamOutcome::<T>::finished_with") or "stream_outcome::StreamOutcome" in rp and rp.endswith("::default")):
                bad.append((b, bb, "call to %s" % (rp or p)))
        for bb, si, s_ in b.stmts():
            if s_["k"] == "assign" and s_["rv"]["k"] == "agg" and s_["rv"].get("def") == "stream_outcome::StreamOutcome":
                bad.append((b, bb, "struct literal"))
            # ... and nothing outside the outcome type rewrites what `new` recorded: no store to, and no mutable borrow of, the
            # state / id-list fields of an outcome (the `value` payload is the caller's and may be replaced)
            if s_["k"] == "assign":
                for pl, how in ((s_["pl"], "store to"),) + (((s_["rv"]["pl"], "mutable borrow of"),) if s_["rv"]["k"] == "ref" and s_["rv"].get("bk") != "shared" else ()):
                    fld = outcome_field(b, pl)
                    if fld is not None and fld != "value" and not (s_.get("sp") or {}).get("exp"):
                        tampered.append((b, bb, "%s `.%s`" % (how, fld)))
    for b, bb, why in bad:
        ctx.bad(rule, "outcome-source|%s" % short(b.id), m.where(b, bb),
                "a streaming path makes a StreamOutcome by %s instead of StreamOutcome::new: its state and id lists do not reflect the run (e.g. NotStarted for an empty graph)" % why)
    for b, bb, why in tampered:
        ctx.bad(rule, "outcome-rewritten|%s|%s" % (short(b.id), why.split("`")[1]), m.where(b, bb),
                "%s of a StreamOutcome outside the outcome type: what StreamOutcome::new recorded from the run (state Finished iff nothing "
                "remained, the processed ids) is overwritten afterwards" % why)
    if not tampered:
        ctx.ok(rule, "outcome-rewritten", "-", "no body on the fold/for_each paths stores to or mutably borrows the state / id-list fields of a StreamOutcome")
    if not bad:
        ctx.ok(rule, "outcome-source", "-", "%d bodies on the fold/for_each paths: every StreamOutcome comes from StreamOutcome::new (%d call sites)" % (len(bodies), n_new))
    # every fold / for_each / try_* entry point reaches a StreamOutcome::new call (directly or through a shared helper)
    ctx.entry_floor(rule, rule, ("fold", "for_each", "try_fold", "try_for_each"), "StreamOutcome::new call")


def O7(ctx, rule="O7"):
    """Frame rule of the outcome type: a method that consumes an outcome and returns one (`map`, `replace`, `replace_with`) hands
    on the state and both id lists exactly as they were (only the value changes), and the read accessors return the field they
    are named after."""
    m, fb, fl = ctx.model, ctx.fb, ctx.model.flow
    adt = fb.adts.get("stream_outcome::StreamOutcome")
    if not adt:
        ctx.unverifiable(rule, "outcome", "-", "StreamOutcome not found")
        return
    flds = [f["name"] for f in adt["variants"][0]["fields"]]
    kept = [i for i, n_ in enumerate(flds) if n_ != "value"]
    n = 0
    # methods of the outcome type taking the outcome as their first parameter: they may delegate to each other
    # (`replace(v)` = `replace_with(|old| (v, old))`), so field i of any of their `self` parameters is "the field as given"
    selfish = {b_.id for b_ in fb.prod_bodies() if b_.kind == "fn" and (fb.fns.get(b_.id) or {}).get("inputs") and
               ((fb.fns.get(b_.id) or {}).get("impl_self") or "").startswith("stream_outcome::StreamOutcome") and
               fb.fns[b_.id]["inputs"][0]["s"].lstrip("&").replace("mut ", "").startswith("stream_outcome::StreamOutcome<")}
    for b in fb.prod_bodies():
        sig = fb.fns.get(b.id)
        if not sig or b.kind != "fn" or not (sig.get("impl_self") or "").startswith("stream_outcome::StreamOutcome") or sig.get("impl_trait"):
            continue
        if not sig["inputs"] or not sig["inputs"][0]["s"].lstrip("&").replace("mut ", "").startswith("stream_outcome::StreamOutcome<"):
            continue
        out = sig["output"]["s"]
        by_value = sig["inputs"][0]["s"].startswith("stream_outcome::StreamOutcome<")
        if by_value and "stream_outcome::StreamOutcome<" in out:
            base = () if out.startswith("stream_outcome::StreamOutcome<") else ((0,) if out.startswith("(stream_outcome::StreamOutcome<") else None)
            if base is None:
                ctx.unverifiable(rule, "frame|%s" % sig["name"], m.where(b), "return type `%s` not understood" % out)
                continue
            for i in kept:
                n += 1
                srcs = fl.sources_local(b, 0, base + (i,))
                ok = bool(srcs) and all(x.kind == "param" and x[1] in selfish and x[2] == 1 and tuple(x[3][:1]) == (i,) for x in srcs) and \
                    any(x[1] == b.id for x in srcs)
                ctx.check(ok, rule, "frame|%s|%s" % (sig["name"], flds[i]), m.where(b),
                          "StreamOutcome::%s returns `%s` exactly as the outcome it was given had it" % (sig["name"], flds[i]),
                          "StreamOutcome::%s does not hand `%s` on unchanged (it comes from %s): what the run recorded is lost when the "
                          "caller transforms the outcome" % (sig["name"], flds[i], [fmt_src(x) for x in srcs][:3]))
        elif not by_value and sig["name"] in flds and sig["name"] != "value" and len(sig["inputs"]) == 1:
            i = flds.index(sig["name"])
            n += 1
            srcs = fl.sources_local(b, 0, ())
            ok = bool(srcs) and all(x.kind == "param" and x[1] == b.id and x[2] == 1 and tuple(x[3][:1]) == (i,) for x in srcs)
            ctx.check(ok, rule, "accessor|%s" % sig["name"], m.where(b),
                      "StreamOutcome::%s() returns the field `%s`" % (sig["name"], flds[i]),
                      "StreamOutcome::%s() returns something other than the field `%s`: %s" % (sig["name"], flds[i], [fmt_src(x) for x in srcs][:3]))
    if n < 3:
        ctx.unverifiable(rule, "floor", "-", "expected the transforming methods / accessors of StreamOutcome, found %d obligations" % n)


def lifted_guards(ctx, b, bb):
    """[(body, switch_bb, discr expr, values)] guards of block bb in b, plus --
    when b is (the coroutine of) a closure that a private higher-order helper
    calls -- the guards of that call inside the helper."""
    fl = ctx.model.flow
    out = [(b, sb, de, vals) for sb, de, vals in cond_guards(b, bb)]
    x = b
    hops = 0
    while x is not None and hops < 3:
        hops += 1
        cl = x if x.kind == "closure" else (ctx.fb.bodies.get(x.parent) if x.parent else None)
        if cl is None or cl.kind != "closure":
            break
        sites = fl.internal_callback_sites(cl)
        if not sites:
            break
        for (hb, hbb, ht) in sites:
            out += [(hb, sb, de, vals) for sb, de, vals in cond_guards(hb, hbb)]
        x = sites[0][0]
    return out


def O6(ctx, rule="O6"):
    """Every dequeued id is handed to the caller: in each per-item body the
    call of the user's function is control dependent only on the dequeued
    `Option<id>` being `Some` (and on await plumbing) -- no flag, lock state or
    earlier failure lets the body skip an id that the ready stream has already
    recorded as processed."""
    m, fb, fl = ctx.model, ctx.fb, ctx.model.flow
    seen = set()
    n = 0
    for e in m.entries:
        if m.family(e) == "stream":
            continue
        for b in m.per_item_bodies(e["id"]):
            if b.id in seen:
                continue
            seen.add(b.id)
            pcs = m.param_calls(b)
            for bb, t, pn in pcs:
                if not user_awaits(ctx, b) and b.kind == "closure":
                    continue        # adapter closure of a control wrapper: runs inside another per-item body
                n += 1
                ctx.cover(rule, b.id)
                bad = []
                lr = loop_region(ctx, b, bb)
                for gb, sb, de, vals in lifted_guards(ctx, b, bb):
                    if (gb.blocks[sb]["term"].get("sp") or {}).get("desugar") == "Await":
                        continue
                    if gb is b and lr is not None and lr.get("switch_bb") == sb:
                        continue
                    ex = strip_refs(de)
                    if ex.kind == "discr":
                        srcs = sources_of_expr(ctx, gb, strip_refs(ex[1]))
                        if srcs and m.is_ready_item(srcs) and "1" in vals:
                            continue
                    bad.append(fmt_expr(ex, gb))
                ctx.check(not bad, rule, "handed-out|%s" % short(b.id), m.where(b, bb),
                          "the user's function is called for every id dequeued from the ready stream (only guard: the dequeued Option is Some)",
                          "the call of the user's function is additionally guarded by %s: a dequeued id, already recorded as processed, can be skipped" % bad[:3])
    ctx.counts[rule] = n
    ctx.entry_floor(rule, rule, ("fold", "for_each", "try_fold", "try_for_each"), "per-item body calling the user's function")


def clone_frame(ctx, rule="Q6"):
    """a clone of the graph has every field copied from the same field (the reversed structure is not a copy of the forward
    one, the counts are the counts): a derived Clone, or a hand-written one that is field-by-field"""
    fb, m = ctx.fb, ctx.model
    imp = [i for i in fb.impls if i.get("trait") == "std::clone::Clone" and (i.get("self_ty") or "").startswith("fn_graph::FnGraph<")]
    found = False
    for bq in fb.prod_bodies():
        sigq = fb.fns.get(bq.id) or {}
        if sigq.get("impl_trait") == "std::clone::Clone" and (sigq.get("impl_self") or "").startswith("fn_graph::FnGraph<") and sigq.get("name") == "clone":
            found = True
            aggs = [s_ for _, _, s_ in bq.stmts() if s_["k"] == "assign" and s_["rv"]["k"] == "agg" and s_["rv"].get("def") == "fn_graph::FnGraph"]
            okq = bool(aggs)
            whyq = "no FnGraph construction in clone()"
            for s_ in aggs:
                for i, o in enumerate(s_["rv"]["ops"]):
                    ex = strip_refs(expr_operand(bq, o))
                    hops = 0
                    while ex.kind == "call" and ex[1] in ("std::clone::Clone::clone", "std::borrow::ToOwned::to_owned") and ex[2] and hops < 4:
                        ex = strip_refs(ex[2][0])
                        hops += 1
                    if not (ex.kind == "field" and strip_refs(ex[1]) == E(("arg", 1)) and ex[2] == i):
                        okq = False
                        whyq = "field #%d (%s) of the clone is `%s`" % (i, (s_["rv"].get("fields") or [""] * (i + 1))[i], fmt_expr(ex, bq))
            ctx.check(okq, rule, "clone-frame", m.where(bq),
                      "FnGraph::clone copies every field from the same field of the original", whyq)
    if not found:
        ctx.check(bool(imp), rule, "clone-frame", "src/fn_graph.rs", "FnGraph: Clone is present (derived: no MIR body of its own to inspect in this configuration)",
                  "no Clone impl for FnGraph found")


def O3b(ctx, rule="O3b"):
    """the countdown of remaining functions is decremented for every item that
    was handed out, whatever the user future returned (else the final state is
    Interrupted although everything was processed)"""
    m, fb, fl = ctx.model, ctx.fb, ctx.model.flow
    n = 0
    seen = set()
    for e in m.entries:
        fam = m.family(e)
        if fam == "stream":
            continue
        for b in m.per_item_bodies(e["id"]):
            if b.id in seen or b.kind != "coroutine":
                continue
            uas = user_awaits(ctx, b)
            if not uas:
                continue
            seen.add(b.id)
            n += 1
            ctx.cover(rule, b.id)
            # decrement sites: `x -= 1` on a node_count-derived value, or a call to a crate-local helper doing it
            dec_blocks = []
            helper_cond = []
            for bb, si, s_ in b.stmts():
                if s_["k"] == "assign" and s_["rv"]["k"] in ("use",):
                    v = expr_rvalue(b, s_["rv"], 0, (bb, si))
                    if v.kind == "binop" and v[1] == "Sub" and is_const(v[3], 1):
                        srcs = sources_of_expr(ctx, b, v[2], mode="taint")
                        if any(x.kind == "alloc" and x[4] in NODE_COUNT_FNS for x in srcs):
                            dec_blocks.append(bb)
            def atomic_dec(xb, t_):
                # `countdown.fetch_sub(1, ..)` on an atomic initialised from node_count()
                p_ = callee_path(t_) or ""
                if p_.startswith("std::sync::atomic::Atomic") and p_.endswith("::fetch_sub") and len(t_["args"]) >= 2 and \
                        is_const(strip_refs(expr_operand(xb, t_["args"][1])), 1):
                    return any(x.kind == "alloc" and x[4] in NODE_COUNT_FNS for x in fl.sources_operand(xb, t_["args"][0], (), "taint"))
                return False
            for bb, t in b.calls():
                if atomic_dec(b, t):
                    dec_blocks.append(bb)
            for bb, t in b.calls():
                p = callee_path(t)
                if p in fb.bodies:
                    for hb in m.reach_bodies(p):
                        if any(atomic_dec(hb, t2_) for _, t2_ in hb.calls()):
                            dec_blocks.append(bb)
                        for ds in get_defs(hb).through.values():
                            for kind_, bb_, si_, st_ in ds:
                                v = expr_rvalue(hb, st_["rv"], 0, (bb_, si_))
                                if v.kind == "binop" and v[1] == "Sub" and is_const(v[3], 1):
                                    ps = fl.sources_local(hb, st_["pl"]["l"], (), "taint")
                                    if any(x.kind == "alloc" and x[4] in NODE_COUNT_FNS for x in ps):
                                        hg = [g for g in cond_guards(hb, bb_) if (hb.blocks[g[0]]["term"].get("sp") or {}).get("desugar") != "Await"]
                                        if hg:
                                            helper_cond.append("%s: %s" % (short(hb.id), fmt_expr(strip_refs(hg[0][1]), hb)[:60]))
                                        else:
                                            dec_blocks.append(bb)
            a = uas[0]
            exits = [x for x in b.exits()]
            # try_fold: the `?` exit discards the outcome
            if fam == "try_fold":
                frs = [bb for bb, t in b.calls() if callee_path(t) == "std::ops::FromResidual::from_residual"]
                avoid = set()
                for fr in frs:
                    avoid |= b.reachable(fr)
                paths_ok = bool(dec_blocks) and not (b.reachable(a.ready_bb, avoid=set(dec_blocks) | set(frs)) & set(exits))
            else:
                paths_ok = bool(dec_blocks) and b.all_paths_pass(a.ready_bb, dec_blocks, exits)
            # ... and only for an item that carried an id: a bare interruption notice (`Interrupted(None)`) counts nothing off
            own_decs = [bb for bb, si, s_ in b.stmts() if bb in dec_blocks] or dec_blocks
            ung = []
            for dbb in sorted(set(dec_blocks)):
                some_guard = False
                for gb, sb, de, vals in lifted_guards(ctx, b, dbb):
                    ex = strip_refs(de)
                    if ex.kind == "discr" and "1" in vals:
                        srcs_ = sources_of_expr(ctx, gb, strip_refs(ex[1]))
                        if srcs_ and m.is_ready_item(srcs_):
                            some_guard = True
                if not some_guard:
                    ung.append(dbb)
            ctx.check(not ung, rule, "countdown-only-items|%s" % short(b.id), m.where(b, (ung or dec_blocks or [0])[0]),
                      "the countdown is decremented only under `Some(id)` of the dequeued item",
                      "the countdown is decremented even when the dequeued item carries no id (interruption notice): it underflows / reports Finished with functions left")
            # ... and once: no path through the per-item body passes two decrement sites (a failure counted in the Err arm and
            # again at the common tail takes the countdown below the number of functions left: it underflows when the failing
            # function finishes last)
            dset = sorted(set(dec_blocks))
            twice = [(d1, d2) for d1 in dset for d2 in dset if d1 != d2 and d2 in b.reachable(d1)]
            ctx.check(not twice, rule, "countdown-once|%s" % short(b.id), m.where(b, twice[0][1]) if twice else m.where(b),
                      "no path through the per-item body decrements the countdown twice",
                      "a path through the per-item body decrements the countdown at %s and again at %s: one function is counted off twice, the "
                      "countdown underflows / reaches 0 with functions left" % (b.loc(twice[0][0]), b.loc(twice[0][1])) if twice else "")
            if helper_cond:
                paths_ok = False
            ctx.check(paths_ok, rule, "countdown-every-item|%s" % short(b.id), m.where(b, a.into_bb),
                      "after the user future completes, every path to the end of the per-item body decrements the countdown of remaining functions",
                      ("the countdown decrement inside the helper is conditional (%s): a completed function may not be counted off, so the outcome says Interrupted although everything was processed" % helper_cond[:2])
                      if helper_cond else
                      "a path from the completion of the user future to the end of the per-item body skips the countdown decrement (decrement blocks %s): the outcome state becomes Interrupted although the function was processed" % dec_blocks)
    ctx.entry_floor(rule, rule, ("fold", "for_each", "try_fold", "try_for_each"), "per-item body awaiting the user future")


def O4(ctx, rule="O4"):
    """the four control wrappers map the internal result to ControlFlow"""
    m, fb, fl = ctx.model, ctx.fb, ctx.model.flow
    # O4: control wrappers
    n4 = 0
    st_adt = fb.adts.get("stream_outcome::StreamOutcomeState")
    st_names = [v["name"] for v in st_adt["variants"]] if st_adt else []
    for e in m.entries:
        if "ControlFlow<" not in e["output"]["s"]:
            continue
        n4 += 1
        b = fb.bodies.get(e["id"] + "::{closure#0}")
        where = entry_where(e)
        if b is None:
            ctx.unverifiable(rule, "wrapper-body|%s" % e["name"], where, "wrapper coroutine not found")
            continue
        def has_cf_aggs(bx):
            return any(kind == "stmt" and x["rv"]["k"] == "agg" and x["rv"].get("def") == "std::ops::ControlFlow"
                       for kind, dbb, si, x in get_defs(bx).of(0))
        if not has_cf_aggs(b):
            # mapping extracted into a crate-local helper taking the Result
            for bid in sorted(m.reach(e["id"])):
                bx = fb.bodies[bid]
                if bx.kind == "fn" and has_cf_aggs(bx) and any("std::result::Result<" in bx.locals[i]["s"] for i in range(1, bx.arg_count + 1)):
                    b = bx
        if not has_cf_aggs(b):
            # pure delegation to a sibling control wrapper (`control(..)` = `control_with(.., StreamOpts::default(), ..)`): the
            # sibling's ControlFlow is returned as it is, nothing in this body looks at it
            cf_entries = {e2["id"] for e2 in m.entries if "ControlFlow<" in e2["output"]["s"] and e2["id"] != e["id"]}
            sib = [(bb, t) for bb, t in b.calls() if callee_path(t) in cf_entries]
            looks = [sb for sb, blk in enumerate(b.blocks) if blk["term"]["k"] == "switch" and
                     strip_refs(switch_expr(b, sb)).kind == "discr" and
                     (blk["term"].get("sp") or {}).get("desugar") != "Await" and
                     any(q.kind == "alloc" and q[1] in cf_entries or q.kind not in ("ctx",) and "ControlFlow" in str(q) for q in sources_of_expr(ctx, b, strip_refs(switch_expr(b, sb))[1]))]
            if len(sib) == 1 and not looks:
                rsrc = fl.sources_local(b, 0, ())
                ctx.check(True, rule, "control-map|%s" % e["name"], where,
                          "%s returns the ControlFlow of %s unchanged (mapping checked there)" % (e["name"], callee_path(sib[0][1]).split("::")[-1]))
                continue
        from rules_build import path_conditions
        fin = str(st_names.index("Finished")) if "Finished" in st_names else "?"

        def tag_of_switch(sb):
            d = get_defs(b).unique_full(b.blocks[sb]["term"]["discr"].get("pl", {}).get("l", -1))
            if d and d[0] == "stmt" and d[3]["rv"]["k"] == "discr":
                ty = d[3]["rv"]["pl"]["ty"]
                if "StreamOutcomeState" in ty:
                    return "state"
                if ty.startswith("std::result::Result"):
                    return "result"
            return None
        def state_eq_of_switch(sb):
            """(index of V, polarity) when the switch tests `<state> == StreamOutcomeState::V` (or `!=`)"""
            de = strip_refs(switch_expr(b, sb))
            pos = True
            while de.kind == "unop" and de[1] == "Not":
                pos = not pos
                de = strip_refs(de[2])
            if de.kind == "call" and de[1] in ("std::cmp::PartialEq::eq", "std::cmp::PartialEq::ne") and len(de[2]) == 2:
                ops = [strip_refs(q) for q in de[2]]
                lit = [q for q in ops if q.kind == "agg" and q[2] == "stream_outcome::StreamOutcomeState" and not q[4]]
                oth = [q for q in ops if not (q.kind == "agg" and q[2] == "stream_outcome::StreamOutcomeState")]
                if len(lit) == 1 and len(oth) == 1 and lit[0][3] in st_names and oth[0].kind == "field":
                    if de[1].endswith("::ne"):
                        pos = not pos
                    return str(st_names.index(lit[0][3])), pos
            return None
        conts = []
        kinds = set()
        problems = []
        n_break = 0
        for kind, dbb, si, x in get_defs(b).of(0):
            if kind != "stmt" or x["rv"]["k"] != "agg" or x["rv"].get("def") != "std::ops::ControlFlow":
                continue
            sym_bb = {}
            pcs = path_conditions(b, dbb, sym_bb=sym_bb)
            if not pcs:
                problems.append("cannot enumerate the paths to %s" % b.loc(dbb))
                continue
            # per path: which Result arm and which state value lead here
            res_vals, st_vals = set(), set()
            for pc in pcs:
                rv_, sv_ = "?", "any"
                for sym, v in pc.items():
                    tags = {tag_of_switch(sb) for sb in sym_bb.get(sym, ())}
                    if "result" in tags:
                        listed = [vv for sb in sym_bb[sym] for vv, _ in b.blocks[sb]["term"]["targets"]]
                        rv_ = v if v != "otherwise" else ("1" if listed == ["0"] else ("0" if listed == ["1"] else "otherwise"))
                    se_ = [state_eq_of_switch(sb) for sb in sym_bb.get(sym, ())]
                    se_ = [q for q in se_ if q is not None]
                    if se_ and "state" not in tags:
                        # `outcome.state == StreamOutcomeState::Finished` as the test
                        idx_, pos_ = se_[0]
                        holds = (v == "otherwise") if pos_ else (v == "0")
                        if v in ("otherwise", "0"):
                            sv_ = idx_ if holds else "not:" + idx_
                    if "state" in tags:
                        if v == "otherwise":
                            listed = {vv for sb in sym_bb[sym] for vv, _ in b.blocks[sb]["term"]["targets"]}
                            sv_ = "not:" + ",".join(sorted(listed))
                        else:
                            sv_ = v
                res_vals.add(rv_)
                st_vals.add(sv_)
            if x["rv"]["variant"] == "Continue":
                conts.append((sorted(res_vals), sorted(st_vals)))
                if not (res_vals == {"0"} and st_vals == {fin}):
                    problems.append("Continue is produced for result arm(s) %s and state(s) %s" % (sorted(res_vals), sorted(st_vals)))
            else:
                n_break += 1
                op = x["rv"]["ops"][0]
                if res_vals == {"1"}:
                    kinds.add("err" if fl.sources_operand(b, op) else "err?")
                elif res_vals == {"0"} and fin not in st_vals and "any" not in st_vals and not any(sv.startswith("not:") and fin not in sv[4:].split(",") for sv in st_vals):
                    e_ = strip_refs(expr_operand(b, op))
                    if e_.kind == "agg" and e_[1] == "tuple" and len(e_[4]) == 2 and strip_refs(e_[4][1]).kind in ("call", "agg") and \
                            (strip_refs(e_[4][1]).kind != "call" or strip_refs(e_[4][1])[1].endswith(("Vec::<T>::new", "std::default::Default::default"))):
                        kinds.add("not-finished")
                    else:
                        problems.append("Break under Ok + unfinished state carries `%s`" % fmt_expr(e_, b))
                else:
                    problems.append("Break is produced for result arm(s) %s and state(s) %s" % (sorted(res_vals), sorted(st_vals)))
        ctx.check(len(conts) == 1 and n_break == 2 and kinds == {"err", "not-finished"} and not problems, rule, "control-map|%s" % e["name"], where,
                  "Ok + Finished -> Continue(outcome); Ok + other state -> Break((outcome, [])); Err(x) -> Break(x)",
                  "control mapping differs: Continue sites %s, Break kinds %s %s" % (conts, sorted(kinds), problems[:3]))
    if n4 < 1:
        ctx.unverifiable(rule, "floor", "-", "no control wrapper (entry point returning ControlFlow) found")


# ---------------------------------------------------------------------------
# C14

def Q_rules(ctx, rule="Q"):
    m, fb, fl = ctx.model, ctx.fb, ctx.model.flow
    roles = structure_roles(ctx)
    if roles is None:
        ctx.unverifiable(rule + "1", "roles", "-", "structure roles not found")
        return
    fwd_fields = {roles["fwd"], roles["graph"]}
    want = {"iter": "fwd", "iter_rev": "rev", "toposort": "fwd", "map": "fwd", "fold": "fwd", "try_fold": "fwd",
            "for_each": "fwd", "try_for_each": "fwd"}
    n = 0
    for f in sorted(fb.fns.values(), key=lambda x: x["name"]):
        if not (f.get("impl_self") or "").startswith("fn_graph::FnGraph<") or f.get("impl_trait") or not f.get("public"):
            continue
        b = fb.bodies.get(f["id"])
        if b is None:
            continue
        topo_new = []
        topo_step = []
        def graph_sources(bx, op):
            # a field of a private iterator struct read in its own trait method: what THIS public method put into that field
            sg = fb.fns.get(bx.id) or {}
            if bx.id != b.id and sg.get("impl_trait") and sg.get("impl_self"):
                ty = sg["impl_self"].split("<")[0].lstrip("&").strip()
                ex = strip_refs(expr_operand(bx, op))
                if ex.kind == "field" and strip_refs(ex[1]) == E(("arg", 1)) and isinstance(ex[2], int):
                    outs = set()
                    for bbq, siq, sq in b.stmts():
                        if sq["k"] == "assign" and sq["rv"]["k"] == "agg" and sq["rv"].get("def") == ty and ex[2] < len(sq["rv"]["ops"]):
                            outs |= set(fl.sources_operand(b, sq["rv"]["ops"][ex[2]]))
                    if outs:
                        return frozenset(outs)
            # through a shared private helper: resolve its parameter at the call site in this public method
            if bx.id != b.id and bx.kind == "fn":
                from rules_build import lift_expr
                e_, fr = lift_expr(ctx, b, bx, strip_refs(expr_operand(bx, op)))
                if fr.id == b.id:
                    return sources_of_expr(ctx, b, e_)
            return fl.sources_operand(bx, op)
        for bx in m.reach_bodies(b.id):
            for bb, t in bx.calls():
                p = callee_path(t)
                if p == TOPO_NEW:
                    topo_new.append((bx, bb, t, graph_sources(bx, t["args"][0])))
                elif p == TOPO_NEXT:
                    topo_step.append((bx, bb, t, graph_sources(bx, t["args"][1])))
                elif p == WALKER_ITER and "Topo<" in (t["args"][0].get("pl", {}).get("ty", "")):
                    topo_step.append((bx, bb, t, graph_sources(bx, t["args"][1])))
        if not topo_new:
            if f["name"] in want:
                n += 1
                ctx.bad(rule + "2", "direction|%s" % f["name"], m.where(b),
                        "%s does not take its visiting order from a Topo walk over the built graph's structure "
                        "(no Topo::new reachable from it): the order it yields is not derived from the edges" % f["name"])
            continue
        if f["name"] not in want:
            # streaming entry points use Topo only for the preload (checked by S2)
            continue
        n += 1
        where = m.where(b)
        key = f["name"]

        def fields_of(srcs):
            out = set()
            for s in srcs:
                if s.kind == "param" and s[2] == 1 and len(s[3]) >= 1:
                    out.add(s[3][0])
                else:
                    out.add("?" + fmt_src(s))
            return out
        nf = fields_of(topo_new[0][3])
        okq1 = len(topo_new) == 1 and (f["name"] == "toposort" or (topo_step and all(fields_of(s[3]) == nf for s in topo_step)))
        ctx.check(okq1, rule + "1", "same-graph|%s" % key, where,
                  "Topo is created over and stepped with the same graph",
                  "Topo::new over field(s) %s but stepped with %s" % (sorted(map(str, nf)), [sorted(map(str, fields_of(s[3]))) for s in topo_step]))
        role = "fwd" if nf <= fwd_fields else ("rev" if nf == {roles["rev"]} else "?")
        ctx.check(role == want[key], rule + "2", "direction|%s" % key, where,
                  "%s walks the %s structure" % (key, "forward" if want[key] == "fwd" else "reversed"),
                  "%s walks FnGraph field(s) %s (%s), expected the %s structure" % (key, sorted(map(str, nf)), role, want[key]))
        # Q3: the id produced by Topo indexes self.graph unchanged
        if key != "toposort":
            lk = []
            for bx in m.reach_bodies(b.id):
                for bb, t in bx.calls():
                    if callee_path(t) in LOOKUP_FNS and "daggy::Dag<F," in t["args"][0].get("pl", {}).get("ty", ""):
                        lk.append((bx, bb, t))
            ok3 = False
            why = "no lookup in self.graph"
            for bx, bb, t in lk:
                cs = fields_of(graph_sources(bx, t["args"][0]))
                ids = fl.sources_operand(bx, t["args"][1])
                topo_item = bool(ids) and all(s.kind == "alloc" and s[4] == TOPO_NEW and "$item" in s[3] for s in ids)
                ok3 = cs == {roles["graph"]} and topo_item
                why = "lookup in field %s with id sources %s" % (sorted(map(str, cs)), [fmt_src(s) for s in ids][:3])
            ctx.check(ok3, rule + "3", "lookup|%s" % key, where, "the id produced by Topo indexes self.graph unchanged", why)
        # Q7: the caller's callback is invoked for every function Topo produces: it is reachable from the method at all, and no
        # condition on a value (a comparison, a boolean call) decides whether an item is passed to it
        if key in ("map", "fold", "try_fold", "for_each", "try_for_each"):
            pc_sites = [(bx, bbx, tx) for bx in m.reach_bodies(b.id) for bbx, tx, pn in m.param_calls(bx)]
            # the callback handed to an adaptor as a value (`.map(&mut fn_map)`): invoked by the adaptor for each item it gets
            gen_in = {x["s"].lstrip("&").replace("mut ", "").strip() for x in f["inputs"]}
            gen_in = {g for g in gen_in if g.isidentifier() and g not in ("Seed", "Self", "usize", "bool")}
            for bx in m.reach_bodies(b.id):
                for bbx, tx in bx.calls():
                    if is_param_call(tx) or (callee_path(tx) or "") in fb.bodies:
                        continue
                    for a_ in tx["args"][1:]:
                        aty = (a_.get("pl") or {}).get("ty") or a_.get("ty") or ""
                        if aty.lstrip("&").replace("mut ", "").strip() in gen_in and (callee_path(tx) or "").split("::")[-1] in (
                                "map", "for_each", "try_for_each", "fold", "try_fold", "and_then", "map_or", "inspect"):
                            pc_sites.append((bx, bbx, tx))
            okq7 = bool(pc_sites)
            whyq7 = "no invocation of the caller's callback is reachable from %s: it visits the functions without running anything" % key
            for bx, bbx, tx in pc_sites:
                for sb_, de_, vals_ in cond_guards(bx, bbx):
                    de2 = strip_refs(de_)
                    if de2.kind == "binop" or (de2.kind == "call" and bx.blocks[sb_]["term"]["discr"].get("pl", {}).get("ty") == "bool") or \
                            (de2.kind == "unop" and de2[1] == "Not"):
                        okq7 = False
                        whyq7 = "the callback of %s is invoked only under `%s`: some functions are skipped" % (key, fmt_expr(de2, bx)[:80])
            ctx.check(okq7, rule + "7", "callback-each|%s" % key, where,
                      "%s invokes the caller's callback for every function it visits (%d call site(s), none under a value condition)" % (key, len(pc_sites)),
                      whyq7)
        # Q4: try_* : no callback after the Err edge
        if key in ("try_fold", "try_for_each") and not m.param_calls(b):
            # `self.map(callback).try_for_each(identity)`: the lazily mapped sibling (checked under its own name) invokes the
            # callback once per pulled item; the short-circuiting consumer with the identity function returns the first Err and
            # pulls nothing afterwards
            mp = [(bb, t) for bb, t in b.calls() if (callee_path(t) or "").startswith("fn_graph::FnGraph::<F>::") and
                  (callee_path(t) or "").split("::")[-1] == "map"]
            cons = [(bb, t) for bb, t in b.calls() if callee_path(t) in ("std::iter::Iterator::try_for_each",)]
            if len(mp) == 1 and len(cons) == 1 and len(cons[0][1]["args"]) == 2:
                cb_src = fl.sources_operand(b, mp[0][1]["args"][1]) if len(mp[0][1]["args"]) > 1 else frozenset()
                cb_ok = bool(cb_src) and all(s_.kind == "param" and s_[1] == b.id and s_[2] >= 2 for s_ in cb_src)
                it = strip_refs(expr_operand(b, cons[0][1]["args"][0]))
                it_ok = it.kind == "call" and len(it) > 3 and it[3] == mp[0][0]
                fo = cons[0][1]["args"][1]
                fpath = ((fo.get("fn") or {}).get("path") or "") if fo.get("k") == "const" else ""
                id_ok = fpath in ("std::convert::identity", "core::convert::identity")
                rd = get_defs(b).of(0)
                ret_ok = len(rd) == 1 and rd[0][0] == "call" and rd[0][1] == cons[0][0]
                okd = cb_ok and it_ok and id_ok and ret_ok
                ctx.check(okd, rule + "4", "first-error|%s" % key, where,
                          "%s is `self.map(callback).try_for_each(identity)`: the first Err produced by the callback is returned and nothing is pulled afterwards" % key,
                          "%s delegates to map(): callback passed on: %s, consumer over map's iterator: %s, consumer function is identity: %s, result returned unchanged: %s" % (
                              key, cb_ok, it_ok, id_ok, ret_ok))
                ctx.check(okd, rule + "4", "result-checked|%s" % key, where,
                          "every callback result passes through the short-circuiting consumer", "the callback's results are not all examined")
                continue
        if key in ("try_fold", "try_for_each"):
            b_api = b
            deleg_ok = True
            if not m.param_calls(b):
                # delegation to a sibling (try_for_each -> try_fold): the loop is checked there, the adapting closure must hand
                # the callback's result through unchanged
                cands = [bx for bx in (fb.bodies[i] for i in sorted(m.reach_calls(b.id))) if bx.id != b.id and bx.kind == "fn" and
                         m.param_calls(bx) and any(callee_path(t2) == TOPO_NEXT for _, t2 in bx.calls())]
                if len(cands) == 1:
                    for cid in sorted(fb.bodies):
                        cbx = fb.bodies[cid]
                        if cbx.kind == "closure" and cbx.parent == b.id and m.param_calls(cbx):
                            cs = fl.sources_local(cbx, 0, ("E",))
                            if not cs or not all(s.kind == "usercall" for s in cs):
                                deleg_ok = False
                    b = cands[0]
            pcs = [bb for bb, t, pn in m.param_calls(b)]
            frs = [bb for bb, t in b.calls() if callee_path(t) == "std::ops::FromResidual::from_residual"]
            bad = [x for x in frs if set(pcs) & b.reachable(x)]
            esrc = fl.sources_local(b_api, 0, ("E",))
            ok4 = bool(frs) and not bad and bool(esrc) and all(s.kind == "usercall" for s in esrc) and deleg_ok
            ctx.check(ok4, rule + "4", "first-error|%s" % key, where,
                      "%s returns the callback's first error and invokes nothing afterwards" % key,
                      "error path of %s: from_residual sites %s, callback reachable after error: %s, error sources %s" % (key, frs, bad, [fmt_src(s) for s in esrc][:3]))
            # Q4b: the callback's result is inspected before the function can return or go on
            tb = [bb for bb, t in b.calls() if callee_path(t) == "std::ops::Try::branch" and
                  any(s.kind == "usercall" for s in fl.sources_operand(b, t["args"][0]))]
            for sb, blk in enumerate(b.blocks):
                if blk["term"]["k"] == "switch":
                    de = strip_refs(switch_expr(b, sb))
                    if de.kind == "discr" and any(s.kind == "usercall" for s in sources_of_expr(ctx, b, de[1])):
                        tb.append(sb)
            okb = bool(pcs)
            for cbb in pcs:
                nxt = b.blocks[cbb]["term"].get("target")
                if nxt is None or not b.all_paths_pass(nxt, tb, b.exits()):
                    okb = False
            ctx.check(okb, rule + "4", "result-checked|%s" % key, where,
                      "every path from a callback invocation to the return of %s inspects that invocation's result (`?`/match)" % key,
                      "%s can return without inspecting the result of the last callback invocation: its error is swallowed" % key)
    # Q6: a clone of the graph has every field copied from the same field (the reversed structure is not a copy of the forward one)
    for bq in fb.prod_bodies():
        sigq = fb.fns.get(bq.id) or {}
        if sigq.get("impl_trait") == "std::clone::Clone" and (sigq.get("impl_self") or "").startswith("fn_graph::FnGraph<") and sigq.get("name") == "clone":
            n += 1
            aggs = [s_ for _, _, s_ in bq.stmts() if s_["k"] == "assign" and s_["rv"]["k"] == "agg" and s_["rv"].get("def") == "fn_graph::FnGraph"]
            okq = bool(aggs)
            whyq = "no FnGraph construction in clone()"
            for s_ in aggs:
                for i, o in enumerate(s_["rv"]["ops"]):
                    ex = strip_refs(expr_operand(bq, o))
                    hops = 0
                    while ex.kind == "call" and ex[1] in ("std::clone::Clone::clone", "std::borrow::ToOwned::to_owned") and ex[2] and hops < 4:
                        ex = strip_refs(ex[2][0])
                        hops += 1
                    if not (ex.kind == "field" and strip_refs(ex[1]) == E(("arg", 1)) and ex[2] == i):
                        okq = False
                        whyq = "field #%d (%s) of the clone is `%s`" % (i, (s_["rv"].get("fields") or [""] * (i + 1))[i], fmt_expr(ex, bq))
            ctx.check(okq, rule + "6", "clone-frame", m.where(bq),
                      "FnGraph::clone copies every field from the same field of the original", whyq)
    # Q5 iter_insertion*
    for nm, fn_ in (("iter_insertion", "node_references"), ("iter_insertion_mut", "node_weights_mut"), ("iter_insertion_with_indices", "node_references")):
        fid = "fn_graph::FnGraph::<F>::" + nm
        b = fb.bodies.get(fid)
        if b is None:
            ctx.unverifiable(rule + "5", "missing|%s" % nm, "-", "%s not found" % nm)
            continue
        n += 1
        calls = [(bb, t) for bb, t in b.calls()]
        alts = {"node_references": ("node_references", "raw_nodes", "node_weights"), "node_weights_mut": ("node_weights_mut",)}[fn_]
        srcc = [(bb, t) for bb, t in calls if (callee_path(t) or "").split("::")[-1] in alts]
        sel = [callee_path(t) for bb, t in calls if callee_path(t) in SELECTIVE_ITER or callee_path(t) in MORE_ITER]
        g_ok = False
        if srcc:
            ge = strip_refs(expr_operand(b, srcc[0][1]["args"][0]))
            while ge.kind == "call" and ge[2] and ge[1] in ("daggy::Dag::<N, E, Ix>::graph", "std::ops::Deref::deref", "std::convert::AsRef::as_ref"):
                ge = strip_refs(ge[2][0])
            g_ok = ge.kind == "field" and ge[2] == roles["graph"] and strip_refs(ge[1]) == E(("arg", 1))
        re5 = return_expr(b)
        if not srcc and re5 is not None:
            # delegation to a sibling that returns the node sequence (inlined by the chain walk)
            ch5 = iterator_chain(ctx, b, re5)
            hit = [c for c in ch5 if c[0].split("::")[-1] in alts and not c[0].startswith("inline:")]
            sel = [c[0] for c in ch5 if c[0] in SELECTIVE_ITER or c[0] in MORE_ITER]
            if len(hit) == 1:
                srcc = [hit[0]]
                from rules_build import subst_args
                ge5 = strip_refs(hit[0][2][2][0])
                cur5 = hit[0][1]
                for k5 in range(ch5.index(hit[0]) - 1, -1, -1):
                    if ch5[k5][0] == "inline:" + cur5.id:
                        ge5 = strip_refs(subst_args(ge5, [strip_refs(x) for x in ch5[k5][2][2]]))
                        cur5 = ch5[k5][1]
                while ge5.kind in ("deref", "ref") or (ge5.kind == "call" and ge5[2] and ge5[1] in (
                        "daggy::Dag::<N, E, Ix>::graph", "std::ops::Deref::deref", "std::convert::AsRef::as_ref")):
                    ge5 = strip_refs(ge5[2][0]) if ge5.kind == "call" else strip_refs(ge5)
                g_ok = cur5.id == b.id and ge5.kind == "field" and ge5[2] == roles["graph"] and strip_refs(ge5[1]) == E(("arg", 1))
        ctx.check(len(srcc) == 1 and not sel and g_ok, rule + "5", "insertion|%s" % nm, m.where(b),
                  "%s returns %s() of self.graph, unfiltered and unreordered" % (nm, fn_),
                  "%s: source calls %d, adaptors %s, on self.graph: %s" % (nm, len(srcc), sel, g_ok))
    ctx.counts[rule] = n
    if n < 4:
        ctx.unverifiable(rule + "1", "floor", "-", "expected the sequential iteration APIs, found only %d" % n)


# ---------------------------------------------------------------------------
# C17

def edge_eq_rule(ctx, rule):
    """Edge == Edge is the derived, variant-by-variant equality (reflexive on every kind, Data included)"""
    fb = ctx.fb
    imp = [i for i in fb.impls if i.get("trait") == "std::cmp::PartialEq" and i.get("self_ty") == "edge::Edge"]
    ok = len(imp) == 1 and bool(imp[0].get("derived"))
    why = "no PartialEq impl for Edge found" if not imp else "PartialEq for Edge is hand-written (%s:%s): equality of every kind with itself, Data included, is not established" % (
        imp[0]["sp"]["file"], imp[0]["sp"]["line"])
    if imp and not ok:
        # a hand-written eq that compares the discriminants is as good as the derive
        eqb = fb.bodies.get("<edge::Edge as std::cmp::PartialEq>::eq")
        if eqb is not None:
            re_ = return_expr(eqb)
            r = strip_refs(re_) if re_ is not None else None
            if r is not None and r.kind == "call" and r[1] in ("std::cmp::PartialEq::eq",) and len(r[2]) == 2:
                r = E(("binop", "Eq", r[2][0], r[2][1]))
            if r is not None and r.kind == "binop" and r[1] == "Eq":
                a, b_ = strip_refs(r[2]), strip_refs(r[3])
                def is_discr_of(x, k):
                    if x.kind == "call" and x[1] in ("std::mem::discriminant", "std::intrinsics::discriminant_value") and x[2]:
                        x = E(("discr", strip_refs(x[2][0])))
                    return x.kind == "discr" and strip_refs(x[1]) == E(("arg", k))
                ok = (is_discr_of(a, 1) and is_discr_of(b_, 2)) or (is_discr_of(a, 2) and is_discr_of(b_, 1))
    ctx.check(ok, rule, "edge-eq", "src/edge.rs",
              "PartialEq for Edge is the derived variant-by-variant comparison: every edge kind, Data included, equals itself", why)


def G_rules(ctx, rule="G"):
    m, fb, fl = ctx.model, ctx.fb, ctx.model.flow
    if "graph_info" not in fb.features:
        ctx.unverifiable(rule + "1", "cfg", "-", "configuration without graph_info")
        return
    fg = fb.bodies.get("graph_info::GraphInfo::<NodeInfo>::from_graph")
    if fg is None:
        ctx.unverifiable(rule + "1", "from_graph", "-", "GraphInfo::from_graph not found")
        return
    where = m.where(fg)
    # G1 nodes: fold over iter_insertion() with one add_node(fn_info(f)) each
    addn = []
    # a private constructor that receives the prepared node / edge iterators (`Self::from_parts(node_infos, edges)`) is part of
    # the copy: its parameters stand for the arguments of its single call in from_graph
    copy_helpers = {}
    for hbb, ht in fg.calls():
        hp = callee_path(ht) or ""
        hb_ = fb.bodies.get(hp)
        if hb_ is not None and hb_.kind == "fn" and hp.startswith("graph_info::") and not (fb.fns.get(hp) or {}).get("public") and \
                len([1 for _, t2 in fg.calls() if callee_path(t2) == hp]) == 1:
            copy_helpers[hp] = (hbb, ht)

    def chain_through(body_, expr_):
        ch = iterator_chain(ctx, body_, expr_)
        if ch and ch[-1][0] == "leaf:arg" and body_.id in copy_helpers:
            k_ = ch[-1][2][1]
            hbb_, ht_ = copy_helpers[body_.id]
            if 1 <= k_ <= len(ht_["args"]):
                ch = ch[:-1] + iterator_chain(ctx, fg, expr_operand(fg, ht_["args"][k_ - 1]))
        return ch
    for bx in m.reach_bodies(fg.id):
        for bb, t in bx.calls():
            if callee_path(t) == "daggy::Dag::<N, E, Ix>::add_node" and (bx.id.startswith(fg.id) or bx.root in copy_helpers):
                addn.append((bx, bb, t))
    ok1 = False
    why = "expected exactly one add_node site in from_graph, found %d" % len(addn)
    if len(addn) == 1 and addn[0][0].kind == "fn" and (addn[0][0].id == fg.id or addn[0][0].id in copy_helpers) and \
            loop_region(ctx, addn[0][0], addn[0][1]) is not None:
        # `for f in fn_graph.iter_insertion() { graph.add_node(fn_info(f)); }`
        bx, bb, t = addn[0]
        lr = loop_region(ctx, bx, bb)
        ws = fl.sources_operand(bx, t["args"][1])
        from_cb = bool(ws) and all(s_.kind == "usercall" for s_ in ws)
        chain = chain_through(bx, lr["iter_expr"]) if lr.get("iter_expr") is not None else []
        names = [c[0] for c in chain if not c[0].startswith("inline:")]
        sel = [x for x in names if x in SELECTIVE_ITER or x in MORE_ITER]
        src_ok = any("node_references" in x or "node_weights" in x or "raw_nodes" in x for x in names) or \
            any(c[0].startswith("inline:fn_graph::FnGraph::<F>::iter_insertion") for c in chain)
        gs_ = [g for g in cond_guards(bx, bb) if g[0] in lr["blocks"] and g[0] != lr.get("switch_bb")]
        pcs = m.param_calls(bx)
        arg_ok = len(pcs) == 1 and bool(fl.sources_operand(bx, pcs[0][1]["args"][1]))
        if not pcs:
            # the caller's function is applied by a `map` in the chain (`iter_insertion().map(fn_info)`)
            for c_ in chain:
                if c_[0] == "std::iter::Iterator::map" and len(c_[2][2]) > 1:
                    fe_ = strip_refs(c_[2][2][1])
                    if fe_.kind in ("arg", "local") and c_[1].locals[fe_[1]].get("k") == "param":
                        arg_ok = True
        ok1 = from_cb and src_ok and not sel and not gs_ and not lr["early_exits"] and arg_ok
        why = "weight from callback: %s; unfiltered insertion-order loop: %s (chain %s); unconditional: %s; no early exit: %s" % (
            from_cb, src_ok and not sel, [c[0] for c in chain], not gs_, not lr["early_exits"])
    elif len(addn) == 1:
        bx, bb, t = addn[0]
        ws = fl.sources_operand(bx, t["args"][1])
        from_cb = bool(ws) and all(s.kind == "usercall" for s in ws)
        uses = fl.closure_uses(bx) if bx.kind == "closure" else []
        chain_ok = False
        if len(uses) == 1 and callee_path(uses[0][2]) in ("std::iter::Iterator::fold", "std::iter::Iterator::for_each"):
            pb, ubb, ut, ai = uses[0]
            chain = iterator_chain(ctx, pb, expr_operand(pb, ut["args"][0]))
            names = [c[0] for c in chain if not c[0].startswith("inline:")]
            sel = [x for x in names if x in SELECTIVE_ITER or x in MORE_ITER]
            src_ok = any("node_references" in x or "node_weights" in x or "raw_nodes" in x for x in names) or \
                any(c[0].startswith("inline:fn_graph::FnGraph::<F>::iter_insertion") for c in chain)
            chain_ok = src_ok and not sel
            why = "node iteration chain %s" % [c[0] for c in chain]
        # callback argument is the iterated function
        pcs = m.param_calls(bx)
        arg_ok = False
        if len(pcs) == 1:
            asrc = fl.sources_operand(bx, pcs[0][1]["args"][1])
            arg_ok = bool(asrc)
        elif not pcs and len(uses) == 1:
            # `iter_insertion().map(&fn_info).for_each(|info| add_node(info))`: the caller's function is the map's function,
            # applied by the adaptor to every iterated function
            pb_, ubb_, ut_, ai_ = uses[0]
            for c_ in iterator_chain(ctx, pb_, expr_operand(pb_, ut_["args"][0])):
                if c_[0] == "std::iter::Iterator::map" and len(c_[2][2]) > 1:
                    fe_ = strip_refs(c_[2][2][1])
                    if fe_.kind in ("arg", "local") and c_[1].locals[fe_[1]].get("k") == "param":
                        arg_ok = True
        ok1 = from_cb and chain_ok and arg_ok and not bx.back_edges() and not cond_guards(bx, bb)
        if not ok1:
            why = "weight from callback: %s; unfiltered insertion-order chain: %s; %s" % (from_cb, chain_ok, why)
    ctx.check(ok1, rule + "1", "nodes", where,
              "nodes come from iter_insertion() in order, each mapped by the caller's function, one unconditional add_node each", why)
    # G2 edges
    adde_b = [(xb_, bb, t) for xb_ in [fg] + [fb.bodies[h_] for h_ in sorted(copy_helpers)] for bb, t in xb_.calls()
              if callee_path(t) in ("daggy::Dag::<N, E, Ix>::add_edges",)]
    adde = [(bb, t) for (_, bb, t) in adde_b]
    eb_ = adde_b[0][0] if len(adde_b) == 1 else fg
    ok2 = False
    why = "expected one add_edges call, found %d" % len(adde)
    if len(adde) == 1:
        bb, t = adde[0]
        chain = chain_through(eb_, expr_operand(eb_, t["args"][1]))
        names = [c[0] for c in chain]
        sel = [x for x in names if x in SELECTIVE_ITER or x in MORE_ITER]
        has_raw = any(x.endswith("::raw_edges") or x.endswith("::edge_references") for x in names)
        maps = [c for c in chain if c[0] == "std::iter::Iterator::map"]
        tup_ok = False
        # compose the maps from the raw edge outwards: tags of the tuple elements
        tags = None
        bad_map = None
        for mp in reversed(maps):
            fcl = closure_of_arg(ctx, mp[1], mp[2][2][1])
            re_ = return_expr(fcl) if fcl is not None else None
            if re_ is None or not (re_.kind == "agg" and re_[1] in ("tuple", "adt") and len(re_[4]) == 3):
                bad_map = "a map over the edges does not produce a 3-tuple / 3-field struct"
                break
            new = []
            for x in re_[4]:
                x = strip_refs(x)
                if tags is None:
                    if x.kind == "deref":
                        x = strip_refs(x[1]) if len(x) > 1 and isinstance(x[1], E) else x
                    if x.kind == "call" and x[1].endswith(("Edge::<E, Ix>::source", "EdgeRef::source")):
                        new.append("src")
                    elif x.kind == "call" and x[1].endswith(("Edge::<E, Ix>::target", "EdgeRef::target")):
                        new.append("dst")
                    elif x.kind == "field" and strip_refs(x[1]).kind == "arg":
                        new.append("w")
                    elif x.kind == "call" and x[1].endswith(("EdgeRef::weight", "::weight")) and "EdgeRef" in x[1] + "EdgeReference" and \
                            ("EdgeRef::" in x[1] or "EdgeReference::" in x[1]) and x[2] and strip_refs(x[2][0]).kind == "arg":
                        new.append("w")
                    else:
                        new.append("?" + fmt_expr(x, fcl))
                else:
                    if x.kind == "field" and strip_refs(x[1]).kind == "arg" and isinstance(x[2], int) and x[2] < len(tags):
                        new.append(tags[x[2]])
                    else:
                        new.append("?" + fmt_expr(x, fcl))
            tags = new
        if tags is not None and bad_map is None:
            tup_ok = tags == ["src", "dst", "w"]
            why = "edge tuple is %s" % (tags,)
        elif bad_map:
            why = bad_map
        gs = [c for c in chain if c[0].endswith("::raw_edges") or c[0].endswith("::edge_references")]
        g_ok = False
        if gs:
            ge = strip_refs(gs[0][2][2][0])
            from rules_sched import structure_roles
            roles_g = structure_roles(ctx) or {}
            wrong_field = []
            # fn_graph.raw_edges() through Deref, or fn_graph.graph.raw_edges() -- not one of FnGraph's private mirrors
            # (graph_structure / graph_structure_rev), which only agree with `graph` right after build()
            def peel(ge_):
                while ge_.kind in ("call", "field"):
                    if ge_.kind == "call" and ge_[1] == "std::ops::Deref::deref":
                        ge_ = strip_refs(ge_[2][0])
                    elif ge_.kind == "field":
                        if isinstance(ge_[2], int) and roles_g.get("graph") is not None and ge_[2] != roles_g["graph"] and \
                                strip_refs(ge_[1]).kind in ("arg", "deref", "local"):
                            wrong_field.append(ge_[2])
                        ge_ = strip_refs(ge_[1])
                    else:
                        break
                return ge_
            ge = peel(ge)
            cur_body = gs[0][1]
            # through crate-local helpers that return the iterator: a helper's parameter is the argument at its (inlined) call
            j = chain.index(gs[0])
            for k in range(j - 1, -1, -1):
                if ge.kind == "arg" and chain[k][0] == "inline:" + cur_body.id and 1 <= ge[1] <= len(chain[k][2][2]):
                    ge = peel(strip_refs(chain[k][2][2][ge[1] - 1]))
                    cur_body = chain[k][1]
            if cur_body.id != fg.id and ge.kind == "arg" and cur_body.kind == "fn" and not (fb.fns.get(cur_body.id) or {}).get("public"):
                # the copy lives in a private step of from_graph (`Self::edges_copy(fn_graph, &mut graph)`): its parameter is what
                # from_graph passes at its only call
                cs_ = [(cb_, cbb_, ct_) for (cb_, cbb_, ct_) in fl.call_sites().get(cur_body.id, []) if not fb.is_test_body(cb_)]
                if len(cs_) == 1 and cs_[0][0].id == fg.id and ge[1] - 1 < len(cs_[0][2]["args"]) and not cond_guards(fg, cs_[0][1]):
                    ge = peel(strip_refs(expr_operand(fg, cs_[0][2]["args"][ge[1] - 1])))
                    cur_body = fg
            g_ok = ge == E(("arg", 1)) and cur_body.id == fg.id and not wrong_field
        # a collected intermediate (`let mut edges: Vec<_> = ..collect()`) is handed on as collected: nothing sorts, reverses,
        # dedups or truncates it on the way to add_edges (the edge ids of the copy are positions in this sequence)
        reord = None
        for c_ in chain:
            if c_[0] == "std::iter::Iterator::collect" and len(c_[2]) > 3 and isinstance(c_[2][3], int):
                cbody_ = c_[1]
                for mbb, mt in cbody_.calls():
                    mp = callee_path(mt) or ""
                    if mp in ("std::ops::Deref::deref", "std::ops::DerefMut::deref_mut") or mp.endswith(("::add_edges", "::into_iter", "::iter")):
                        continue
                    for a_ in mt["args"]:
                        if a_["k"] != "const" and a_["pl"]["ty"].startswith(("&mut std::vec::Vec<", "&mut [")) and \
                                any(x.kind == "alloc" and x[1] == cbody_.id and x[2] == c_[2][3] and not x[3] for x in fl.sources_operand(cbody_, a_)):
                            reord = mp
        ok2 = has_raw and not sel and tup_ok and g_ok and reord is None
        if not ok2:
            why = "raw_edges of the given graph: %s/%s, adaptors %s, %s%s" % (has_raw, g_ok, sel, why,
                                                                             "; the collected edge list is modified by %s before add_edges" % reord if reord else "")
    ctx.check(ok2, rule + "2", "edges", where,
              "edges come from raw_edges() in order, mapped to (source(), target(), weight), unfiltered, into add_edges", why)
    # G1b/G2b: no return path of from_graph skips the node copy or the edge copy (except for a graph without nodes / edges)
    def bypass_ok(via, allow, fg=fg):
        if fg.id in copy_helpers:
            # the copy lives in the private constructor: from_graph itself must reach that call on every path
            hbb_, _ = copy_helpers[fg.id]
            fg0 = fb.bodies["graph_info::GraphInfo::<NodeInfo>::from_graph"]
            if set(fg0.exits()) & fg0.reachable(0, avoid={hbb_}):
                return False
        via = set(via)
        reach = fg.reachable(0, avoid=via)
        if not (set(fg.exits()) & reach):
            return True
        nb = len(fg.blocks)
        can = set(x for x in range(nb) if x in via or (fg.reachable(x) & via))
        committed = set(x for x in reach if x not in can and (fg.reachable(x) & set(fg.exits())))
        pred = fg.normal_pred()
        for d in sorted(committed):
            if d != 0 and not any(p_ in reach and p_ not in committed for p_ in pred[d]):
                continue
            ok_d = False
            for sb, x, rel in guard_eq_zero(fg, d):
                xs = strip_refs(x) if not isinstance(x, str) else None
                if rel == "eq0" and xs is not None and xs.kind == "call" and any(xs[1].endswith(a) for a in allow):
                    ok_d = True
            if not ok_d:
                return False
        return True
    if len(addn) == 1 and addn[0][0].kind == "closure":
        uses = fl.closure_uses(addn[0][0])
        if len(uses) == 1 and uses[0][0].id == fg.id:
            ctx.check(bypass_ok([uses[0][1]], ("::node_count",)), rule + "1", "nodes-always", where,
                      "every return path of from_graph runs the node copy (or the graph has no nodes)",
                      "from_graph can return without copying the nodes for a graph that has nodes")
    elif len(addn) == 1 and addn[0][0].kind == "fn" and (addn[0][0].id == fg.id or addn[0][0].id in copy_helpers):
        lr_ = loop_region(ctx, addn[0][0], addn[0][1])
        ctx.check(bypass_ok([lr_["next_bb"] if lr_ else addn[0][1]], ("::node_count", "::len"), fg=addn[0][0]), rule + "1", "nodes-always", where,
                  "every return path of from_graph runs the node copy (or the graph has no nodes)",
                  "from_graph can return without copying the nodes for a graph that has nodes")
    if len(adde) == 1:
        ctx.check(bypass_ok([adde[0][0]], ("::node_count", "::edge_count", "::len"), fg=eb_), rule + "2", "edges-always", where,
                  "every return path of from_graph runs the edge copy (or the graph has no edges)",
                  "from_graph can return without copying the edges for a graph that has edges")
    # G7: the copy is returned as built: no node/edge-set mutator other than the copying add_node / add_edges touches it
    from rules_build import DAG_MUTATORS
    copy_fns = ("daggy::Dag::<N, E, Ix>::add_node", "daggy::Dag::<N, E, Ix>::add_edges", "daggy::Dag::<N, E, Ix>::add_edge",
                "daggy::Dag::<N, E, Ix>::update_edge")
    muts = []
    for bx in m.reach_bodies(fg.id):
        if not (bx.id == fg.id or bx.id.startswith(fg.id + "::") or bx.id.startswith("graph_info::")):
            continue
        for bb, t in bx.calls():
            p_ = callee_path(t) or ""
            if p_ in DAG_MUTATORS and p_ not in copy_fns:
                muts.append((bx, bb, p_))
            elif p_.startswith("daggy::petgraph::graph::Graph") and p_.split("::")[-1] in (
                    "remove_node", "remove_edge", "clear", "clear_edges", "retain_nodes", "retain_edges", "reverse", "filter_map", "map"):
                muts.append((bx, bb, p_))
    ctx.check(not muts, rule + "2", "copy-unchanged", m.where(muts[0][0], muts[0][1]) if muts else where,
              "from_graph applies no node/edge-set mutator to the copy besides add_node / add_edges: the GraphInfo holds exactly the copied edges",
              "from_graph changes the copy with %s: edges of the graph are missing from (or re-indexed in) the GraphInfo" % [x[2].split("::")[-1] for x in muts])
    edge_eq_rule(ctx, rule + "5")
    # G4 iter / iter_rev
    for nm, rev in (("iter", False), ("iter_rev", True)):
        b = fb.bodies.get("graph_info::GraphInfo::<NodeInfo>::" + nm)
        if b is None:
            ctx.unverifiable(rule + "4", "missing|%s" % nm, "-", "GraphInfo::%s not found" % nm)
            continue
        tn = [(bx, bb, t) for bx in m.reach_bodies(b.id) if bx.kind == "fn" for bb, t in bx.calls() if callee_path(t) == TOPO_NEW]
        ts = [(bx, bb, t) for bx in m.reach_bodies(b.id) if bx.kind == "fn" for bb, t in bx.calls() if callee_path(t) == WALKER_ITER]
        ok4 = False
        why = "Topo::new/iter sites: %d/%d" % (len(tn), len(ts))
        if len(tn) == 1 and not ts and tn[0][0].id == b.id:
            # hand-driven generator: `let mut topo = Topo::new(g); iter::from_fn(move || { let id = topo.next(g)?; Some(&graph[id]) })`
            steps = [(bx, bb, t) for bx in m.reach_bodies(b.id) if bx.kind == "closure" and bx.id.startswith(b.id + "::")
                     for bb, t in bx.calls() if callee_path(t) == TOPO_NEXT]
            if len(steps) == 1 and not steps[0][0].back_edges():
                C_, sbb_, st_ = steps[0]
                us_ = fl.closure_uses(C_)
                same_topo = set(fl.sources_operand(C_, st_["args"][0])) & {x for x in fl.sources_local(b, tn[0][2]["dest"]["l"], ())} or \
                    any(x.kind == "alloc" and x[1] == b.id and x[2] == tn[0][1] for x in fl.sources_operand(C_, st_["args"][0]))
                if len(us_) == 1 and (callee_path(us_[0][2]) or "").endswith("iter::from_fn") and same_topo and not cond_guards(C_, sbb_):
                    e1 = strip_refs(expr_operand(b, tn[0][2]["args"][0]))
                    e2 = strip_refs(expr_operand(C_, st_["args"][1]))
                    is_rev1 = e1.kind == "agg" and (e1[2] or "").endswith("visit::Reversed")
                    is_rev2 = e2.kind == "agg" and (e2[2] or "").endswith("visit::Reversed")
                    s1 = sources_of_expr(ctx, b, e1[4][0] if is_rev1 else e1)
                    s2 = sources_of_expr(ctx, C_, e2[4][0] if is_rev2 else e2)
                    plain = all(x.kind in ("field", "deref", "ref", "arg") for x in walk_expr(strip_refs(e1[4][0]) if is_rev1 else e1)) and \
                        all(x.kind == "param" and x[1] == b.id and x[2] == 1 for x in s1)
                    ok4 = is_rev1 == rev and is_rev2 == rev and s1 == s2 and bool(s1) and plain
                    why = "Topo::new over %s, stepped (from_fn) over %s%s" % (fmt_expr(e1, b), fmt_expr(e2, C_),
                                                                             "" if plain else "; the walked graph is not GraphInfo's own graph field but a view derived from it")
        if len(tn) == 1 and len(ts) == 1:
            from rules_build import lift_expr
            e1, f1 = lift_expr(ctx, b, tn[0][0], strip_refs(expr_operand(tn[0][0], tn[0][2]["args"][0])))
            e2, f2 = lift_expr(ctx, b, ts[0][0], strip_refs(expr_operand(ts[0][0], ts[0][2]["args"][1])))
            e1, e2 = strip_refs(e1), strip_refs(e2)
            if f1.id != b.id or f2.id != b.id:
                e1 = e2 = E(("unknown", "Topo built in a helper reached from several call sites"))
            is_rev1 = e1.kind == "agg" and (e1[2] or "").endswith("visit::Reversed")
            is_rev2 = e2.kind == "agg" and (e2[2] or "").endswith("visit::Reversed")
            s1 = sources_of_expr(ctx, b, e1[4][0] if is_rev1 else e1)
            s2 = sources_of_expr(ctx, b, e2[4][0] if is_rev2 else e2)
            ok4 = is_rev1 == rev and is_rev2 == rev and s1 == s2 and bool(s1)
            why = "Topo::new over %s, stepped over %s" % (fmt_expr(e1, b), fmt_expr(e2, b))
        ctx.check(ok4, rule + "4", "topo|%s" % nm, m.where(b),
                  "GraphInfo::%s creates and steps Topo over %s" % (nm, "Reversed(graph)" if rev else "graph"), why)
        # ... and every id that selects a returned node is one Topo produced: no alternative source of ids (a fast path that
        # returns insertion order, a pre-sorted list) reaches the lookup
        alt = []
        for bx in m.reach_bodies(b.id):
            for bbx, tx in bx.calls():
                if callee_path(tx) in LOOKUP_FNS and len(tx["args"]) > 1:
                    for q in fl.sources_operand(bx, tx["args"][1], (), "taint"):
                        if q.kind == "alloc" and (q[4] in ALL_NODE_SOURCES or q[4].split("::")[-1] in (
                                "node_indices", "node_references", "node_identifiers", "raw_nodes", "externals", "node_weights")) and q[4] != TOPO_NEW:
                            alt.append(q[4].split("::")[-1])
        ctx.check(not alt, rule + "4", "topo-only|%s" % nm, m.where(b),
                  "the nodes GraphInfo::%s returns are looked up only with ids produced by Topo" % nm,
                  "GraphInfo::%s can also return nodes in the order of %s: not a topological order for every graph" % (nm, sorted(set(alt))))
    # G5 PartialEq
    eqb = None
    for b in fb.prod_bodies():
        sig = fb.fns.get(b.id)
        if sig and sig.get("impl_trait") == "std::cmp::PartialEq" and (sig.get("impl_self") or "").startswith("graph_info::GraphInfo<") and sig["name"] == "eq":
            eqb = b
    if eqb is None:
        ctx.unverifiable(rule + "5", "eq", "-", "PartialEq for GraphInfo not found")
    else:
        attrs = set()
        for bx in m.reach_bodies(eqb.id):
            for bb, t in bx.calls():
                p = callee_path(t) or ""
                if p.endswith(("Edge::<E, Ix>::source", "EdgeRef::source")):
                    attrs.add("source")
                if p.endswith(("Edge::<E, Ix>::target", "EdgeRef::target")):
                    attrs.add("target")
                if p.endswith("EdgeRef::weight") or ("EdgeReference::" in p and p.endswith("::weight")):
                    attrs.add("edge-weight")
                if p.endswith("::node_weights") or p.endswith("IntoNodeReferences::node_references"):
                    attrs.add("node-weight")        # (index, &weight) pairs: comparing them compares the weights (and positions)
            for bb, si, s in bx.stmts():
                if s["k"] == "assign" and s["rv"]["k"] == "ref":
                    ty = s["rv"]["pl"]["ty"]
                    pr = s["rv"]["pl"]["p"]
                    if pr and isinstance(pr[-1], dict) and "f" in pr[-1]:
                        base_ty = bx.locals[s["rv"]["pl"]["l"]]["s"]
                        if ty == "edge::Edge":
                            attrs.add("edge-weight")
                        elif ty == "NodeInfo" or "petgraph::graph::Node<" in base_ty:
                            attrs.add("node-weight")
        ctx.check(attrs >= {"source", "target", "edge-weight", "node-weight"}, rule + "5", "eq-attrs", m.where(eqb),
                  "GraphInfo == compares node weights and (source, target, weight) of every edge",
                  "GraphInfo == compares only %s" % sorted(attrs))
        # every pairwise comparison is a conjunction starting from `true` (two empty sequences are equal)
        from rules_build import conjunctive_consumer, iter_eq_same_projection, eq_same_attribute, eq_monotone, eq_no_reorder
        eq_same_attribute(ctx, rule + "5", eqb, "GraphInfo ==")
        eq_no_reorder(ctx, rule + "5", eqb, "GraphInfo ==")
        eq_monotone(ctx, rule + "5", eqb, "GraphInfo ==", [(bx.id, bb) for bx in m.reach_bodies(eqb.id) for bb, t in bx.calls()
                                                          if callee_path(t) in ("std::iter::Iterator::eq", "std::iter::Iterator::all")])
        n_ie = 0
        for bx in m.reach_bodies(eqb.id):
            for bb, t in bx.calls():
                if callee_path(t) == "std::iter::Iterator::eq" and len(t["args"]) >= 2:
                    n_ie += 1
                    iter_eq_same_projection(ctx, rule + "5", bx, bb, t, "GraphInfo ==")
                    # self vs other: an elementwise comparison of a sequence with itself is always true
                    sd = []
                    for a in t["args"][:2]:
                        ss = m.flow.sources_operand(bx, a, (), "taint")
                        sd.append({q[2] for q in ss if q.kind == "param" and q[1] == eqb.id})
                    if sd[0] and sd[1] and len(sd[0]) == 1 and sd[0] == sd[1]:
                        ctx.bad(rule + "5", "sides|%s|%d" % (short(bx.id), n_ie), m.where(bx, bb),
                                "an elementwise comparison inside GraphInfo == relates a sequence of one value to a sequence of the SAME value")
        nz = 0
        for bx in m.reach_bodies(eqb.id):
            for bb, t in bx.calls():
                if callee_path(t) in ("std::iter::Iterator::try_fold", "std::iter::Iterator::all", "std::iter::Iterator::fold",
                                      "std::iter::Iterator::any", "std::iter::Iterator::try_for_each"):
                    chain = iterator_chain(ctx, bx, expr_operand(bx, t["args"][0]))
                    if "std::iter::Iterator::zip" in [c[0] for c in chain]:
                        nz += 1
                        from rules_build import zip_sides_same
                        zip_sides_same(ctx, rule + "5", chain, "%d" % nz, m.where(bx, bb), "GraphInfo ==")
                        okc, whyc = conjunctive_consumer(ctx, bx, bb, t)
                        ctx.check(okc, rule + "5", "conjunctive|%d" % nz, m.where(bx, bb),
                                  "pairwise comparison is a conjunction over all pairs (%s)" % whyc,
                                  "GraphInfo ==: %s" % whyc)
    def _field_arm(b, t):
        """indices K of the `__Field::__field<K>` aggregates built on the arm taken when the string comparison `t` holds"""
        out = set()
        sw = t.get("target")
        if sw is None or b.blocks[sw]["term"]["k"] != "switch":
            return {"?"}
        cur, seen = b.blocks[sw]["term"].get("otherwise"), set()
        while cur is not None and cur not in seen:
            seen.add(cur)
            bl = b.blocks[cur]
            for st in bl["stmts"]:
                if st["k"] == "assign" and st["rv"]["k"] == "agg" and str(st["rv"].get("def", "")).endswith("__Field"):
                    out.add(st["rv"].get("vidx"))
            if out:
                break
            tm = bl["term"]
            cur = tm.get("target") if tm["k"] in ("goto", "false_edge") else None
        return out or {"?"}

    # G3b writer's and reader's tables agree (catches asymmetric #[serde(..)] attributes)
    for ty in ("graph_info::GraphInfo", "edge::Edge", "fn_id_inner::FnIdInner"):
        adt = fb.adts.get(ty)
        if adt is None:
            ctx.unverifiable(rule + "3", "serde-tables|%s" % ty, "-", "type %s not found" % ty)
            continue
        is_enum = adt["kind"] == "Enum"
        want = [v["name"] for v in adt["variants"]] if is_enum else [f["name"] for f in adt["variants"][0]["fields"]]
        ser_names, de_names = [], []
        de_map = {}
        ser_kind = set()
        for b in fb.bodies.values():
            if "_serde::Serialize for %s" % ty in b.id and b.id.endswith("::serialize"):
                for bb, t in b.calls():
                    nm = (t.get("callee") or {}).get("name")
                    if nm in ("serialize_field", "serialize_unit_variant", "serialize_newtype_struct", "serialize_newtype_variant",
                              "serialize_element", "skip_field"):
                        ser_kind.add(nm)
                        strs = [a["val"].strip('"') for a in t["args"] if a["k"] == "const" and a["ty"].startswith("&") and "str" in a["ty"]]
                        if nm in ("serialize_unit_variant", "serialize_newtype_variant"):
                            ser_names.append(strs[-1] if strs else "?")
                        elif nm == "serialize_field":
                            ser_names.append(strs[0] if strs else "?")
                        elif nm == "skip_field":
                            ser_names.append("<skipped>")
            if "_serde::Deserialize<'de> for %s" % ty in b.id and b.id.endswith("__FieldVisitor as edge::_::_serde::de::Visitor<'de>>::visit_str"):
                for bb, t in b.calls():
                    if callee_path(t) == "std::cmp::PartialEq::eq":
                        for a in t["args"]:
                            if a["k"] == "const" and "str" in a["ty"]:
                                de_names.append(a["val"].strip('"'))
                                # the arm taken when the name matches builds `__Field::__field<K>`: K must be the position of the
                                # variant / field of that name (a `#[serde(alias = "..")]` sends a second name to an earlier arm)
                                de_map.setdefault(a["val"].strip('"'), set()).update(_field_arm(b, t))
        if not is_enum and len(want) == 1 and "serialize_newtype_struct" in ser_kind:
            ctx.ok(rule + "3", "serde-tables|%s" % ty, where, "%s is serialised as a transparent newtype (one field, no names involved)" % ty)
            continue
        # additional names the reader accepts (`alias` spellings that no writer produces) do not affect the round trip
        ok = sorted(ser_names) == sorted(want) and set(want) <= set(de_names)
        okm = all(de_map.get(n) == {i} for i, n in enumerate(want))
        ctx.check(okm or not ok, rule + "3", "serde-read-arms|%s" % ty, where,
                  "each name the derived Deserialize reads selects the %s declared under that name (%s)" % (
                      "variant" if is_enum else "field", sorted((n, sorted(v)) for n, v in de_map.items())),
                  "the derived Deserialize of %s maps names to positions %s, declared order %s: a serialised name is read back as a different %s "
                  "(a #[serde(alias = ..)] shadowing a declared name)" % (ty, sorted((n, sorted(v)) for n, v in de_map.items()), want,
                                                                         "variant" if is_enum else "field"))
        ctx.check(ok, rule + "3", "serde-tables|%s" % ty, where,
                  "the derived Serialize writes exactly the %s %s and the derived Deserialize reads every one of these names" % (
                      "variants" if is_enum else "fields", want),
                  "serde tables disagree for %s: declared %s, written %s, read %s (an asymmetric #[serde(..)] attribute breaks the round trip)" % (
                      ty, want, ser_names, de_names))
    # G3c the derived (de)serialisation code calls no hand-written function of the crate: a `#[serde(with / deserialize_with /
    # serialize_with / from / into / try_from / default = ..)]` attribute puts maintainer code - a validator, a converter -
    # between the value and its serialised form, and the round trip is then whatever that code decides
    n_sd = 0
    for b in fb.bodies.values():
        if "_serde::" not in b.id or not any(("for %s" % ty) in b.id for ty in ("graph_info::GraphInfo", "edge::Edge", "fn_id_inner::FnIdInner")):
            continue
        n_sd += 1
        for bb, t in b.calls():
            c = t.get("callee") or {}
            r = c.get("resolved") if isinstance(c.get("resolved"), dict) else {}
            if not (c.get("local") or r.get("local")):
                continue
            pth = r.get("path") or c.get("path") or ""
            if "_serde::" in pth or "::_::" in pth or pth.startswith("<") and "_serde" in pth:
                continue
            ctx.bad(rule + "3", "serde-custom|%s" % pth.split("::")[-1], m.where(b, bb),
                    "the derived serde code of %s calls the hand-written `%s` (a serde `with`/`deserialize_with`/`from`.. attribute): what round-trips "
                    "is decided by that function, not by the data" % (b.id.split(" for ")[-1].split(">")[0][:40], pth))
    ctx.check(n_sd >= 3, rule + "3", "serde-derived-bodies", where, "derived serde bodies of GraphInfo/Edge/FnIdInner inspected (%d)" % n_sd,
              "expected derived serde bodies for GraphInfo, Edge and FnIdInner, found %d" % n_sd)
    # G3 derives
    def is_serde(t):
        return "serde" in (t or "") and ((t or "").endswith("::Serialize") or (t or "").endswith("::Deserialize"))
    gi = [i for i in fb.impls if i["self_ty"].startswith("graph_info::GraphInfo<") and is_serde(i.get("trait"))]
    traits = sorted(i["trait"] for i in gi)
    ctx.check(any(t.endswith("::Serialize") for t in traits) and any(t.endswith("::Deserialize") for t in traits), rule + "3", "serde-derives", where,
              "GraphInfo implements both Serialize and Deserialize", "GraphInfo serde impls: %s" % traits)
    for ty in ("edge::Edge", "fn_id_inner::FnIdInner"):
        ti = sorted(i["trait"] for i in fb.impls if i["self_ty"] == ty and is_serde(i.get("trait")))
        ctx.check(any(t.endswith("::Serialize") for t in ti) and any(t.endswith("::Deserialize") for t in ti), rule + "3", "serde-derives|%s" % ty, where,
                  "%s implements both Serialize and Deserialize" % ty, "%s serde impls: %s" % (ty, ti))
