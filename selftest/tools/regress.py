#!/usr/bin/env python3
"""regress.py seeded|benign : every patch under the kind dir, all props, prints one line each; summary at the end"""
import sys, os, json, subprocess, shutil, concurrent.futures
sys.path.insert(0, "/verif/engine/rules")
import selftest
kind = sys.argv[1]
seeds = selftest.list_seeds(kind)
if os.environ.get("ONLY"):
    _o = set(open(os.environ["ONLY"]).read().split()); seeds = [s for s in seeds if s[0] in _o]
def one(s):
    n, d, meta = s
    tmp, dst, err = selftest.make_scratch("/repo", os.path.join(d, "patch.diff"))
    if tmp is None: return n, meta.get("property"), {"PATCH": [err]}
    try:
        r = subprocess.run([sys.executable, "" + os.path.join(os.path.dirname(os.path.abspath(__file__)), "allcheck.py") + "", dst, "--witness"], stdout=subprocess.PIPE, stderr=subprocess.PIPE, text=True)
        try: return n, meta.get("property"), json.loads(r.stdout.strip().splitlines()[-1])
        except Exception: return n, meta.get("property"), {"CRASH": [r.stdout[-300:] + r.stderr[-300:]]}
    finally: shutil.rmtree(tmp, ignore_errors=True)
res = {}
with concurrent.futures.ThreadPoolExecutor(int(os.environ.get("JOBS", "6"))) as ex:
    for n, p, r in ex.map(one, seeds):
        fired = sorted(r.keys())
        if kind == "benign": st = "SILENT" if not fired else "ALARM"
        else: st = "OWN" if p in fired else ("OTHER" if fired else "MISSED")
        print(st, n, fired, flush=True)
        res[n] = {"status": st, "fired": fired, "keys": {k: v[:3] for k, v in r.items()}}
json.dump(res, open(os.path.join(os.environ.get("OUT_DIR", "/tmp"), "regress_%s.json" % kind), "w"), indent=1)
import collections
print("SUMMARY", kind, dict(collections.Counter(v["status"] for v in res.values())))
