// expect: E0277 cannot be sent between threads safely
// Twin of for_each_concurrent_is_send with a non-Send user future.
use std::future::Future;
use fn_graph::FnGraph;
fn assert_send<T: Send>(_: &T) {}
pub fn for_each_concurrent_is_send<'f, F, C, Fut>(g: &'f FnGraph<F>, c: C)
where
    F: Send + Sync + 'f,
    C: Fn(&'f F) -> Fut + Send + Sync,
    Fut: Future<Output = ()> + 'f,
{
    let fut = g.for_each_concurrent(None::<usize>, c);
    assert_send(&fut);
}
fn main() {}
