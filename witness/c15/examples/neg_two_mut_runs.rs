// expect: E0499 cannot borrow `*g` as mutable more than once at a time
// Two simultaneous `_mut` runs on one graph must not type-check: a `_mut` run has exclusive
// access to the graph for as long as its future lives.
use fn_graph::FnGraph;
pub fn two_mut_runs_at_once<F>(g: &mut FnGraph<F>) {
    let a = g.for_each_concurrent_mut(None::<usize>, |_f: &mut F| async {});
    let b = g.for_each_concurrent_mut(None::<usize>, |_f: &mut F| async {});
    drop((a, b));
}
fn main() {}
