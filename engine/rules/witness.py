"""Type-level witnesses (E3): small crates path-depending on /repo, decided by
rustc.  `src/lib.rs` must compile; every `examples/neg_*.rs` must FAIL with
the error code (and message fragment) named in its first line; every
`examples/pos_*.rs` must compile.  Nothing is executed."""
import fcntl
import json
import os
import re
import shutil
import subprocess
import time

from core import Ob

VERIF = os.path.dirname(os.path.dirname(os.path.dirname(os.path.abspath(__file__))))
WORK = os.path.join(VERIF, ".work")


def prepare(name, features, repo, extra_deps=""):
    src = os.path.join(VERIF, "witness", name)
    slot = "%s-%s" % (name, "+".join(features) or "default")
    if os.path.abspath(repo) != "/repo":
        import hashlib
        slot += "-" + hashlib.sha1(os.path.abspath(repo).encode()).hexdigest()[:8]
    dst = os.path.join(WORK, "witness", slot)
    if os.path.exists(dst):
        shutil.rmtree(dst)
    os.makedirs(dst)
    shutil.copytree(os.path.join(src, "src"), os.path.join(dst, "src"))
    if os.path.isdir(os.path.join(src, "examples")):
        shutil.copytree(os.path.join(src, "examples"), os.path.join(dst, "examples"))
    feats = ", ".join('"%s"' % f for f in features)
    own = "\n".join('%s = ["fn_graph/%s"]' % (f, f) for f in features)
    toml = """[package]
name = "witness_%s"
version = "0.0.0"
edition = "2021"

[dependencies]
fn_graph = { path = "%s", features = [%s] }
%s

[features]
default = [%s]
%s

[workspace]
""" % (name, repo, feats, extra_deps, feats, own)
    with open(os.path.join(dst, "Cargo.toml"), "w") as f:
        f.write(toml)
    lock = os.path.join(repo, "Cargo.lock")
    if os.path.exists(lock):
        shutil.copy(lock, os.path.join(dst, "Cargo.lock"))
    return dst, slot


def expectations(dst, features=()):
    out = {}
    ex = os.path.join(dst, "examples")
    if not os.path.isdir(ex):
        return out
    for fn in sorted(os.listdir(ex)):
        if not fn.endswith(".rs"):
            continue
        first = open(os.path.join(ex, fn)).readline().strip()
        m = re.match(r"//\s*expect:\s*(\S+)\s*(.*)$", first)
        if not m:
            continue
        # feature-gated examples: `// only: <feature>` / `// not: <feature>` on the second line
        lines = open(os.path.join(ex, fn)).read().splitlines()
        gate = lines[1].strip() if len(lines) > 1 else ""
        g = re.match(r"//\s*(only|not):\s*(\w+)", gate)
        if g:
            if g.group(1) == "only" and g.group(2) not in features:
                os.unlink(os.path.join(ex, fn))
                continue
            if g.group(1) == "not" and g.group(2) in features:
                os.unlink(os.path.join(ex, fn))
                continue
        out[fn[:-3]] = (m.group(1), m.group(2).strip())
    return out


def _repo_artifacts(tdir):
    """nothing is kept: the artifacts of /repo itself are rebuilt in about a second when the next check of the real tree runs"""
    return set()


def run(name, features, repo="/repo", extra_deps="", prop="C19", rule="W"):
    """returns (obs, info)"""
    t0 = time.time()
    base_slot = "%s-%s" % (name, "+".join(features) or "default")
    os.makedirs(WORK, exist_ok=True)
    lk0 = open(os.path.join(WORK, "lock-witness-prep-" + base_slot), "w")
    fcntl.flock(lk0, fcntl.LOCK_EX)
    try:
        dst, slot = prepare(name, features, repo, extra_deps)
        exp = expectations(dst, features)
    finally:
        fcntl.flock(lk0, fcntl.LOCK_UN)
        lk0.close()
    env = dict(os.environ)
    env["CARGO_NET_OFFLINE"] = "true"
    env["CARGO_TARGET_DIR"] = os.path.join(WORK, "target-witness-" + base_slot)
    env.pop("RUSTC_WORKSPACE_WRAPPER", None)
    env.pop("RUSTFLAGS", None)
    cfg = "+".join(features) or "default"
    cmd = ["cargo", "check", "--offline", "--lib", "--examples", "--keep-going", "--message-format=json"]
    with open(os.path.join(WORK, "lock-witness-" + base_slot), "w") as lk:
        fcntl.flock(lk, fcntl.LOCK_EX)
        p = subprocess.run(cmd, cwd=dst, env=env, stdout=subprocess.PIPE, stderr=subprocess.PIPE, text=True)
        if os.path.abspath(repo) != "/repo":
            # a scratch copy (self-test) is a different package id for cargo: its fn_graph / witness artifacts would pile up in
            # the shared target directory (about 20 MB per copy); the dependencies stay cached
            import glob
            tdir = os.path.join(env["CARGO_TARGET_DIR"], "debug")
            keep = _repo_artifacts(tdir)
            for pat in ("deps/libfn_graph-*", "deps/fn_graph-*", ".fingerprint/fn_graph-*", "deps/libwitness_*", "deps/witness_*",
                        ".fingerprint/witness_*", "examples/*", "incremental/*"):
                for f in glob.glob(os.path.join(tdir, pat)):
                    if f in keep:
                        continue
                    try:
                        shutil.rmtree(f) if os.path.isdir(f) else os.unlink(f)
                    except OSError:
                        pass
    errs = {}      # target name -> list of (code, message, rendered)
    built = set()
    dep_error = None
    for line in p.stdout.splitlines():
        try:
            j = json.loads(line)
        except ValueError:
            continue
        if j.get("reason") == "compiler-message":
            tgt = j["target"]["name"]
            pkg = j.get("package_id", "")
            msg = j["message"]
            if msg.get("level") == "error":
                if "witness_" not in pkg:
                    dep_error = (pkg, msg.get("message"))
                code = (msg.get("code") or {}).get("code")
                sp = msg.get("spans") or [{}]
                line_ = sp[0].get("line_start")
                errs.setdefault(tgt, []).append((code, msg.get("message", ""), (msg.get("rendered") or "")[:1500], line_))
        elif j.get("reason") == "compiler-artifact":
            if "witness_" in j.get("package_id", ""):
                built.add(j["target"]["name"])
    obs = []
    info = {"crate": name, "features": features, "cmd": " ".join(cmd), "wall_s": round(time.time() - t0, 2),
            "lib_assertions": 0, "negatives": 0, "positives": 0}
    if dep_error or ("could not compile `fn_graph`" in p.stderr):
        # fn_graph itself does not build in this configuration: not a verdict
        info["build_failed"] = True
        info["stderr_tail"] = p.stderr[-800:]
        return obs, info
    libname = "witness_%s" % name
    # one obligation per assertion function in lib.rs
    lib_src = open(os.path.join(dst, "src", "lib.rs")).read()
    fns = assertion_fns(lib_src, features)
    info["lib_assertions"] = len(fns)
    lib_errs = errs.get(libname, [])
    for fn_name, (lo, hi) in fns:
        mine = [e for e in lib_errs if e[3] is not None and lo <= e[3] <= hi]
        if mine:
            code, msg, rendered, line_ = mine[0]
            obs.append(Ob(rule, "%s|%s" % (name, fn_name), "violation", "witness/%s/src/lib.rs:%s" % (name, line_),
                          "must-compile assertion `%s` is rejected by rustc (%s): %s" % (fn_name, code, msg), cfg, {"rendered": rendered}))
        else:
            obs.append(Ob(rule, "%s|%s" % (name, fn_name), "ok", "witness/%s/src/lib.rs:%d" % (name, lo),
                          "rustc accepts the universally quantified assertion `%s`" % fn_name, cfg))
    unplaced = [e for e in lib_errs if not any(lo <= (e[3] or -1) <= hi for _, (lo, hi) in fns)]
    if unplaced:
        code, msg, rendered, line_ = unplaced[0]
        obs.append(Ob(rule, "%s|lib" % name, "violation", "witness/%s/src/lib.rs:%s" % (name, line_),
                      "witness library does not compile (%s): %s" % (code, msg), cfg, {"rendered": rendered}))
    if libname not in built and not lib_errs:
        obs.append(Ob(rule, "%s|lib-built" % name, "unverifiable", "-", "witness library produced no artifact: " + p.stderr[-300:], cfg))
    for ex, (want, frag) in sorted(exp.items()):
        es = errs.get(ex, [])
        if want == "ok":
            info["positives"] += 1
            if es:
                code, msg, rendered, line_ = es[0]
                obs.append(Ob(rule, "%s|%s" % (name, ex), "violation", "witness/%s/examples/%s.rs:%s" % (name, ex, line_),
                              "positive twin `%s` must compile but is rejected (%s): %s" % (ex, code, msg), cfg, {"rendered": rendered}))
            elif ex in built:
                obs.append(Ob(rule, "%s|%s" % (name, ex), "ok", "witness/%s/examples/%s.rs" % (name, ex),
                              "positive twin `%s` compiles" % ex, cfg))
            else:
                obs.append(Ob(rule, "%s|%s" % (name, ex), "unverifiable", "-", "positive twin `%s` was not built" % ex, cfg))
        else:
            info["negatives"] += 1
            hit = [e for e in es if e[0] == want and (not frag or frag in e[1] or frag in e[2])]
            if hit:
                obs.append(Ob(rule, "%s|%s" % (name, ex), "ok", "witness/%s/examples/%s.rs" % (name, ex),
                              "negative twin `%s` is rejected with %s as required (the positive assertion is not vacuous)" % (ex, want), cfg))
            elif es:
                obs.append(Ob(rule, "%s|%s" % (name, ex), "unverifiable", "witness/%s/examples/%s.rs" % (name, ex),
                              "negative twin `%s` fails for a different reason than %s %s: %s" % (ex, want, frag, [(e[0], e[1][:80]) for e in es][:2]), cfg))
            else:
                obs.append(Ob(rule, "%s|%s" % (name, ex), "violation", "witness/%s/examples/%s.rs" % (name, ex),
                              "negative twin `%s` compiles although it must be rejected with %s: the guarantee it witnesses no longer holds" % (ex, want), cfg))
    if os.path.abspath(repo) != "/repo":
        shutil.rmtree(dst, ignore_errors=True)
    return obs, info


def assertion_fns(src, features):
    """[(name, (first line, last line))] of `pub fn` items, skipping modules
    that are cfg'd out for this feature set."""
    lines = src.splitlines()
    out = []
    skip_depth = None
    depth = 0
    pending_cfg = None
    cur = None
    for i, l in enumerate(lines, 1):
        s = l.strip()
        m = re.match(r"#\[cfg\((not\()?feature\s*=\s*\"(\w+)\"\)?\)\]", s)
        if m:
            neg, feat = m.group(1), m.group(2)
            active = (feat in features) != bool(neg)
            pending_cfg = active
            continue
        if re.match(r"(pub\s+)?mod\s+\w+\s*\{", s):
            if pending_cfg is False and skip_depth is None:
                skip_depth = depth
            pending_cfg = None
        m = re.match(r"pub fn (\w+)", s)
        if m and skip_depth is None:
            cur = [m.group(1), i, i]
        depth += l.count("{") - l.count("}")
        if cur:
            cur[2] = i
            if depth <= (1 if cur and "    pub fn" in l or l.startswith("    ") else 0) and "}" in l and i > cur[1]:
                pass
        if cur and s == "}" and (l.startswith("}") or l.startswith("    }")):
            out.append((cur[0], (cur[1], i)))
            cur = None
        if skip_depth is not None and depth <= skip_depth:
            skip_depth = None
    return out
