// expect: E0277 cannot be shared between threads safely
use fn_graph::FnGraph;
fn assert_send<T: Send>(_: &T) {}
pub fn stream_is_send<F: Send>(g: &FnGraph<F>) {
    let s = g.stream();
    assert_send(&s);
}
fn main() {}
