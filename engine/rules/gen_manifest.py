#!/usr/bin/env python3
"""Regenerates /verif/MANIFEST.json from props.py (claimed checks) and NOT_APPLICABLE below."""
import json, os, sys
HERE = os.path.dirname(os.path.abspath(__file__))
sys.path.insert(0, HERE)
import props

VERIF = os.path.dirname(os.path.dirname(HERE))
ALL = ["C%02d" % i for i in range(1, 21)]
PENDING_REASON = "check under construction in this session (rules for this property are not yet registered; see DESIGN.md section 10)"

def main():
    hooks_commits = []
    m = {
        "version": 1,
        "setup_cmd": "/verif/bin/setup",
        "hooks": {
            "guard": "fn_graph_verif",
            "enable": "none needed: the analysis reads /repo's MIR through a rustc_private driver (RUSTC_WORKSPACE_WRAPPER); no hooks are compiled into fn_graph, the guard name is reserved but unused",
            "baseline_off_cmd": "cd /repo && (cargo nextest run --workspace --no-fail-fast --offline || cargo test --workspace --no-fail-fast --offline)",
            "source_commits": hooks_commits,
            "add_only": True,
        },
        "engines": [
            {"name": "mirfacts", "path": "engine/mirfacts", "serves_properties": sorted(p for p in props.PROPS if not props.PROPS[p].get("custom")),
             "kind_free_text": "rustc_private driver (nightly) dumping mir_built CFGs with resolved callees + crate-level type/impl/unsafe facts as JSON; no execution"},
            {"name": "rules", "path": "engine/rules", "serves_properties": sorted(props.PROPS),
             "kind_free_text": "Python rule engine over the fact base: expression reconstruction, dominance/control dependence, field-sensitive allocation-site provenance with an adaptor model table, typestate dataflow, loop inventory, type walk"},
            {"name": "witness", "path": "witness", "serves_properties": ["C15", "C17", "C19", "C20"],
             "kind_free_text": "type-level witness crates checked by rustc (must-compile universally quantified assertions with must-fail negative twins)"},
        ],
        "checks": [],
        "notes": "Static analysis only: every verdict is computed from /repo's current source without running it. Genuine defects found and repaired are listed in KNOWN_FINDINGS.txt (fixed: lines). See DESIGN.md.",
        "not_applicable": [],
    }
    for pid in ALL:
        spec = props.PROPS.get(pid)
        if not spec:
            m["not_applicable"].append({"property_id": pid, "reason": props.NOT_APPLICABLE.get(pid, PENDING_REASON) if hasattr(props, "NOT_APPLICABLE") else PENDING_REASON})
            continue
        m["checks"].append({
            "property_id": pid,
            "quick_cmd": "/verif/bin/check %s --tier quick" % pid,
            "thorough_cmd": "/verif/bin/check %s --tier thorough" % pid,
            "evidence_file": "/verif/evidence/%s.json" % pid,
            "replay_cmd_template": "/verif/bin/check %s --replay {path}" % pid,
            "engine": "rules",
            "level_claimed": {
                "category": spec.get("level", "other"),
                "text": spec["explanation"] + " Decides these clauses on every path of the current source for all inputs at once; it does not decide the behaviour over schedules/inputs itself. Not decided: " + spec["not_decided"] + ".",
                "design_ref": "DESIGN.md section 5 (%s), section 4 (S1-S7)" % pid,
            },
            "level_note": "; ".join(spec["assumptions"]),
            "technique": spec["technique"],
        })
    json.dump(m, open(os.path.join(VERIF, "MANIFEST.json"), "w"), indent=2)
    print("checks:", [c["property_id"] for c in m["checks"]])
    print("not_applicable:", [c["property_id"] for c in m["not_applicable"]])

main()
