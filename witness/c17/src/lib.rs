//! C17.G3 must-compile witness: GraphInfo<N> is serialisable and deserialisable for every such N.
#![allow(dead_code, clippy::all)]
use fn_graph::{Edge, FnIdInner, GraphInfo};
use serde::{de::DeserializeOwned, Serialize};

fn assert_serde<T: Serialize + DeserializeOwned>() {}

pub fn graph_info_is_serde<N: Serialize + DeserializeOwned>() {
    assert_serde::<GraphInfo<N>>();
}

pub fn edge_and_id_are_serde() {
    assert_serde::<Edge>();
    assert_serde::<FnIdInner>();
}

pub fn graph_info_eq_clone<N: PartialEq + Clone>(a: &GraphInfo<N>) -> bool {
    let b = a.clone();
    *a == b
}
