"""Runs the mirfacts driver over a source tree of fn_graph for one feature
configuration and returns the fresh fact file (never a cached one)."""
import fcntl
import glob
import os
import shutil
import subprocess
import time
import uuid

VERIF = os.path.dirname(os.path.dirname(os.path.dirname(os.path.abspath(__file__))))
WORK = os.path.join(VERIF, ".work")
DRIVER = os.path.join(WORK, "mirfacts-target", "debug", "mirfacts")
DRIVER_SRC = os.path.join(VERIF, "engine", "mirfacts")

# Named configurations (DESIGN.md section 3, E1).
CONFIGS = {
    "K0": [],
    "K1": ["--features", "interruptible"],
    "K2": ["--features", "graph_info"],
    "K3": ["--features", "fn_meta,resman,fn_res"],
    "K4": ["--no-default-features"],
}

ALL_FEATURES = ["async", "interruptible", "graph_info", "fn_meta", "resman", "fn_res"]


class BuildFailed(Exception):
    def __init__(self, cfg, stderr):
        Exception.__init__(self, "configuration %s does not build" % cfg)
        self.cfg = cfg
        self.stderr = stderr


class InfraError(Exception):
    pass


def sysroot():
    return subprocess.check_output(["rustc", "+nightly", "--print", "sysroot"], text=True).strip()


_SYSROOT = None


def _env(extra):
    global _SYSROOT
    if _SYSROOT is None:
        _SYSROOT = sysroot()
    env = dict(os.environ)
    env["CARGO_NET_OFFLINE"] = "true"
    env["LD_LIBRARY_PATH"] = _SYSROOT + "/lib" + (":" + env["LD_LIBRARY_PATH"] if env.get("LD_LIBRARY_PATH") else "")
    env.pop("RUSTC_WRAPPER", None)
    env.update(extra)
    return env


def build_driver():
    os.makedirs(WORK, exist_ok=True)
    env = _env({"CARGO_TARGET_DIR": os.path.join(WORK, "mirfacts-target")})
    p = subprocess.run(["cargo", "build", "--offline"], cwd=DRIVER_SRC, env=env,
                       stdout=subprocess.PIPE, stderr=subprocess.STDOUT, text=True)
    if p.returncode != 0 or not os.path.exists(DRIVER):
        raise InfraError("cannot build mirfacts driver:\n" + p.stdout[-4000:])
    return DRIVER


def ensure_driver():
    # Rebuild when sources are newer than the binary (cargo decides; cheap).
    return build_driver()


def cfg_args(cfg):
    if cfg in CONFIGS:
        return CONFIGS[cfg]
    # "F:<comma list>" = explicit feature set without defaults
    if cfg.startswith("F:"):
        feats = cfg[2:]
        a = ["--no-default-features"]
        if feats:
            a += ["--features", feats]
        return a
    raise InfraError("unknown configuration " + cfg)


def cfg_slot(cfg):
    return cfg.replace(":", "_").replace(",", "+") or "none"


def extract(cfg, repo="/repo", slot=None, crate="fn_graph", timeout=600):
    """Returns (fact_file_path, wall_seconds). Raises BuildFailed / InfraError."""
    if not os.path.exists(DRIVER):
        build_driver()
    slot = slot or cfg_slot(cfg)
    tdir = os.path.join(WORK, "target-" + slot)
    fdir = os.path.join(WORK, "facts", slot)
    os.makedirs(tdir, exist_ok=True)
    os.makedirs(fdir, exist_ok=True)
    nonce = uuid.uuid4().hex[:12]
    t0 = time.time()
    with open(os.path.join(WORK, "lock-" + slot), "w") as lk:
        fcntl.flock(lk, fcntl.LOCK_EX)
        # A warm target directory would make cargo skip the wrapper: purge the
        # crate's fingerprints so it is re-checked from the current sources.
        for fp in glob.glob(os.path.join(tdir, "debug", ".fingerprint", crate + "-*")):
            shutil.rmtree(fp, ignore_errors=True)
        # drop stale fact files (another check may still be reading a recent one)
        for old in glob.glob(os.path.join(fdir, crate + "-*.json")):
            try:
                if time.time() - os.path.getmtime(old) > 900:
                    os.unlink(old)
            except OSError:
                pass
        env = _env({
            "RUSTFLAGS": "-Awarnings",
            "RUSTC_WORKSPACE_WRAPPER": DRIVER,
            "MIRFACTS_OUT": fdir,
            "MIRFACTS_NONCE": nonce,
            "MIRFACTS_CRATE": crate,
            "CARGO_TARGET_DIR": tdir,
        })
        cmd = ["cargo", "+nightly", "check", "--offline", "--lib", "--quiet"] + cfg_args(cfg)
        try:
            p = subprocess.run(cmd, cwd=repo, env=env, stdout=subprocess.PIPE, stderr=subprocess.PIPE,
                               text=True, timeout=timeout)
        except subprocess.TimeoutExpired:
            raise InfraError("cargo check timed out for %s" % cfg)
        out = os.path.join(fdir, "%s-%s.json" % (crate, nonce))
        if p.returncode != 0:
            if "error: could not compile" in p.stderr or "error[" in p.stderr or "error:" in p.stderr:
                # distinguish infrastructure (driver panic) from source errors
                if "mirfacts" in p.stderr and "panicked" in p.stderr:
                    raise InfraError("mirfacts driver panicked on %s:\n%s" % (cfg, p.stderr[-3000:]))
                raise BuildFailed(cfg, p.stderr[-4000:])
            raise InfraError("cargo failed for %s:\n%s" % (cfg, p.stderr[-3000:]))
        if not os.path.exists(out):
            raise InfraError("driver produced no fact file for %s (wrapper skipped?)\n%s" % (cfg, p.stderr[-2000:]))
    return out, time.time() - t0


if __name__ == "__main__":
    import sys
    ensure_driver()
    for c in sys.argv[1:] or ["K0"]:
        try:
            print(c, extract(c))
        except BuildFailed as e:
            print(c, "BUILD FAILED", e.stderr[-500:])
