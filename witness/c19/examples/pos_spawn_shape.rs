// expect: ok
// not: interruptible
// Concrete positive twin: a concurrent run can be handed to a thread (the shape of `tokio::spawn`).
use fn_graph::FnGraph;
fn spawn_like<T: Send + 'static>(_t: T) {}
fn main() {
    let g: FnGraph<u32> = FnGraph::new();
    let g: &'static FnGraph<u32> = Box::leak(Box::new(g));
    spawn_like(g.for_each_concurrent(None::<usize>, |_f: &u32| async {}));
    spawn_like(g.try_for_each_concurrent(None::<usize>, |_f: &u32| async { Ok::<(), String>(()) }));
}
