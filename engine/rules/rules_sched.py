"""Shared scheduler premises S1-S7 and the run-time rules of C01-C10
(DESIGN.md sections 4 and 5).  Every rule works on MIR facts: resolved callees,
value sources (allocation sites), dominance and control dependence."""
from analysis import (E, Src, awaits, expr_operand, expr_place, expr_local, expr_calls, expr_rvalue, fmt_expr, fmt_src,
                      get_defs, guards_of, strip_proj, strip_refs, switch_expr, walk_expr, upvar_index)
from facts import callee_path, is_param_call, fmt_term
from model import CHANNEL_FNS, SEND_FNS, RECV_FNS, short

IDX_FNS = ("std::ops::Index::index", "std::ops::IndexMut::index_mut")
NODE_INDEX = "daggy::NodeIndex::<Ix>::index"
CHILDREN = "daggy::Dag::<N, E, Ix>::children"
NEIGHBORS_DIRECTED = "daggy::petgraph::Graph::<N, E, Ty, Ix>::neighbors_directed"
NEIGHBORS = "daggy::petgraph::Graph::<N, E, Ty, Ix>::neighbors"


def walk_direction(ctx, body_id, bb):
    """'children' / 'parents' for a successor/predecessor walk created by the call at (body, bb): daggy's
    children()/parents(), or petgraph's neighbors_directed(id, Outgoing|Incoming) / neighbors(id)"""
    b = ctx.fb.bodies.get(body_id)
    if b is None:
        return None
    t = b.blocks[bb]["term"]
    p = callee_path(t)
    if p == CHILDREN or p == NEIGHBORS:
        return "children"
    if p == PARENTS:
        return "parents"
    if p == NEIGHBORS_DIRECTED and len(t["args"]) == 3:
        d = strip_refs(expr_operand(b, t["args"][2]))
        if d.kind == "agg" and d[3] == "Outgoing":
            return "children"
        if d.kind == "agg" and d[3] == "Incoming":
            return "parents"
    return None


def is_child_item(ctx, s):
    return s.kind == "alloc" and "$item" in s[3] and s[4] in (CHILDREN, NEIGHBORS, NEIGHBORS_DIRECTED) and walk_direction(ctx, s[1], s[2]) == "children"
PARENTS = "daggy::Dag::<N, E, Ix>::parents"
NODE_COUNT_FNS = ("daggy::Dag::<N, E, Ix>::node_count", "daggy::petgraph::Graph::<N, E, Ty, Ix>::node_count")
ALL_NODE_SOURCES = ("daggy::petgraph::visit::Topo::<N, VM>::new", "daggy::petgraph::Graph::<N, E, Ty, Ix>::node_indices",
                    "daggy::petgraph::visit::IntoNodeReferences::node_references",
                    "daggy::petgraph::visit::IntoNodeIdentifiers::node_identifiers")
TAKE = "std::option::Option::<T>::take"
PANICKING = ("std::result::Result::<T, E>::expect", "std::result::Result::<T, E>::unwrap",
             "std::option::Option::<T>::expect", "std::option::Option::<T>::unwrap",
             "std::result::Result::<T, E>::expect_err", "std::result::Result::<T, E>::unwrap_err")


# ---------------------------------------------------------------------------
# small helpers

def const_val(e):
    if e.kind == "const":
        try:
            return int(e[1])
        except (ValueError, TypeError):
            return e[1]
    return None


def is_const(e, v):
    return e.kind == "const" and const_val(e) == v


def stores_through_index(body):
    """Writes to one element of an indexable container:
    `*p = v` where p = IndexMut::index_mut(container, idx) or p = &mut container[idx]
    (possibly reborrowed), and `container[idx] = v` on a slice/array place."""
    out = []
    defs = get_defs(body)

    def native(pl):
        """place ending in an Index projection -> (container operand, idx operand)"""
        pr = pl["p"]
        for k in range(len(pr) - 1, -1, -1):
            if isinstance(pr[k], dict) and "i" in pr[k]:
                if any(isinstance(x, dict) for x in pr[k + 1:]):
                    return None
                cont = {"k": "copy", "pl": {"l": pl["l"], "p": pr[:k], "ty": ""}}
                idx = {"k": "copy", "pl": {"l": pr[k]["i"], "p": [], "ty": "usize"}}
                return cont, idx
        return None

    def pointer(local, depth=0):
        """local holds a pointer to an element -> (container, idx, index_bb)"""
        if depth > 4:
            return None
        d = defs.unique_full(local)
        if not d:
            return None
        if d[0] == "call":
            if callee_path(d[3]) == "std::ops::IndexMut::index_mut":
                return d[3]["args"][0], d[3]["args"][1], d[1]
            return None
        if d[0] == "stmt":
            rv = d[3]["rv"]
            if rv["k"] in ("ref", "rawptr"):
                nat = native(rv["pl"])
                if nat:
                    return nat[0], nat[1], d[1]
                if rv["pl"]["p"] == ["*"]:
                    return pointer(rv["pl"]["l"], depth + 1)
            if rv["k"] == "use" and rv["op"]["k"] in ("move", "copy") and not rv["op"]["pl"]["p"]:
                return pointer(rv["op"]["pl"]["l"], depth + 1)
        return None

    for bb, si, s in body.stmts():
        if s["k"] != "assign":
            continue
        pl = s["pl"]
        hit = None
        if pl["p"] == ["*"]:
            hit = pointer(pl["l"])
        elif pl["p"]:
            nat = native(pl)
            if nat:
                hit = (nat[0], nat[1], bb)
        if hit is None:
            continue
        out.append({"bb": bb, "si": si, "container": hit[0], "idx": hit[1], "ptr": pl["l"],
                    "value": expr_operand_rv(body, s["rv"], (bb, si)), "stmt": s, "index_bb": hit[2]})
    return out


def expr_operand_rv(body, rv, at):
    from analysis import expr_rvalue
    return expr_rvalue(body, rv, 0, at)


def elem_read(e):
    """If e is a read `container[idx]` (deref of Index::index call) returns
    (container_expr, idx_expr) else None."""
    e = strip_refs(e)
    if e.kind == "deref":
        e = strip_refs(e[1])
    if e.kind == "call" and e[1] in IDX_FNS and len(e[2]) == 2:
        return e[2][0], e[2][1]
    if e.kind == "index":
        return e[1], e[2]
    return None


def node_index_arg(e):
    """idx expression `NodeIndex::index(x)` -> x"""
    e = strip_refs(e)
    if e.kind == "call" and e[1] == NODE_INDEX:
        return strip_refs(e[2][0])
    return None


def leaf_operands(body, e):
    """locals/upvars at the leaves of an expression"""
    out = []
    for x in walk_expr(e):
        if x.kind in ("local", "arg", "env"):
            out.append(x)
    return out


def sources_of_expr(ctx, body, e, mode="prov", rest=()):
    """Flow sources of an intra-body expression (through its leaves)."""
    fl = ctx.model.flow
    e0 = e
    path = []
    # peel projections to find a rooted place
    cur = e0
    proj = []
    while True:
        if cur.kind in ("ref",):
            cur = cur[2]
        elif cur.kind in ("deref", "cast"):
            cur = cur[1]
        elif cur.kind == "field":
            proj.append(cur[2])
            cur = cur[1]
        elif cur.kind == "downcast":
            from analysis import TAGGED_VARIANTS, WRAPPER_VARIANTS
            if cur[2] in TAGGED_VARIANTS:
                # the following payload field (already pushed) is replaced by the tag
                if proj:
                    proj.pop()
                proj.append(TAGGED_VARIANTS[cur[2]])
            elif cur[2] in WRAPPER_VARIANTS:
                if proj:
                    proj.pop()
            cur = cur[1]
        elif cur.kind == "index":
            cur = cur[1]
        else:
            break
    proj.reverse()
    full = tuple(proj) + tuple(rest)
    if cur.kind == "local":
        return fl.sources_local(body, cur[1], full, mode)
    if cur.kind == "arg":
        return fl.sources_local(body, cur[1], full, mode)
    if cur.kind == "env":
        return fl.sources_local(body, 1, full, mode)
    if cur.kind == "const":
        return frozenset([Src(("const", cur[1], cur[2]))])
    if cur.kind == "call":
        # find the block of the call and query its destination
        bb = cur[3]
        t = body.blocks[bb]["term"]
        return fl.sources_place(body, t["dest"], full, mode)
    if cur.kind == "agg" and cur[5]:
        bb, si = cur[5]
        st = body.blocks[bb]["stmts"][si]
        return fl.sources_place(body, st["pl"], full, mode)
    return frozenset([Src(("unknown", "expr " + cur.kind))])


def holder_roles(ctx, body, e=None, place=None):
    """Channel roles of the sender(s) held by a value: the value itself, or --
    when it is a tuple/struct of senders (`Option<(done_tx, ready_tx)>`) -- its
    fields.  Returns the set of roles."""
    m, fl = ctx.model, ctx.model.flow

    def q(rest):
        if place is not None:
            return fl.sources_place(body, place, rest)
        return sources_of_expr(ctx, body, e, rest=rest)
    roles, _ = m.roles_of_sources(q(()), half=0)
    roles.discard(None)
    if roles:
        return roles
    out = set()
    for i in range(4):
        r, _ = m.roles_of_sources(q((i,)), half=0)
        r.discard(None)
        out |= r
    return out


def is_alloc_of(srcs, paths, only=True):
    if not srcs:
        return False
    hit = [s for s in srcs if s.kind == "alloc" and s[4] in paths]
    if only:
        return len(hit) == len(srcs)
    return bool(hit)


def cond_guards(body, bb):
    """[(switch_bb, discr_expr, values)] guards controlling bb"""
    out = []
    for sb, vals in guards_of(body, bb):
        out.append((sb, switch_expr(body, sb), vals))
    return out


def guard_eq_zero(body, bb):
    """Guards of bb of the form `X == 0` taken when true (or `X != 0` taken
    when false): returns list of (switch_bb, X expr, relation) where relation
    is 'eq0' or another comparison name when taken on a different relation."""
    out = []
    for sb, de, vals in cond_guards(body, bb):
        e = strip_refs(de)
        dop = body.blocks[sb]["term"]["discr"]
        dty = (dop.get("pl") or {}).get("ty") or dop.get("ty") or ""
        if e.kind != "binop" and dty in ("usize", "u8", "u16", "u32", "u64", "u128", "isize", "i32", "i64"):
            # `match n { 0 => .. }` / `if let (0, ..) = (n, ..)`: a switch on the integer itself
            if vals == frozenset(["0"]):
                out.append((sb, e, "eq0"))
            elif "0" not in vals:
                out.append((sb, e, "Ne:true"))
            continue
        if e.kind == "binop" and e[1] in ("Lt", "Ge") and is_const(e[3], 1):
            e = E(("binop", "Eq" if e[1] == "Lt" else "Ne", e[2], E(("const", "0", "usize"))))
        if e.kind == "binop" and e[1] in ("Eq", "Ne", "Le", "Lt", "Ge", "Gt"):
            a, b = e[2], e[3]
            true_taken = "otherwise" in vals and "0" not in vals
            false_taken = "0" in vals and "otherwise" not in vals
            if not (true_taken or false_taken):
                continue
            op = e[1]
            x = None
            if is_const(b, 0):
                x = a
            elif is_const(a, 0):
                x = b
                op = {"Le": "Ge", "Lt": "Gt", "Ge": "Le", "Gt": "Lt"}.get(op, op)
            if x is None:
                out.append((sb, e, "cmp-nonzero:%s" % fmt_expr(e, body)))
                continue
            if (op == "Eq" and true_taken) or (op == "Ne" and false_taken):
                out.append((sb, x, "eq0"))
            elif op == "Le" and true_taken:
                out.append((sb, x, "eq0"))      # unsigned x <= 0  <=>  x == 0
            elif op == "Gt" and false_taken:
                out.append((sb, x, "eq0"))      # !(x > 0) <=> x == 0 (unsigned)
            else:
                out.append((sb, x, "%s:%s" % (op, "true" if true_taken else "false")))
        elif e.kind == "call" and e[1] in ("std::cmp::PartialEq::eq", "std::cmp::PartialEq::ne"):
            out.append((sb, e, "cmp-call"))
    return out


# ---------------------------------------------------------------------------
# role helpers on top of the model

COPY_FNS = ("std::slice::<impl [T]>::to_vec", "std::borrow::ToOwned::to_owned", "std::clone::Clone::clone",
            "std::vec::Vec::<T>::from", "std::convert::From::from", "std::convert::Into::into")


def setup_group(ctx):
    """the set-up function and the private, synchronous helpers it calls (a set-up split into `select the structure and
    counts` / `compute the capacity` / `allocate the channels` is still one set-up)"""
    m, fb = ctx.model, ctx.fb
    setup = fb.bodies.get(m.SETUP) if m.SETUP else None
    if not setup:
        return []
    out = [setup]
    for i in sorted(m.reach_calls(setup.id)):
        b = fb.bodies[i]
        if b.id != setup.id and b.kind == "fn" and not (fb.fns.get(b.id) or {}).get("public"):
            out.append(b)
    return out


def counts_allocs(ctx):
    """COUNTS: the fresh per-run copies of the edge counts: allocation sites in
    SETUP whose callee copies a slice/vec (to_vec/clone/to_owned/collect) and
    whose argument comes from an EdgeCounts getter."""
    out = {}
    for sb_ in setup_group(ctx):
        out.update(_counts_allocs_in(ctx, sb_))
    return out


def _counts_allocs_in(ctx, setup):
    m = ctx.model
    out = {}
    for bb, t in setup.calls():
        p = callee_path(t)
        if p in ("std::slice::<impl [T]>::to_vec", "std::borrow::ToOwned::to_owned", "std::clone::Clone::clone",
                 "std::vec::Vec::<T>::from", "std::convert::From::from", "std::iter::Iterator::collect",
                 "std::convert::Into::into"):
            e = expr_operand(setup, t["args"][0])
            getters = [c for c in walk_expr(e) if c.kind == "call" and c[1].startswith("edge_counts::EdgeCounts::")]
            es_ = strip_refs(e)
            if getters:
                out[(setup.id, bb)] = getters[0][1]
            elif es_.kind == "field" and strip_refs(es_[1]) == E(("arg", 1)) and setup.arg_count >= 1 and "EdgeCounts" in setup.locals[1]["s"] and \
                    t["dest"]["ty"].startswith("std::vec::Vec<usize"):
                out[(setup.id, bb)] = "field-copy"
            elif t["dest"]["ty"].startswith("std::vec::Vec<usize") and "[usize]" in (t["args"][0].get("pl", {}).get("ty") or ""):
                # copy of a slice selected earlier (e.g. by a match on the order): every source of the slice is an EdgeCounts getter's result
                fl = m.flow
                srcs = fl.sources_operand(setup, t["args"][0])
                gsrc = set()
                for gb_ in setup_group(ctx):
                    for gbb, gt in gb_.calls():
                        if (callee_path(gt) or "").startswith("edge_counts::EdgeCounts::"):
                            gsrc |= set(fl.sources_local(gb_, gt["dest"]["l"], ()))
                if srcs and gsrc and set(srcs) <= gsrc:
                    out[(setup.id, bb)] = "selected-getter"
    return out


def count_role(ctx, srcs):
    """which COUNTS allocation(s) a container value comes from"""
    ca = counts_allocs(ctx)
    keys = set()
    other = []
    for s in srcs:
        if s.kind == "alloc" and (s[1], s[2]) in ca:
            keys.add((s[1], s[2]))
        else:
            other.append(s)
    return keys, other


# ---------------------------------------------------------------------------
# S1: count / structure pairing chain

def degree_vectors(ctx):
    """In the count calculator: classify each zero-initialised vector by the
    walk that increments it.  Returns {alloc_key: 'in'|'out'|'?'} and the
    EdgeCounts constructor call."""
    fb = ctx.fb
    fl = ctx.model.flow
    kinds = {}
    details = {}
    for b in fb.prod_bodies():
        for st in stores_through_index(b):
            v = st["value"]
            if not (v.kind == "binop" and v[1] == "Add"):
                continue
            if b.kind == "fn" and not (fb.fns.get(b.id) or {}).get("public") and \
                    any(x.kind == "param" and x[1] == b.id for x in fl.sources_operand(b, st["container"], (), "prov@" + b.id)):
                continue        # a bump helper working on a vector it is handed: classified per call site below
            csrcs = fl.sources_operand(b, st["container"])
            allocs = [s for s in csrcs if s.kind == "alloc" and s[4] == "std::vec::from_elem"]
            if not allocs or len(allocs) != len(csrcs):
                continue
            # only vectors that end up in EdgeCounts matter; filtered by caller
            idx = node_index_arg(expr_operand(b, st["idx"]))
            if idx is None:
                kind = "?"
                why = "index is not NodeIndex::index(id)"
            elif strip_refs(idx).kind == "call" and strip_refs(idx)[1].endswith(("Edge::<E, Ix>::target", "Edge::<E, Ix>::source")):
                # one increment per raw edge: incoming[edge.target()] / outgoing[edge.source()]
                ie = strip_refs(idx)
                esrc = sources_of_expr(ctx, b, strip_refs(ie[2][0]))
                from_raw = bool(esrc) and all(s.kind == "alloc" and s[4].endswith("::raw_edges") and "$item" in s[3] for s in esrc)
                kind = ("in" if ie[1].endswith("::target") else "out") if from_raw else "?"
                why = "raw-edge %s" % ie[1].split("::")[-1]
                if kind != "?":
                    okw, whyw = full_raw_edge_walk(ctx, b, st["bb"])
                    if not okw:
                        kind = "?"
                        why = whyw
                inc_ok = v.kind == "binop" and v[1] == "Add" and (is_const(v[3], 1) or is_const(v[2], 1))
                for a in allocs:
                    key = (a[1], a[2])
                    prev = kinds.get(key)
                    k2 = kind if inc_ok else "?"
                    kinds[key] = k2 if prev in (None, k2) else "?"
                    details.setdefault(key, []).append((b, st, why, fmt_expr(v, b)))
                continue
            else:
                isrcs = sources_of_expr(ctx, b, idx)
                walk = set()
                for s in isrcs:
                    if s.kind == "alloc" and s[4] == CHILDREN and "$item" in s[3]:
                        walk.add("child-item")
                    elif s.kind == "alloc" and s[4] == PARENTS and "$item" in s[3]:
                        walk.add("parent-item")
                    else:
                        walk.add("other:" + fmt_src(s))
                # the walk the store sits in (closure passed to for_each over children/parents)
                if walk == {"child-item"}:
                    kind = "in"
                elif walk == {"parent-item"}:
                    kind = "out"
                else:
                    kind = "?"
                why = ",".join(sorted(walk))
            inc_ok = v.kind == "binop" and v[1] == "Add" and (is_const(v[3], 1) or is_const(v[2], 1))
            # the increment sits in a closure run for EVERY edge: for_each over children/parents of EVERY node
            if kind in ("in", "out"):
                okw, whyw = full_edge_walk(ctx, b, st["bb"])
                if not okw:
                    kind = "?"
                    why = whyw
            for a in allocs:
                key = (a[1], a[2])
                prev = kinds.get(key)
                k2 = kind if inc_ok else "?"
                kinds[key] = k2 if prev in (None, k2) else "?"
                details.setdefault(key, []).append((b, st, why, fmt_expr(v, b)))
    # helper form: `fn bump_each(counts: &mut [usize], neighbours: impl Iterator<..>) { for (_, n) in neighbours { counts[n] += 1 } }`
    # called once with (incoming, children(node)) and once with (outgoing, parents(node)) inside the walk over all nodes:
    # each call site is classified on its own
    for hb in fb.prod_bodies():
        hsig = fb.fns.get(hb.id) or {}
        if hb.kind != "fn" or hsig.get("public"):
            continue
        for st in stores_through_index(hb):
            v = st["value"]
            if not (v.kind == "binop" and v[1] == "Add"):
                continue
            csum = fl.sources_operand(hb, st["container"], (), "prov@" + hb.id)
            cpar = [x for x in csum if x.kind == "param" and x[1] == hb.id and not x[3]]
            if len(cpar) != 1 or len(csum) != 1:
                continue
            idx = node_index_arg(expr_operand(hb, st["idx"]))
            if idx is None:
                continue
            isum = sources_of_expr(ctx, hb, idx, mode="prov@" + hb.id)
            ipar = [x for x in isum if x.kind == "param" and x[1] == hb.id and "$item" in x[3]]
            if len(ipar) != 1 or len(isum) != 1:
                continue
            inc_ok = is_const(v[3], 1) or is_const(v[2], 1)
            lr = loop_region(ctx, hb, st["bb"])
            inner_ok = lr is not None and not lr["early_exits"] and \
                not [g for g in cond_guards(hb, st["bb"]) if g[0] in lr["blocks"] and g[0] != lr.get("switch_bb")]
            if inner_ok:
                ichain = iterator_chain(ctx, hb, lr["iter_expr"]) if lr.get("iter_expr") is not None else []
                inner_ok = not [c for c in ichain if c[0] in SELECTIVE_ITER] and bool(ichain) and ichain[-1][0] == "leaf:arg" and ichain[-1][2][1] == ipar[0][2]
            for (cb, cbb, ct) in fl.call_sites().get(hb.id, []):
                if fb.is_test_body(cb):
                    continue
                ci, ii = cpar[0][2], ipar[0][2]
                if ci - 1 >= len(ct["args"]) or ii - 1 >= len(ct["args"]):
                    continue
                asrc = fl.sources_operand(cb, ct["args"][ci - 1])
                allocs = [s_ for s_ in asrc if s_.kind == "alloc" and s_[4] == "std::vec::from_elem"]
                if not allocs or len(allocs) != len(asrc):
                    continue
                wchain = iterator_chain(ctx, cb, expr_operand(cb, ct["args"][ii - 1]))
                wn = [c[0] for c in wchain if not c[0].startswith("inline:")]
                walk = [n_ for n_ in wn if n_ in (CHILDREN, PARENTS)]
                kind = "?"
                why = "walk %s" % wn
                if inc_ok and inner_ok and len(walk) == 1 and not [n_ for n_ in wn if n_ in SELECTIVE_ITER]:
                    kind = "in" if walk[0] == CHILDREN else "out"
                    # the call runs for every node: unconditional in a loop / for_each over all nodes
                    lro = loop_region(ctx, cb, cbb)
                    outer_ok = False
                    if lro is not None:
                        och = iterator_chain(ctx, cb, lro["iter_expr"]) if lro.get("iter_expr") is not None else []
                        on = [c[0] for c in och]
                        outer_ok = not lro["early_exits"] and not [x for x in on if x in SELECTIVE_ITER] and \
                            ranges_all_nodes(och) and \
                            not [g for g in cond_guards(cb, cbb) if g[0] in lro["blocks"] and g[0] != lro.get("switch_bb")]
                    elif cb.kind == "closure":
                        ou = fl.closure_uses(cb)
                        if len(ou) == 1 and callee_path(ou[0][2]) in ("std::iter::Iterator::fold", "std::iter::Iterator::for_each"):
                            och_ = iterator_chain(ctx, ou[0][0], expr_operand(ou[0][0], ou[0][2]["args"][0]))
                            on = [c[0] for c in och_]
                            outer_ok = not [x for x in on if x in SELECTIVE_ITER] and ranges_all_nodes(och_) and \
                                not cond_guards(cb, cbb)
                    if not outer_ok:
                        kind = "?"
                        why = "the bump helper is not called for every node"
                for a in allocs:
                    key = (a[1], a[2])
                    prev = kinds.get(key)
                    kinds[key] = kind if prev in (None, kind) else "?"
                    details.setdefault(key, []).append((cb, st, why, fmt_expr(v, hb)))
    # gather form: vec[i] = number of parents / children of node i, for all nodes in index order
    for b in fb.prod_bodies():
        for bb, t in b.calls():
            if callee_path(t) != "std::iter::Iterator::collect" or not t["dest"]["ty"].startswith("std::vec::Vec<usize"):
                continue
            chain = iterator_chain(ctx, b, expr_operand(b, t["args"][0]))
            names = [c[0] for c in chain]
            if not names or names[0] != "std::iter::Iterator::map":
                continue
            if not any(n in ALL_NODE_SOURCES or n.endswith("::node_indices") for n in names[1:]) and \
                    not any(c[0] == "leaf:agg" for c in chain[1:]):
                continue
            if [n for n in names[1:] if n in SELECTIVE_ITER or n in MORE_ITER]:
                continue
            fcl = closure_of_arg(ctx, chain[0][1], chain[0][2][2][1])
            re_ = return_expr(fcl) if fcl is not None else None
            if re_ is None:
                continue
            r = strip_refs(re_)
            if not (r.kind == "call" and r[1].endswith("::count")):
                continue
            wchain = iterator_chain(ctx, fcl, r[2][0])
            wn = [c[0] for c in wchain]
            if [n for n in wn if n in SELECTIVE_ITER]:
                kinds[(b.id, bb)] = "?"
                continue
            walk = [c for c in wchain if c[0] in (CHILDREN, PARENTS)]
            if len(walk) != 1:
                continue
            idv = strip_refs(walk[0][2][2][1])
            first_param = 2 if fcl.kind == "closure" else 1
            of_item = idv.kind == "arg" and idv[1] == first_param
            kind = ("in" if walk[0][0] == PARENTS else "out") if of_item else "?"
            kinds[(b.id, bb)] = kind
            details.setdefault((b.id, bb), []).append((b, None, "gather %s" % walk[0][0].split("::")[-1], fmt_expr(r, fcl)))
    return kinds, details


def edgecounts_method_protocol(ctx):
    """EdgeCounts filled by `self.<field>[index] += 1` methods: classify each field by the walks at the methods' call sites.
    Returns {"degree": {field: 'in'|'out'|'?'}, "ok", "desc", "where"} or None."""
    fb, m, fl = ctx.fb, ctx.model, ctx.model.flow
    degree = {}
    desc = []
    where = "-"
    ok = True
    for f in fb.fns.values():
        if f.get("impl_self") != "edge_counts::EdgeCounts" or f.get("impl_trait"):
            continue
        mb = fb.bodies.get(f["id"])
        if mb is None:
            continue
        for st in stores_through_index(mb):
            v = st["value"]
            if not (v.kind == "binop" and v[1] == "Add"):
                continue
            ce = strip_refs(expr_operand(mb, st["container"]))
            if not (ce.kind == "field" and strip_refs(ce[1]) == E(("arg", 1)) and isinstance(ce[2], int)):
                continue
            fld = ce[2]
            inc_ok = is_const(v[3], 1) or is_const(v[2], 1)
            ie = strip_refs(expr_operand(mb, st["idx"]))
            if ie.kind != "arg":
                degree[fld] = "?"
                continue
            kinds_ = set()
            sites = [(cb, cbb, ct) for (cb, cbb, ct) in fl.call_sites().get(mb.id, []) if not fb.is_test_body(cb)]
            for cb, cbb, ct in sites:
                where = m.where(cb, cbb)
                idv = node_index_arg(expr_operand(cb, ct["args"][ie[1] - 1]))
                k = "?"
                if idv is not None:
                    isrcs = sources_of_expr(ctx, cb, idv)
                    walk = set()
                    for s_ in isrcs:
                        if s_.kind == "alloc" and s_[4] == CHILDREN and "$item" in s_[3]:
                            walk.add("in")
                        elif s_.kind == "alloc" and s_[4] == PARENTS and "$item" in s_[3]:
                            walk.add("out")
                        else:
                            walk.add("?")
                    if len(walk) == 1:
                        k = list(walk)[0]
                    if k != "?":
                        okw, whyw = full_edge_walk(ctx, cb, cbb)
                        if not okw or cond_guards(mb, st["bb"]):
                            k = "?"
                            desc.append(whyw)
                kinds_.add(k if inc_ok else "?")
            degree[fld] = list(kinds_)[0] if len(kinds_) == 1 else "?"
            desc.append("field #%d bumped by %s: %s" % (fld, f["name"], degree[fld]))
    if not degree:
        return None
    # every construction starts from zero-filled vectors
    for b in fb.prod_bodies():
        sgb = fb.fns.get(b.id) or {}
        if sgb.get("impl_trait") in ("std::clone::Clone", "std::default::Default"):
            continue        # copies of an existing value / the empty counts of an empty graph
        if b.id == "edge_counts::EdgeCounts::new" and not [1 for (cb_, _, _) in fl.call_sites().get(b.id, []) if not fb.is_test_body(cb_)]:
            continue        # constructor from caller-supplied vectors, unused by the library itself
        for bb, si, s_ in b.stmts():
            if s_["k"] == "assign" and s_["rv"]["k"] == "agg" and s_["rv"].get("def") == "edge_counts::EdgeCounts":
                for o in s_["rv"]["ops"]:
                    srcs = fl.sources_operand(b, o)
                    z = bool(srcs) and all(x.kind == "alloc" and x[4] == "std::vec::from_elem" for x in srcs)
                    if z:
                        for x in srcs:
                            t0 = fb.bodies[x[1]].blocks[x[2]]["term"]
                            if not is_const(strip_refs(expr_operand(fb.bodies[x[1]], t0["args"][0])), 0):
                                z = False
                    if not z and b.id != "edge_counts::EdgeCounts::new":
                        ok = False
                        desc.append("a field of EdgeCounts is not constructed as vec![0; n]")
    ok = ok and sorted(degree.values()) == ["in", "out"]
    return {"degree": degree, "ok": ok, "desc": "; ".join(desc), "where": where}


def full_raw_edge_walk(ctx, body, bb):
    """the store at bb runs once for every element of raw_edges(): body of an
    unfiltered `for`/for_each over it, unconditional, no early exit"""
    fl = ctx.model.flow
    lr = loop_region(ctx, body, bb)
    if lr is not None:
        chain = iterator_chain(ctx, body, lr["iter_expr"]) if lr.get("iter_expr") is not None else []
        names = [c[0] for c in chain]
        if [x for x in names if x in SELECTIVE_ITER] or not any(x.endswith("::raw_edges") for x in names):
            return False, "edge loop is narrowed / not over raw_edges(): %s" % names
        if lr["early_exits"]:
            return False, "edge loop can be left early"
        gs = [g for g in cond_guards(body, bb) if g[0] in lr["blocks"] and g[0] != lr.get("switch_bb")]
        if gs:
            return False, "degree increment is conditional inside the edge loop"
        return True, ""
    if body.kind == "closure":
        uses = fl.closure_uses(body)
        if len(uses) == 1 and callee_path(uses[0][2]) == "std::iter::Iterator::for_each":
            pb, ubb, ut, ai = uses[0]
            names = [c[0] for c in iterator_chain(ctx, pb, expr_operand(pb, ut["args"][0]))]
            if not [x for x in names if x in SELECTIVE_ITER] and any(x.endswith("::raw_edges") for x in names) and \
                    not cond_guards(body, bb) and not cond_guards(pb, ubb):
                return True, ""
    return False, "degree increment is not in an unfiltered loop over raw_edges()"


def ranges_all_nodes(chain):
    """the iterator chain enumerates every node id: node_indices() / node_references() / Topo, or
    `(0..graph.node_count()).map(NodeIndex::new)`"""
    names = [c[0] for c in chain]
    if any(x in ALL_NODE_SOURCES or x.endswith("::node_indices") for x in names):
        return True
    leaf = chain[-1] if chain else None
    if leaf is not None and leaf[0] == "leaf:agg" and len(leaf[2]) > 4 and leaf[2][2] == "std::ops::Range":
        lo, hi = strip_refs(leaf[2][4][0]), strip_refs(leaf[2][4][1])
        if is_const(lo, 0) and hi.kind == "call" and hi[1] in NODE_COUNT_FNS:
            maps = [c for c in chain if c[0] == "std::iter::Iterator::map"]
            if len(maps) == 1 and len(maps[0][2][2]) > 1:
                f = strip_refs(maps[0][2][2][1])
                if f.kind == "fnconst" and str(f[1]).endswith(("NodeIndex::<Ix>::new", "::node_index")):
                    return True
    return False


def full_edge_walk(ctx, body, bb=None):
    """`body` is a closure passed to Iterator::for_each over children(n)/parents(n)
    (no narrowing adaptor), itself inside a fold/for_each over all nodes -- or the
    same as two nested loops."""
    fl = ctx.model.flow
    lr_in = loop_region(ctx, body, bb) if bb is not None else None
    if lr_in is not None:
        # inner loop: every child/parent of a node; outer loop (or enclosing closure): every node
        if lr_in["early_exits"]:
            return False, "edge loop can be left early"
        if [g for g in cond_guards(body, bb) if g[0] in lr_in["blocks"] and g[0] != lr_in.get("switch_bb")]:
            return False, "degree increment is conditional inside the edge loop"
        ichain = iterator_chain(ctx, body, lr_in["iter_expr"]) if lr_in.get("iter_expr") is not None else []
        inames = [c[0] for c in ichain if not c[0].startswith("inline:")]
        if [x for x in inames if x in SELECTIVE_ITER] or not any(x in (CHILDREN, PARENTS) for x in inames):
            return False, "edge loop is narrowed / not over children|parents: %s" % inames
        lr_out = loop_region(ctx, body, bb, skip_headers=(lr_in["header"],))
        if lr_out is not None:
            if lr_out["early_exits"]:
                return False, "node loop can be left early"
            if [g for g in cond_guards(body, lr_in["next_bb"]) if g[0] in lr_out["blocks"] and g[0] not in (lr_out.get("switch_bb"), lr_in.get("switch_bb"))]:
                return False, "edge loop is conditional inside the node loop"
            ochain = iterator_chain(ctx, body, lr_out["iter_expr"]) if lr_out.get("iter_expr") is not None else []
            onames = [c[0] for c in ochain]
            if [x for x in onames if x in SELECTIVE_ITER] or not ranges_all_nodes(ochain):
                return False, "node loop does not range over all nodes: %s" % onames
            return True, ""
        if body.kind != "closure":
            return False, "edge loop is not inside a walk over all nodes"
        pb, ubb = body, None
        ou = fl.closure_uses(pb)
        if len(ou) != 1 or callee_path(ou[0][2]) not in ("std::iter::Iterator::fold", "std::iter::Iterator::for_each"):
            return False, "node walk is not a fold/for_each over all nodes"
        qb, qbb, qt, qai = ou[0]
        ochain = iterator_chain(ctx, qb, expr_operand(qb, qt["args"][0]))
        onames = [c[0] for c in ochain]
        if [x for x in onames if x in SELECTIVE_ITER] or not ranges_all_nodes(ochain):
            return False, "node walk does not range over all nodes: %s" % onames
        return True, ""
    if body.kind != "closure":
        return False, "degree increment is not inside a per-edge closure"
    if bb is not None and cond_guards(body, bb):
        return False, "degree increment is conditional inside the per-edge closure (some edges are not counted)"
    uses = fl.closure_uses(body)
    if len(uses) != 1 or callee_path(uses[0][2]) != "std::iter::Iterator::for_each":
        return False, "degree increment is not driven by for_each over every edge of the node (%s)" % [callee_path(u[2]) for u in uses]
    pb, ubb, ut, ai = uses[0]
    chain = iterator_chain(ctx, pb, expr_operand(pb, ut["args"][0]))
    names = [c[0] for c in chain if not c[0].startswith("inline:")]
    sel = [x for x in names if x in SELECTIVE_ITER]
    if sel or not any(x in (CHILDREN, PARENTS) for x in names):
        return False, "edge walk is narrowed / not over children|parents: %s" % names
    if cond_guards(pb, ubb):
        return False, "edge walk is conditional"
    # outer: all nodes
    if pb.kind == "closure":
        ou = fl.closure_uses(pb)
        if len(ou) != 1 or callee_path(ou[0][2]) not in ("std::iter::Iterator::fold", "std::iter::Iterator::for_each"):
            return False, "node walk is not a fold/for_each over all nodes"
        qb, qbb, qt, qai = ou[0]
        ochain = iterator_chain(ctx, qb, expr_operand(qb, qt["args"][0]))
        onames = [c[0] for c in ochain]
        if [x for x in onames if x in SELECTIVE_ITER] or not ranges_all_nodes(ochain):
            return False, "node walk does not range over all nodes: %s" % onames
    return True, ""


def S1(ctx, rule="S1"):
    """Count/structure pairing chain (DESIGN.md section 4)."""
    fb, m, fl = ctx.fb, ctx.model, ctx.model.flow
    setup = fb.bodies.get(m.SETUP) if m.SETUP else None
    if setup is None:
        ctx.unverifiable(rule, "setup", "-", "scheduler set-up function not found (%s)" % "; ".join(m.errors))
        return
    # (1) degree vectors and the EdgeCounts constructor
    kinds, details = degree_vectors(ctx)
    ec_fields = m.adt_fields("edge_counts::EdgeCounts")
    new_sites = fl.call_sites().get("edge_counts::EdgeCounts::new", [])
    new_sites = [(b, bb, t) for (b, bb, t) in new_sites if not fb.is_test_body(b)]
    field_degree = {}   # field index -> 'in'/'out'
    newb = fb.bodies.get("edge_counts::EdgeCounts::new")
    if not new_sites or newb is None:
        # no `EdgeCounts::new(in, out)`: the counts may be filled through methods of EdgeCounts that bump one entry of a field
        fd = edgecounts_method_protocol(ctx)
        if fd:
            field_degree.update(fd["degree"])
            ctx.check(fd["ok"], rule, "degree-vectors|EdgeCounts-methods", fd["where"],
                      "EdgeCounts starts zeroed and its fields are bumped once per edge visit: %s" % fd["desc"],
                      "EdgeCounts fields are not one in-degree and one out-degree vector: %s" % fd["desc"])
        else:
            ctx.unverifiable(rule, "edgecounts-new", "-", "no production call of EdgeCounts::new found")
    copy_sites = []
    for (b, bb, t) in new_sites:
        bsig = fb.fns.get(b.id) or {}
        if bsig.get("impl_self") == "edge_counts::EdgeCounts" and bsig.get("impl_trait") in ("std::clone::Clone", "std::default::Default"):
            # a hand-written Clone / Default going through the constructor: checked below (field i from field i / empty vectors)
            copy_sites.append((b, bb, t, bsig.get("impl_trait")))
            continue
        argkind = []
        for ai, a in enumerate(t["args"]):
            srcs = fl.sources_operand(b, a)
            ks = set()
            for s in srcs:
                if s.kind == "alloc" and (s[1], s[2]) in kinds:
                    ks.add(kinds[(s[1], s[2])])
                else:
                    ks.add("?:" + fmt_src(s))
            argkind.append(ks)
        # map constructor params to fields
        for fi, fname in enumerate(ec_fields):
            psrc = fl.sources_local(newb, 0, (fi,))
            params = set()
            for s in psrc:
                if s.kind == "param" and s[1] == newb.id:
                    params.add(s[2])
                elif s.kind == "alloc" and (s[1], s[2]) in kinds:
                    pass
            for p in params:
                ks = argkind[p - 1] if p - 1 < len(argkind) else {"?"}
                if len(ks) == 1:
                    field_degree[fi] = list(ks)[0]
                else:
                    field_degree[fi] = "?"
        where = m.where(b, bb)
        ok = all(len(k) == 1 and list(k)[0] in ("in", "out") for k in argkind) and \
            sorted(list(k)[0] for k in argkind) == ["in", "out"]
        ctx.check(ok, rule, "degree-vectors|%s" % short(b.id), where,
                  "EdgeCounts::new receives one in-degree vector (incremented at each child of every node) and one "
                  "out-degree vector (incremented at each parent of every node), each += 1 per edge visit",
                  "EdgeCounts::new arguments are not one in-degree and one out-degree vector: %s" % (
                      [sorted(k) for k in argkind],))
    # (2) getters -> field -> degree
    getter_degree = {}
    for f in fb.fns.values():
        if f.get("impl_self") == "edge_counts::EdgeCounts" and not f.get("impl_trait") and f["name"] != "new":
            gb = fb.bodies.get(f["id"])
            if gb is None:
                continue
            srcs = fl.sources_local(gb, 0, ())
            fields = set()
            for s in srcs:
                if s.kind == "param" and s[1] == gb.id and s[2] == 1 and len(s[3]) >= 1:
                    fields.add(s[3][0])
            if len(fields) == 1:
                getter_degree[f["id"]] = field_degree.get(list(fields)[0], "?")
            elif fields:
                getter_degree[f["id"]] = "?"
    for (b, bb, t, tr) in copy_sites:
        okc = True
        whyc = []
        for ai, a in enumerate(t["args"]):
            # constructor parameter ai+1 -> field
            tgt = [fi for fi in range(len(ec_fields)) if any(s_.kind == "param" and s_[1] == newb.id and s_[2] == ai + 1 for s_ in fl.sources_local(newb, 0, (fi,)))]
            ex = expr_operand(b, a)
            if tr == "std::default::Default":
                srcs = fl.sources_operand(b, a)
                empt = bool(srcs) and all(s_.kind == "alloc" and s_[4].split("::")[-1] in ("new", "default") for s_ in srcs)
                if not empt:
                    okc = False
                    whyc.append("Default passes a non-empty value for parameter %d" % (ai + 1))
                continue
            src_fields = set()
            for c in walk_expr(ex):
                if c.kind == "call" and c[1].startswith("edge_counts::EdgeCounts::") and c[1] != newb.id and c[2] and strip_refs(c[2][0]) == E(("arg", 1)):
                    gb_ = fb.bodies.get(c[1])
                    if gb_ is not None:
                        for s_ in fl.sources_local(gb_, 0, ()):
                            if s_.kind == "param" and s_[1] == gb_.id and s_[2] == 1 and len(s_[3]) >= 1:
                                src_fields.add(s_[3][0])
                elif c.kind == "field" and strip_refs(c[1]) == E(("arg", 1)) and isinstance(c[2], int):
                    src_fields.add(c[2])
            if len(tgt) != 1 or src_fields != set(tgt):
                okc = False
                whyc.append("parameter %d (field %s) is built from field(s) %s of the original" % (ai + 1, tgt, sorted(src_fields)))
        ctx.check(okc, rule, "degree-vectors|%s" % short(b.id), m.where(b, bb),
                  "%s of EdgeCounts goes through the constructor with each field built from the same field (or empty vectors)" % tr.split("::")[-1],
                  "%s of EdgeCounts mixes up the count vectors: %s" % (tr.split("::")[-1], "; ".join(whyc)))
    # (3) FWD / REV roles from build()
    roles = structure_roles(ctx)
    if roles is None:
        ctx.unverifiable(rule, "structure-roles", "-", "cannot determine which FnGraph field holds the forward / reversed structure from build()")
        return
    fwd_f, rev_f, graph_f, counts_f = roles["fwd"], roles["rev"], roles["graph"], roles["counts"]
    # (4) pairing in SETUP: every definition of the (structure, counts) pair
    ret_fields = None
    ret_adt = None
    for bb, si, s in setup.stmts():
        if s["k"] == "assign" and s["pl"]["l"] == 0 and s["rv"]["k"] == "agg" and s["rv"]["ak"] == "adt":
            ret_adt = s["rv"]["def"]
            ret_fields = s["rv"]["fields"]
    ca = counts_allocs(ctx)
    if not ca:
        ctx.unverifiable(rule, "counts-copy", m.where(setup), "no fresh copy (to_vec/clone) of an EdgeCounts getter found in the set-up function")
        return
    # which param of SETUP is which FnGraph field: from callers
    param_field = {}
    sig = fb.fns.get(setup.id)
    for pi in range(1, setup.arg_count + 1):
        srcs = fl.sources_local(setup, pi, ())
        fields = set()
        unknown = []
        for s in srcs:
            if s.kind == "param" and len(s[3]) >= 1 and isinstance(s[3][0], int) and s[2] == 1 and \
                    (fb.fns.get(s[1], {}).get("impl_self", "") or "").startswith("fn_graph::FnGraph<"):
                fields.add(s[3][0])
            elif s.kind == "param" and s[1] == setup.id:
                pass
            else:
                unknown.append(s)
        param_field[pi] = (fields, unknown)
    # the (structure, counts) pairs: aggregates of the set-up function that put a Dag reference next to a value
    # derived from an EdgeCounts getter (the getter's slice itself or a fresh copy of it)
    pair_obs = 0
    order_local = None

    def pairs_in(body_):
        out_ = []
        for bb, si, s in body_.stmts():
            if s["k"] == "assign" and s["rv"]["k"] == "agg" and s["rv"]["ak"] in ("tuple", "adt"):
                ops = s["rv"]["ops"]
                dag_ops = [o for o in ops if "daggy::Dag" in (o.get("pl", {}).get("ty") or "")]
                for o in ops:
                    if o in dag_ops or o["k"] == "const":
                        continue
                    gs = [c for c in walk_expr(expr_operand(body_, o)) if c.kind == "call" and c[1].startswith("edge_counts::EdgeCounts::") and
                          not any("StreamOrder" in i_["s"] for i_ in (fb.fns.get(c[1]) or {}).get("inputs", []))]     # (an order-keyed selector is not a getter)
                    if gs and dag_ops and len({g_[1] for g_ in gs}) == 1:       # (a value that may come from either getter was selected earlier)
                        out_.append((bb, dag_ops[0], gs[0][1]))
        return out_
    pairs = pairs_in(setup)
    if not pairs:
        # the pairing may live in a private helper of the set-up function (`stream_order_select`)
        for hb in setup_group(ctx)[1:]:
            hp = pairs_in(hb)
            if hp:
                pairs = hp
                setup = hb
                param_field = {}
                for pi in range(1, setup.arg_count + 1):
                    srcs = fl.sources_local(setup, pi, ())
                    fields = set()
                    unknown = []
                    for s in srcs:
                        if s.kind == "param" and len(s[3]) >= 1 and isinstance(s[3][0], int) and s[2] == 1 and \
                                (fb.fns.get(s[1], {}).get("impl_self", "") or "").startswith("fn_graph::FnGraph<"):
                            fields.add(s[3][0])
                        elif s.kind == "param" and s[1] in (setup.id, m.SETUP):
                            pass
                        else:
                            unknown.append(s)
                    param_field[pi] = (fields, unknown)
                break
    if not pairs:
        # the structure and the counts may be selected separately, each by a `match` on the order in a helper of its own
        # (`order.graph_structure(fwd, rev)` / `order.predecessor_counts(counts)`): pair them arm by arm
        sel_struct = sel_counts = None
        for hb in setup_group(ctx)[1:]:
            by_arm = {}
            kind = None
            defs0 = list(get_defs(hb).of(0))
            if len(defs0) == 1 and defs0[0][0] == "stmt" and arm_order(ctx, hb, defs0[0][1]) is None and defs0[0][3]["rv"]["k"] in ("use", "ref", "copy_for_deref"):
                # `let r = match order { .. }; r` (possibly re-borrowed at the join): the arms assign a temporary
                rv0 = defs0[0][3]["rv"]
                pl0 = rv0["pl"] if rv0["k"] != "use" else (rv0["op"].get("pl") if rv0["op"]["k"] != "const" else None)
                if pl0 is not None and all(pr == "*" for pr in pl0["p"]):
                    defs0 = list(get_defs(hb).of(pl0["l"]))
            if len(defs0) == 1 and defs0[0][0] == "call" and arm_order(ctx, hb, defs0[0][1]) is None and callee_path(defs0[0][3]) in COPY_FNS and \
                    defs0[0][3]["args"] and defs0[0][3]["args"][0]["k"] != "const" and all(pr == "*" for pr in defs0[0][3]["args"][0]["pl"]["p"]):
                # `let counts = match order { .. }; counts.to_vec()`: the arms select a slice, the copy is made once at the join
                l0_ = defs0[0][3]["args"][0]["pl"]["l"]
                for _hop in range(3):
                    d0_ = get_defs(hb).unique_full(l0_)
                    if d0_ and d0_[0] == "stmt" and d0_[3]["rv"]["k"] in ("use", "ref", "copy_for_deref"):
                        rv0_ = d0_[3]["rv"]
                        pl0_ = rv0_["pl"] if rv0_["k"] != "use" else (rv0_["op"].get("pl") if rv0_["op"]["k"] != "const" else None)
                        if pl0_ is not None and all(pr == "*" for pr in pl0_["p"]):
                            l0_ = pl0_["l"]
                            continue
                    break
                if len(get_defs(hb).of(l0_)) >= 2:
                    defs0 = list(get_defs(hb).of(l0_))
            for kind_, dbb, si_, x_ in defs0:
                o_ = arm_order(ctx, hb, dbb)
                if o_ is None:
                    by_arm = None
                    break
                if kind_ == "call" and (callee_path(x_) or "").startswith("edge_counts::EdgeCounts::"):
                    by_arm[o_] = ("getter", callee_path(x_))
                    kind = "counts"
                elif kind_ == "call" and callee_path(x_) in COPY_FNS and x_["args"] and \
                        strip_refs(expr_operand(hb, x_["args"][0])).kind == "field" and \
                        "EdgeCounts" in hb.locals[1]["s"] and strip_refs(strip_refs(expr_operand(hb, x_["args"][0]))[1]) == E(("arg", 1)):
                    # `self.incoming.clone()` inside a method of EdgeCounts: the field itself, freshly copied
                    by_arm[o_] = ("field", strip_refs(expr_operand(hb, x_["args"][0]))[2])
                    kind = "counts"
                elif kind_ == "stmt" and x_["rv"]["k"] in ("use", "ref", "copy_for_deref"):
                    ex_ = strip_refs(expr_rvalue(hb, x_["rv"], 0, (dbb, si_)))
                    if ex_.kind == "arg":
                        by_arm[o_] = ("param", ex_[1])
                        kind = kind or "struct"
                    elif ex_.kind == "call" and ex_[1].startswith("edge_counts::EdgeCounts::"):
                        by_arm[o_] = ("getter", ex_[1])
                        kind = "counts"
                    else:
                        by_arm = None
                        break
                else:
                    by_arm = None
                    break
            if not by_arm or set(by_arm) != {"Forward", "Reverse"}:
                continue
            csites = [(cb_, cbb_, ct_) for (cb_, cbb_, ct_) in fl.call_sites().get(hb.id, []) if cb_.id == setup.id]
            if len(csites) == 2 and kind == "struct" and all(v[0] == "param" for v in by_arm.values()):
                # one generic positional selector (`order.select(forward, reverse)`) called once with the two structures and once
                # with the two counts: pair the call sites arm by arm
                for (cb_, cbb_, ct_) in csites:
                    pf_ = by_arm["Forward"][1]
                    a0 = ct_["args"][pf_ - 1] if pf_ - 1 < len(ct_["args"]) else None
                    if a0 is None:
                        continue
                    if "daggy::Dag" in ((a0.get("pl") or {}).get("ty") or ""):
                        sel_struct = (hb, by_arm, (cb_, cbb_, ct_))
                    else:
                        arms2 = {}
                        for o_, (_, pi_) in by_arm.items():
                            ex_ = strip_refs(expr_operand(cb_, ct_["args"][pi_ - 1])) if pi_ - 1 < len(ct_["args"]) else None
                            g_ = [c for c in walk_expr(ex_) if c.kind == "call" and c[1].startswith("edge_counts::EdgeCounts::")] if ex_ is not None else []
                            if g_:
                                arms2[o_] = ("getter", g_[0][1])
                        if set(arms2) == {"Forward", "Reverse"}:
                            sel_counts = (hb, arms2, (cb_, cbb_, ct_))
                continue
            if len(csites) != 1:
                continue
            if kind == "counts" and all(v[0] in ("getter", "field") for v in by_arm.values()):
                sel_counts = (hb, by_arm, csites[0])
            elif kind == "struct" and all(v[0] == "param" for v in by_arm.values()):
                sel_struct = (hb, by_arm, csites[0])
        if not sel_counts:
            # the counts may be selected by a `match` / `if` on the order in the set-up function itself
            # (`let counts = if reverse { edge_counts.outgoing().to_vec() } else { edge_counts.incoming().to_vec() }`)
            for l_ in range(1, len(setup.locals)):
                if "Vec<usize>" not in setup.locals[l_]["s"] or setup.locals[l_]["s"].startswith("&"):
                    continue
                arms_ = {}
                for kind_, dbb, si_, x_ in get_defs(setup).of(l_):
                    o_ = arm_order(ctx, setup, dbb)
                    if o_ is None or kind_ != "call" or callee_path(x_) not in COPY_FNS or not x_["args"]:
                        arms_ = None
                        break
                    g_ = [c for c in walk_expr(strip_refs(expr_operand(setup, x_["args"][0]))) if c.kind == "call" and c[1].startswith("edge_counts::EdgeCounts::")]
                    if len(g_) != 1 or o_ in arms_:
                        arms_ = None
                        break
                    arms_[o_] = ("getter", g_[0][1])
                if arms_ and set(arms_) == {"Forward", "Reverse"}:
                    sel_counts = (setup, arms_, None)
                    break
        if sel_counts and not sel_struct:
            # the structure may be selected by a `match` on the order in the set-up function itself
            for l_ in range(1, len(setup.locals)):
                if "daggy::Dag<()" not in setup.locals[l_]["s"]:
                    continue
                ds_ = list(get_defs(setup).of(l_))
                arms_ = {}
                for kind_, dbb, si_, x_ in ds_:
                    o_ = arm_order(ctx, setup, dbb)
                    if o_ is None or kind_ != "stmt" or x_["rv"]["k"] not in ("use", "ref", "copy_for_deref"):
                        arms_ = None
                        break
                    ex_ = strip_refs(expr_rvalue(setup, x_["rv"], 0, (dbb, si_)))
                    if ex_.kind != "arg":
                        arms_ = None
                        break
                    arms_[o_] = ("param", ex_[1])
                if arms_ and set(arms_) == {"Forward", "Reverse"}:
                    sel_struct = (setup, arms_, None)
                    break
        if sel_struct and sel_counts:
            # both selectors are keyed by the same order value
            def order_arg(sel):
                hb_, _, site_ = sel
                oi_ = [i for i in range(1, hb_.arg_count + 1) if "StreamOrder" in hb_.locals[i]["s"]]
                if site_ is None:
                    # selected in the set-up function itself: the order parameter of the set-up function
                    return fl.sources_local(hb_, oi_[0], ()) if oi_ else frozenset()
                cb_, cbb_, ct_ = site_
                return fl.sources_operand(cb_, ct_["args"][oi_[0] - 1]) if oi_ else frozenset()
            same_key = bool(order_arg(sel_struct)) and order_arg(sel_struct) == order_arg(sel_counts)
            ctx.check(same_key, rule, "pair-key", m.where(setup, sel_struct[2][1]) if sel_struct[2] else m.where(setup),
                      "the structure selector and the counts selector are given the same StreamOrder value",
                      "the structure and the counts are selected by different order values")
            for order in ("Forward", "Reverse"):
                pidx = sel_struct[1][order][1]
                if sel_struct[2] is None:
                    ssrcs = fl.sources_local(setup, pidx, ())
                else:
                    cb_, cbb_, ct_ = sel_struct[2]
                    ssrcs = fl.sources_operand(cb_, ct_["args"][pidx - 1]) if pidx - 1 < len(ct_["args"]) else frozenset()
                sfields = set()
                for s_ in ssrcs:
                    if s_.kind == "param" and s_[1] == setup.id:
                        sfields |= param_field.get(s_[2], (set(), []))[0]
                    elif s_.kind == "param" and len(s_[3]) >= 1 and isinstance(s_[3][0], int):
                        sfields.add(s_[3][0])
                getter = sel_counts[1][order][1]
                deg = getter_degree.get(getter, "?") if sel_counts[1][order][0] == "getter" else field_degree.get(getter, "?")
                getter = str(getter) if sel_counts[1][order][0] == "getter" else "EdgeCounts.%s" % (ec_fields[getter] if getter < len(ec_fields) else getter)
                want = "in" if sfields == {fwd_f} else ("out" if sfields == {rev_f} else None)
                sname = "forward structure" if sfields == {fwd_f} else ("reversed structure" if sfields == {rev_f} else "fields %s" % sorted(sfields))
                pair_obs += 1
                ctx.check(want is not None and deg == want, rule, "pair|%s" % getter, m.where(sel_counts[0]),
                          "%s is paired (arm StreamOrder::%s of both selectors) with the %s-degree counts (%s)" % (sname, order, deg, getter),
                          "mismatched pairing in arm StreamOrder::%s: structure %s with %s-degree counts (%s)" % (order, sname, deg, getter))
                want_s = {"Forward": fwd_f, "Reverse": rev_f}[order]
                ctx.check(sfields == {want_s}, rule, "order|%s" % order, m.where(sel_struct[0]),
                          "StreamOrder::%s selects the %s" % (order, sname), "StreamOrder::%s selects %s" % (order, sname))
            pairs = [None]
    if not pairs:
        ctx.unverifiable(rule, "pair", m.where(setup), "no aggregate pairing a structure with an EdgeCounts getter found in the set-up function")
    pairs = [p_ for p_ in pairs if p_ is not None]
    for (pbb_, sop_, getter) in sorted(pairs, key=lambda x: (x[0], x[2])):
        cbb = pbb_
        where = m.where(setup, cbb)
        paired = (pbb_, sop_)
        pbb, sop = paired
        ssrcs = fl.sources_operand(setup, sop)
        sfields = set()
        for s in ssrcs:
            if s.kind == "param" and s[1] == setup.id:
                sfields |= param_field.get(s[2], (set(), []))[0]
            elif s.kind == "param" and len(s[3]) >= 1 and isinstance(s[3][0], int):
                sfields.add(s[3][0])
        deg = getter_degree.get(getter, "?")
        # which stream order selects this arm
        order = arm_order(ctx, setup, cbb)
        pair_obs += 1
        want = None
        if sfields == {fwd_f}:
            want = "in"
            sname = "forward structure"
        elif sfields == {rev_f}:
            want = "out"
            sname = "reversed structure"
        else:
            sname = "fields %s" % sorted(sfields)
        ok = want is not None and deg == want
        ctx.check(ok, rule, "pair|%s" % getter, where,
                  "%s is paired with a fresh copy of the %s-degree counts (%s)" % (sname, deg, getter),
                  "mismatched pairing: structure %s walked with %s-degree counts (%s); forward needs in-degree, reverse needs out-degree"
                  % (sname, deg, getter))
        if order is not None:
            want_s = {"Forward": fwd_f, "Reverse": rev_f}.get(order)
            ctx.check(sfields == {want_s}, rule, "order|%s" % order, where,
                      "StreamOrder::%s selects the %s" % (order, sname),
                      "StreamOrder::%s selects %s" % (order, sname))
        else:
            ctx.unverifiable(rule, "order|%s" % getter, where, "cannot relate this pairing to a StreamOrder variant")
    # (5) every caller passes (self.FWD, self.REV, self.edge_counts) in the positions SETUP expects
    for pi, (fields, unknown) in sorted(param_field.items()):
        pty = setup.locals[pi]["s"]
        if "daggy::Dag" in pty or "EdgeCounts" in pty:
            ok = len(fields) == 1 and not unknown
            ctx.check(ok, rule, "setup-param|%d" % pi, m.where(setup),
                      "every caller passes the same FnGraph field (#%s %s) for parameter %d of the set-up function" % (
                          sorted(fields), [m.fngraph_fields()[f] for f in sorted(fields) if f < len(m.fngraph_fields())], pi),
                      "callers disagree on / obscure what is passed for parameter %d of the set-up function: fields %s, other %s" % (
                          pi, sorted(fields), [fmt_src(u) for u in unknown]))
    # (5b) what the set-up function hands on as THE structure is the selected one: it derives from both structure fields (which
    # one depends on the order), not from one of them whatever was selected
    paired = setup_paired_structure(ctx)
    if paired is not None:
        got = set()
        for s_ in paired:
            if s_.kind == "param" and s_[1] == setup.id:
                got |= param_field.get(s_[2], (set(), []))[0]
            elif s_.kind == "param" and len(s_[3]) >= 1 and isinstance(s_[3][0], int):
                got.add(s_[3][0])
        ctx.check({fwd_f, rev_f} <= got, rule, "selected-structure", m.where(setup),
                  "the structure the set-up function returns with the counts is the one selected by the order (either structure field can reach it)",
                  "the set-up function always returns the same structure field (%s) whatever the order selected: the counts of the other "
                  "direction are walked over it" % sorted(got))
    # (6) StreamOpts::rev / default
    S1_opts(ctx, rule)
    ctx.floor(rule, 8, "pairing-chain obligations")


def arm_order(ctx, setup, bb):
    """Which StreamOrder variant's match arm contains block bb."""
    adt = ctx.fb.adts.get("stream_order::StreamOrder")
    if not adt:
        return None
    names = [v["name"] for v in adt["variants"]]
    for sb, vals in guards_of(setup, bb):
        de = switch_expr(setup, sb)
        if de.kind == "discr":
            base = strip_refs(de[1])
            # is the scrutinee of type StreamOrder?
            t = setup.blocks[sb]["term"]
            dl = t["discr"]["pl"]["l"]
            d = get_defs(setup).unique_full(dl)
            if d and d[0] == "stmt" and d[3]["rv"]["k"] == "discr" and "StreamOrder" in d[3]["rv"]["pl"]["ty"]:
                vs = [v for v in vals if v != "otherwise"]
                if len(vs) == 1 and len(vals) == 1:
                    return names[int(vs[0])]
                if vals == frozenset(["otherwise"]):
                    # complement of listed values
                    listed = {v for v, _ in t["targets"]}
                    rest = [n for i, n in enumerate(names) if str(i) not in listed]
                    if len(rest) == 1:
                        return rest[0]
        # `if order == StreamOrder::Reverse { .. } else { .. }` (possibly through a `let reverse = ..` flag)
        neg = False
        while de.kind == "unop" and de[1] == "Not":
            neg = not neg
            de = strip_refs(de[2])
        if de.kind == "call" and de[1] in ("std::cmp::PartialEq::eq", "std::cmp::PartialEq::ne") and len(de[2]) == 2 and len(names) == 2:
            ops = [strip_refs(x) for x in de[2]]
            lit = [x for x in ops if x.kind == "agg" and x[2] == "stream_order::StreamOrder" and not x[4]]
            oth = [x for x in ops if not (x.kind == "agg" and x[2] == "stream_order::StreamOrder")]
            if len(lit) == 1 and len(oth) == 1 and lit[0][3] in names:
                if de[1].endswith("::ne"):
                    neg = not neg
                holds = None
                if vals == frozenset(["otherwise"]):
                    holds = True
                elif vals == frozenset(["0"]):
                    holds = False
                if holds is not None:
                    if neg:
                        holds = not holds
                    return lit[0][3] if holds else [n for n in names if n != lit[0][3]][0]
    return None


def structure_roles(ctx):
    """From build(): which FnGraph fields are the forward / reversed structure
    (by the endpoint order of the add_edge that fills them), which is the
    user graph and which the edge counts."""
    fb, fl = ctx.fb, ctx.model.flow
    m = ctx.model
    cached = getattr(m, "_structure_roles", None)
    if cached is not None:
        return cached or None
    fields = m.fngraph_fields()
    build = None
    agg = None
    outer_build = None
    for b in fb.prod_bodies():
        if b.kind != "fn" or "Default" in b.id or "Clone" in b.id:
            continue
        for bb, si, s in b.stmts():
            if s["k"] == "assign" and s["rv"]["k"] == "agg" and s["rv"].get("def") == "fn_graph::FnGraph" and \
                    "FnGraphBuilder" in b.id and (fb.fns.get(b.id) or {}).get("public"):
                build, agg = b, s
    if build is None:
        # the FnGraph value may be assembled by a crate-private constructor that build() calls (`FnGraph::from_parts(..)`)
        bb_ids = [x.id for x in fb.prod_bodies() if x.kind == "fn" and "FnGraphBuilder" in x.id and x.id.endswith("::build")]
        for b in fb.prod_bodies():
            if b.kind != "fn" or "Default" in b.id or "Clone" in b.id or (fb.fns.get(b.id) or {}).get("public"):
                continue
            if not any(b.id in m.reach(x) for x in bb_ids):
                continue
            for bb, si, s in b.stmts():
                if s["k"] == "assign" and s["rv"]["k"] == "agg" and s["rv"].get("def") == "fn_graph::FnGraph":
                    build, agg = b, s
                    outer_build = fb.bodies.get(bb_ids[0]) if bb_ids else None
    if build is None:
        m._structure_roles = False
        return None
    # orientation of add_edge calls per destination local
    orient = {}
    for bid in sorted(set(m.reach(build.id)) | (set(m.reach(outer_build.id)) if outer_build is not None else set())):
        b = fb.bodies[bid]
        for bb, t in b.calls():
            p = callee_path(t)
            if p in ("daggy::Dag::<N, E, Ix>::add_edge", "daggy::Dag::<N, E, Ix>::update_edge"):
                a = strip_refs(expr_operand(b, t["args"][1]))
                c = strip_refs(expr_operand(b, t["args"][2]))
                def endpoint(e):
                    if e.kind == "call" and e[1].endswith("Edge::<E, Ix>::source"):
                        return "source"
                    if e.kind == "call" and e[1].endswith("Edge::<E, Ix>::target"):
                        return "target"
                    return None
                ea, ec = endpoint(a), endpoint(c)
                if ea is None or ec is None:
                    # endpoints bound to locals first (`let (source, target) = (edge.source(), edge.target());`), possibly captured
                    def endpoint_flow(op_):
                        ss_ = fl.sources_operand(b, op_)
                        for nm_ in ("source", "target"):
                            if ss_ and all(x.kind == "alloc" and x[4].endswith("Edge::<E, Ix>::" + nm_) for x in ss_):
                                return nm_
                        return None
                    ea = ea or endpoint_flow(t["args"][1])
                    ec = ec or endpoint_flow(t["args"][2])
                if ea is None or ec is None:
                    # `structures.add_edge(from, to, w)` method of a private holder: the endpoints are its parameters, what they
                    # are is decided at its call sites (`structures.add_edge(edge.source(), edge.target(), edge.weight)`)
                    H_ = fb.bodies.get(b.root)
                    if H_ is None or H_.kind != "fn" or (fb.fns.get(H_.id) or {}).get("public"):
                        continue
                    sa_ = fl.sources_operand(b, t["args"][1], (), "prov@" + H_.id)
                    sc_ = fl.sources_operand(b, t["args"][2], (), "prov@" + H_.id)
                    if len(sa_) != 1 or len(sc_) != 1:
                        continue
                    pa_, pc_ = list(sa_)[0], list(sc_)[0]
                    if not (pa_.kind == "param" and pc_.kind == "param" and pa_[1] == H_.id and pc_[1] == H_.id and pa_[2] != pc_[2]):
                        continue
                    os2 = set()
                    for (cb_, cbb_, ct_) in fl.call_sites().get(H_.id, []):
                        if fb.is_test_body(cb_) or max(pa_[2], pc_[2]) - 1 >= len(ct_["args"]):
                            continue
                        ea2 = endpoint(strip_refs(expr_operand(cb_, ct_["args"][pa_[2] - 1])))
                        ec2 = endpoint(strip_refs(expr_operand(cb_, ct_["args"][pc_[2] - 1])))
                        os2.add("fwd" if (ea2, ec2) == ("source", "target") else ("rev" if (ea2, ec2) == ("target", "source") else "?"))
                    for s in fl.sources_operand(b, t["args"][0]):
                        for o2 in os2:
                            orient.setdefault(s, set()).add(o2)
                    continue
                o = "fwd" if (ea, ec) == ("source", "target") else ("rev" if (ea, ec) == ("target", "source") else "?")
                for s in fl.sources_operand(b, t["args"][0]):
                    orient.setdefault(s, set()).add(o)
    # structures built by a private helper from an edge iterator: orientation = what each call site's iterator yields
    helper_orient = {}
    breach = m.reach(build.id)
    for bid in breach:
        b = fb.bodies[bid]
        H = fb.bodies.get(b.root)
        if H is None or H.id == build.id or H.kind != "fn":
            continue
        for bb, t in b.calls():
            if callee_path(t) not in ("daggy::Dag::<N, E, Ix>::add_edge", "daggy::Dag::<N, E, Ix>::update_edge"):
                continue
            if "daggy::Dag<()" not in (t["args"][0].get("pl") or {}).get("ty", ""):
                continue
            sa = fl.sources_operand(b, t["args"][1], (), "prov@" + H.id)
            sc = fl.sources_operand(b, t["args"][2], (), "prov@" + H.id)
            if len(sa) != 1 or len(sc) != 1:
                continue
            pa, pc = list(sa)[0], list(sc)[0]
            if not (pa.kind == "param" and pc.kind == "param" and pa[1] == H.id and pc[1] == H.id and pa[2] == pc[2]):
                continue
            for (cb, cbb, ct) in fl.call_sites().get(H.id, []):
                if cb.id not in breach or pa[2] - 1 >= len(ct["args"]):
                    continue
                def ends(path_):
                    ss = fl.sources_operand(cb, ct["args"][pa[2] - 1], tuple(path_))
                    if ss and all(x.kind == "alloc" and x[4].endswith("Edge::<E, Ix>::source") for x in ss):
                        return "source"
                    if ss and all(x.kind == "alloc" and x[4].endswith("Edge::<E, Ix>::target") for x in ss):
                        return "target"
                    return None
                ea, ec = ends(pa[3]), ends(pc[3])
                o = "fwd" if (ea, ec) == ("source", "target") else ("rev" if (ea, ec) == ("target", "source") else "?")
                helper_orient.setdefault((cb.id, cbb), set()).add(o)
    roles = {"fwd": None, "rev": None, "graph": None, "counts": None, "ranks": None, "build": outer_build or build, "ctor": build, "orient": orient}
    for fi, op in enumerate(agg["rv"]["ops"]):
        srcs = fl.sources_operand(build, op)
        os_ = set()
        for s in srcs:
            os_ |= orient.get(s, set())
        if not os_ and op["k"] != "const" and not op["pl"]["p"]:
            l_ = op["pl"]["l"]
            for _hop in range(5):
                d = get_defs(build).unique_full(l_)
                if d and d[0] == "call":
                    os_ = set(helper_orient.get((build.id, d[1]), set()))
                    break
                if d and d[0] == "stmt" and d[3]["rv"]["k"] == "use" and d[3]["rv"]["op"]["k"] in ("move", "copy") and not d[3]["rv"]["op"]["pl"]["p"]:
                    l_ = d[3]["rv"]["op"]["pl"]["l"]
                    continue
                break
        ty = (op.get("pl") or {}).get("ty", "")
        if os_ == {"fwd"}:
            roles["fwd"] = fi
        elif os_ == {"rev"}:
            roles["rev"] = fi
        elif "daggy::Dag<F" in ty:
            roles["graph"] = fi
        elif "EdgeCounts" in ty:
            roles["counts"] = fi
        elif "Rank" in ty:
            roles["ranks"] = fi
    if roles["fwd"] is None or roles["rev"] is None:
        m._structure_roles = False
        return None
    m._structure_roles = roles
    return roles


def opts_frame(ctx, rule="B1", fields=("StreamOrder",)):
    """Frame rule for the options builder: a method of StreamOpts that takes
    `self` and returns StreamOpts leaves every field it does not set as the
    caller had it: each selected field of the result comes from the same field
    of `self`, from another argument, or from a constant written in that
    method -- never from another function's value (`..Self::default()`)."""
    fb, fl = ctx.fb, ctx.model.flow
    adt = fb.adts.get("stream_opts::StreamOpts")
    if not adt:
        ctx.unverifiable(rule, "opts", "-", "StreamOpts not found")
        return
    flds = adt["variants"][0]["fields"]
    sel = [i for i, f in enumerate(flds) if any(x in f["ty"]["s"] for x in fields)]
    n = 0
    for b in fb.prod_bodies():
        sig = fb.fns.get(b.id)
        if not sig or not (sig.get("impl_self", "") or "").startswith("stream_opts::StreamOpts"):
            continue
        if not sig["output"]["s"].startswith("stream_opts::StreamOpts") or not sig["inputs"]:
            continue
        if not sig["inputs"][0]["s"].startswith("stream_opts::StreamOpts"):
            continue
        for i in sel:
            n += 1
            bad = []
            for s_ in fl.sources_local(b, 0, (i,)):
                if s_.kind == "param" and s_[1] == b.id and ((s_[2] == 1 and tuple(s_[3][:1]) == (i,)) or s_[2] != 1):
                    continue
                if s_.kind == "agg" and s_[1] == b.id:
                    continue
                if s_.kind == "const" and s_[3] == b.id:
                    continue
                bad.append(fmt_src(s_))
            ctx.check(not bad, rule, "frame|%s|%s" % (sig["name"], flds[i]["name"]), ctx.model.where(b),
                      "StreamOpts::%s keeps or sets `%s` from its own arguments/constants: options chosen by earlier builder calls survive" % (sig["name"], flds[i]["name"]),
                      "StreamOpts::%s replaces `%s` by a value from elsewhere (%s): an option chosen by an earlier builder call is silently reset" % (
                          sig["name"], flds[i]["name"], bad[:3]))
    # a builder method that takes a value of a selected field's type stores THAT argument in the field (a setter whose
    # assignment is gone type-checks and returns the options unchanged)
    for b in fb.prod_bodies():
        sig = fb.fns.get(b.id)
        if not sig or not (sig.get("impl_self", "") or "").startswith("stream_opts::StreamOpts") or not sig.get("public"):
            continue
        if not sig["output"]["s"].startswith("stream_opts::StreamOpts") or len(sig["inputs"]) < 2 or \
                not sig["inputs"][0]["s"].startswith("stream_opts::StreamOpts"):
            continue
        for ai, inp in enumerate(sig["inputs"][1:], start=2):
            tgt = [i for i in sel if flds[i]["ty"]["s"].split("<")[0] == inp["s"].split("<")[0]]
            if len(tgt) != 1:
                continue
            i = tgt[0]
            srcs_ = fl.sources_local(b, 0, (i,))
            stored = any(s_.kind == "param" and s_[1] == b.id and s_[2] == ai for s_ in srcs_)
            ctx.check(stored, rule, "setter|%s|%s" % (sig["name"], flds[i]["name"]), ctx.model.where(b),
                      "StreamOpts::%s stores its argument in `%s`" % (sig["name"], flds[i]["name"]),
                      "StreamOpts::%s takes a value for `%s` but the returned options do not contain it: the caller's choice is silently dropped" % (
                          sig["name"], flds[i]["name"]))
    if n < len(sel) or not sel:
        ctx.unverifiable(rule, "floor", "-", "no StreamOpts builder method with the selected fields %s found" % (fields,))


def order_wiring(ctx, rule="B2"):
    """The stream order chosen by the caller reaches the scheduler set-up: for
    every public entry point taking `opts: StreamOpts`, `opts.stream_order`
    of that very parameter is among the value sources of the set-up function's
    StreamOrder parameter (a wrapper passing `StreamOpts::default()` instead of
    its own `opts` silently runs forward)."""
    fb, m, fl = ctx.fb, ctx.model, ctx.model.flow
    setup = fb.bodies.get(m.SETUP) if m.SETUP else None
    if setup is None:
        ctx.unverifiable(rule, "setup", "-", "scheduler set-up function not found")
        return
    pis = [i for i in range(1, setup.arg_count + 1) if "StreamOrder" in setup.locals[i]["s"]]
    so = fb.adts.get("stream_opts::StreamOpts")
    if not pis or not so:
        ctx.unverifiable(rule, "order-param", m.where(setup), "the set-up function takes no StreamOrder")
        return
    f_order = [i for i, f in enumerate(so["variants"][0]["fields"]) if "StreamOrder" in f["ty"]["s"]][0]
    srcs = fl.sources_local(setup, pis[0], ())
    n = 0
    for e in m.entries:
        oi = None
        for i, x in enumerate(e["inputs"]):
            if x["s"].startswith("stream_opts::StreamOpts<"):
                oi = i + 1
        if oi is None:
            continue
        n += 1
        has = any(s.kind == "param" and s[1] == e["id"] and s[2] == oi and tuple(s[3][:1]) == (f_order,) for s in srcs)
        ctx.check(has, rule, "order|%s" % e["name"], "%s:%d (FnGraph::%s)" % (e["sp"]["file"], e["sp"]["line"], e["name"]),
                  "opts.stream_order of this entry point reaches the scheduler set-up",
                  "opts.stream_order of this entry point never reaches the scheduler set-up (its options are dropped on the way): reverse order is ignored")
    if n < 4:
        ctx.unverifiable(rule, "floor", "-", "expected entry points taking StreamOpts, found %d" % n)
    # entry points without options run forward: every StreamOrder CONSTANT that can reach the set-up is Forward
    for s_ in srcs:
        if s_.kind == "agg" and s_[4] == "stream_order::StreamOrder":
            sb_ = fb.bodies[s_[1]]
            st_ = sb_.blocks[s_[2]]["stmts"][s_[3]]
            var = st_["rv"].get("variant")
            ctx.check(var == "Forward", rule, "const-order|%s" % short(sb_.id), m.where(sb_, s_[2]),
                      "the fixed order %s passes on is StreamOrder::Forward" % short(sb_.id),
                      "%s runs the graph with the fixed order StreamOrder::%s although the caller chose none: dependents start before "
                      "what they depend on" % (short(sb_.id), var))


def S1_opts(ctx, rule):
    """StreamOpts::rev stores Reverse; default stores Forward."""
    fb = ctx.fb
    adt = fb.adts.get("stream_order::StreamOrder")
    names = [v["name"] for v in adt["variants"]] if adt else []
    so_fields = ctx.model.adt_fields("stream_opts::StreamOpts")
    try:
        order_idx = [i for i, f in enumerate(fb.adts["stream_opts::StreamOpts"]["variants"][0]["fields"])
                     if "StreamOrder" in f["ty"]["s"]][0]
    except (KeyError, IndexError):
        ctx.unverifiable(rule, "opts-field", "-", "StreamOpts has no StreamOrder field")
        return
    fl = ctx.model.flow
    n_ctor = 0
    n_rev = 0
    for b in fb.prod_bodies():
        sig = fb.fns.get(b.id)
        if not sig or not (sig.get("impl_self", "") or "").startswith("stream_opts::StreamOpts"):
            continue
        if not sig["output"]["s"].startswith("stream_opts::StreamOpts"):
            continue
        # the StreamOrder constants that can end up in the order field of the returned value (through helpers / other constructors)
        vals = set()
        other = []
        for s_ in fl.sources_local(b, 0, (order_idx,)):
            if s_.kind == "agg" and s_[4] == "stream_order::StreamOrder":
                st = fb.bodies[s_[1]].blocks[s_[2]]["stmts"][s_[3]]
                vals.add(st["rv"].get("variant"))
            elif s_.kind == "param":
                continue
            else:
                other.append(fmt_src(s_))
        name = sig["name"]
        where = ctx.model.where(b)
        takes_self = bool(sig["inputs"]) and sig["inputs"][0]["s"].startswith("stream_opts::StreamOpts")
        if not takes_self:
            n_ctor += 1
            ctx.check(vals == {"Forward"} and not other, rule, "opts-default" if (sig.get("impl_trait") == "std::default::Default" or name == "default") else "opts-ctor|%s" % name, where,
                      "StreamOpts::%s() selects StreamOrder::Forward" % name, "StreamOpts::%s() stores %s %s" % (name, sorted(map(str, vals)), other[:2]))
        elif vals or other:
            # a builder method that sets the order: must be Reverse (rev)
            n_rev += 1 if vals == {"Reverse"} else 0
            ctx.check(vals == {"Reverse"} and not other, rule, "opts-setter|%s" % name, where,
                      "StreamOpts::%s() stores StreamOrder::Reverse" % name,
                      "StreamOpts::%s() stores %s %s" % (name, sorted(map(str, vals)), other[:2]))
    if n_ctor < 1:
        ctx.unverifiable(rule, "opts-default", "-", "no StreamOpts constructor found")
    ctx.check(n_rev >= 1, rule, "opts-setter-exists", "-", "a builder method of StreamOpts stores StreamOrder::Reverse",
              "no builder method of StreamOpts stores StreamOrder::Reverse: reverse order can be requested but never takes effect")


# ---------------------------------------------------------------------------
# S2 / S3: ready-sends and count writes

def release_closure_facts(ctx, body):
    """For a closure body containing a READY send: the decrement stores on
    COUNTS, and the guards."""
    return stores_through_index(body)


def classify_sent_value(ctx, body, op):
    srcs = ctx.model.flow.sources_operand(body, op)
    kinds = set()
    for s in srcs:
        if is_child_item(ctx, s):
            kinds.add("child")
        elif s.kind == "alloc" and s[4] in ALL_NODE_SOURCES and "$item" in s[3]:
            kinds.add("all-nodes")
        elif s.kind == "alloc" and s[4] == "std::ops::Range" and "$item" in s[3]:
            kinds.add("all-nodes")
        else:
            kinds.add("other:" + fmt_src(s))
    return kinds, srcs


def same_value(ctx, body, e1, e2):
    """Two expressions denote the same id: same local, or same sources and
    both single-def copies."""
    a, b = strip_refs(e1), strip_refs(e2)
    if a == b:
        return True
    sa = sources_of_expr(ctx, body, a)
    sb = sources_of_expr(ctx, body, b)
    return bool(sa) and sa == sb and all(s.kind == "alloc" and "$item" in s[3] for s in sa) and len(sa) == 1


def S2(ctx, rule="S2"):
    m, fb, fl = ctx.model, ctx.fb, ctx.model.flow
    sites = [s for s in m.send_sites() if "READY" in s["roles"]]
    n_pre = n_rel = 0
    for s in sites:
        b, bb, t = s["body"], s["bb"], s["t"]
        where = m.where(b, bb)
        key = short(b.id)
        if s["roles"] != {"READY"} or s["other"]:
            ctx.unverifiable(rule, "mixed|%s" % key, where, "send on a sender of mixed provenance %s %s" % (
                sorted(s["roles"]), [fmt_src(x) for x in s["other"]]))
            continue
        kinds, vsrcs = classify_sent_value(ctx, b, t["args"][1])
        if kinds == {"child"}:
            n_rel += 1
            ctx.cover(rule + ".release", b.id)
            # the send may sit in a private method of a sender-holding type (`gate.try_queue(child)`): it is unguarded there
            # and sends its own parameter, so the guard and the decrement are looked for at each call of the method
            lifted = None
            if b.kind == "fn" and not (fb.fns.get(b.id) or {}).get("public") and not b.back_edges() and \
                    not [1 for _sb, x_, _rel in guard_eq_zero(b, bb) if not isinstance(x_, str) and elem_read(x_) is not None]:
                vs_ = fl.sources_operand(b, t["args"][1], (), "prov@" + b.id)
                pidx = {x[2] for x in vs_ if x.kind == "param" and x[1] == b.id and not x[3]}
                csites = [(cb_, cbb_, ct_) for (cb_, cbb_, ct_) in fl.call_sites().get(b.id, []) if not fb.is_test_body(cb_)]
                if len(pidx) == 1 and len(vs_) == 1 and csites and all(list(pidx)[0] - 1 < len(ct_["args"]) for _, _, ct_ in csites):
                    pi_ = list(pidx)[0]
                    lifted = [(cb_, cbb_, {"args": [ct_["args"][0], ct_["args"][pi_ - 1]], "dest": ct_["dest"]}) for cb_, cbb_, ct_ in csites]
            if lifted:
                for cb_, cbb_, t2_ in lifted:
                    ctx.cover(rule + ".release", cb_.id)
                    check_release_send(ctx, rule, cb_, cbb_, t2_, m.where(cb_, cbb_), short(cb_.id))
            else:
                check_release_send(ctx, rule, b, bb, t, where, key)
        elif kinds == {"all-nodes"}:
            n_pre += 1
            ctx.cover(rule + ".preload", b.id)
            check_preload_send(ctx, rule, b, bb, t, where, key)
        else:
            ctx.bad(rule, "unknown-ready-send|%s" % key, where,
                    "a send on the READY channel is neither the preload of all zero-count functions nor the release of a "
                    "successor whose count reached 0: value comes from %s" % sorted(kinds))
    ctx.counts[rule + ".preload"] = n_pre
    ctx.counts[rule + ".release"] = n_rel
    ctx.entry_floor(rule, rule + ".preload", ('stream', 'fold', 'for_each', 'try_fold', 'try_for_each'), "preload of the READY channel")
    ctx.entry_floor(rule, rule + ".release", ('stream', 'fold', 'for_each', 'try_fold', 'try_for_each'), "release send on the READY channel")


def check_release_send(ctx, rule, b, bb, t, where, key):
    m, fl = ctx.model, ctx.model.flow
    child = strip_refs(expr_operand(b, t["args"][1]))
    guards = guard_eq_zero(b, bb)
    hit = None
    problems = []
    for sb, x, rel in guards:
        er = elem_read(x) if not isinstance(x, str) and x.kind != "binop" else elem_read(x)
        if er is None:
            continue
        cont, idx = er
        keys, other = count_role(ctx, sources_of_expr(ctx, b, cont))
        if not keys or other:
            continue
        if rel != "eq0":
            problems.append("guard on the predecessor count is `%s`, not `== 0`" % rel)
            continue
        idv = node_index_arg(idx)
        if idv is None or not same_value(ctx, b, idv, child):
            problems.append("the tested count is not the count of the function being sent")
            continue
        hit = (sb, cont, idx)
    if hit is None:
        ctx.bad(rule, "release-guard|%s" % key, where,
                "release send is not control dependent on `COUNTS[child] == 0`%s" % (
                    ": " + "; ".join(problems) if problems else " (no such guard dominates it)"),
                detail={"guards": [(sb, fmt_expr(x, b) if not isinstance(x, str) else x, rel) for sb, x, rel in guards]})
        return
    sb = hit[0]
    # the decrement of the same element dominates the guard
    stores = stores_through_index(b)
    dec = []
    for st in stores:
        keys, other = count_role(ctx, fl.sources_operand(b, st["container"]))
        if not keys:
            continue
        dec.append(st)
    good = False
    for st in dec:
        v = st["value"]
        idv = node_index_arg(expr_operand(b, st["idx"]))
        if v.kind == "binop" and v[1] == "Sub" and is_const(v[3], 1) and idv is not None and same_value(ctx, b, idv, child) \
                and (b.dominates(st["bb"], sb)):
            good = True
    ctx.check(good, rule, "release|%s" % key, where,
              "release send of a successor is guarded by `COUNTS[child] == 0`, evaluated after the `-= 1` of the same entry in the same visit",
              "the `COUNTS[child] == 0` guard is not preceded (dominated) by the decrement of that same entry")


def iterator_chain(ctx, body, e, depth=0):
    """Flatten an iterator expression into its adaptor chain, inlining
    crate-local functions that return the iterator.  Returns list of
    (callee path, body, expr)."""
    out = []
    e = strip_refs(e)
    while True:
        if e.kind != "call":
            # try to resolve a local through its unique def already done by expr;
            out.append(("leaf:" + e.kind, body, e))
            return out
        p = e[1]
        if p in ctx.fb.bodies and depth < 4:
            cb = ctx.fb.bodies[p]
            # return expression of the callee
            re_ = return_expr(cb)
            if re_ is None:
                out.append(("opaque-local:" + p, body, e))
                return out
            out.append(("inline:" + p, body, e))
            body = cb
            e = strip_refs(re_)
            depth += 1
            continue
        out.append((p, body, e))
        from analysis import ADAPTORS
        if not e[2] or not (p in NEUTRAL_ITER or p in SELECTIVE_ITER or p in ADAPTORS or p in MORE_ITER):
            return out
        e = strip_refs(e[2][0])


def return_expr(body):
    """expression assigned to _0 when there is a single assignment."""
    ds = get_defs(body).of(0)
    if len(ds) != 1:
        return None
    kind, bb, si, x = ds[0]
    if kind == "stmt":
        from analysis import expr_rvalue
        return expr_rvalue(body, x["rv"], 0, (bb, si))
    if kind == "call":
        from analysis import expr_call
        return expr_call(body, bb, x)
    return None


NEUTRAL_ITER = {"daggy::Walker::iter", "std::iter::IntoIterator::into_iter", "std::iter::Iterator::by_ref",
                "std::slice::<impl [T]>::iter", "std::iter::Iterator::copied", "std::iter::Iterator::cloned"}
SELECTIVE_ITER = {"std::iter::Iterator::take", "std::iter::Iterator::skip", "std::iter::Iterator::step_by",
                  "std::iter::Iterator::take_while", "std::iter::Iterator::skip_while", "std::iter::Iterator::filter_map",
                  "std::iter::Iterator::filter", "std::iter::Iterator::map_while", "std::iter::Iterator::nth",
                  "std::iter::Iterator::last", "std::iter::Iterator::find", "std::iter::Iterator::chain"}


MORE_ITER = {"std::iter::Iterator::rev", "std::iter::Iterator::enumerate", "std::iter::Iterator::zip",
             "std::iter::Iterator::peekable", "std::iter::Iterator::fuse"}


def closure_of_arg(ctx, body, e):
    """closure body for an expression that is a closure aggregate"""
    e = strip_refs(e)
    if e.kind == "agg" and e[1] in ("closure", "coroutine_closure"):
        return ctx.fb.bodies.get(e[2])
    if e.kind == "fnconst":
        # a named function passed where a closure is expected
        r = (e[2] or {}).get("resolved") if isinstance(e[2], dict) else None
        if isinstance(r, dict) and r.get("path") in ctx.fb.bodies:
            return ctx.fb.bodies[r["path"]]
        return ctx.fb.bodies.get(e[1])
    if e.kind in ("local", "arg"):
        ty = body.locals[e[1]]
        if ty.get("k") == "closure":
            return ctx.fb.bodies.get(ty.get("def"))
    return None


def check_preload_send(ctx, rule, b, bb, t, where, key):
    """the preload iterates all nodes of the walked structure filtered only by COUNTS[id] == 0"""
    m, fl = ctx.model, ctx.model.flow
    lr = loop_region(ctx, b, bb)
    if lr is not None and lr["driver"] == "sync":
        if lr["early_exits"]:
            ctx.bad(rule, "preload-early-exit|%s" % key, where, "the preload loop can be left before all zero-count functions were queued")
            return
        pb = b
        chain = iterator_chain(ctx, b, lr["iter_expr"])
    else:
        uses = fl.closure_uses(b)
        if len(uses) != 1:
            ctx.unverifiable(rule, "preload-consumer|%s" % key, where, "preload send is not inside a closure passed to exactly one iterator consumer nor in a loop over an iterator")
            return
        pb, ubb, ut, ai = uses[0]
        cons = callee_path(ut)
        if cons not in ("std::iter::Iterator::try_for_each", "std::iter::Iterator::for_each"):
            ctx.unverifiable(rule, "preload-consumer|%s" % key, where, "unknown preload consumer %s" % cons)
            return
        chain = iterator_chain(ctx, pb, expr_operand(pb, ut["args"][0]))
    filters = []
    src = None
    bad = []
    skip_leaf = False
    for p, cb, e in chain:
        if p.startswith("inline:") or p in NEUTRAL_ITER:
            continue
        if skip_leaf and p.startswith("leaf:"):
            continue
        if p == "std::iter::from_fn" and e[2]:
            # `from_fn(move || topo.next(g))`: every node, in topological order
            fcl0 = closure_of_arg(ctx, cb, e[2][0])
            re0 = return_expr(fcl0) if fcl0 is not None else None
            if re0 is not None and strip_refs(re0).kind == "call" and strip_refs(re0)[1] == "daggy::petgraph::visit::Topo::<N, VM>::next" and not fcl0.back_edges() \
                    and not any(blk["term"]["k"] == "switch" for blk in fcl0.blocks):
                src = (p, cb, e)
                skip_leaf = True
                continue
        if p == "std::iter::Iterator::filter":
            filters.append((cb, e))
        elif p in ALL_NODE_SOURCES:
            src = (p, cb, e)
        elif p in SELECTIVE_ITER or p.startswith("leaf:") or p.startswith("opaque"):
            bad.append(p)
        else:
            bad.append(p)
    if src is None or bad:
        ctx.bad(rule, "preload-source|%s" % key, where,
                "preload does not range over all nodes of the walked structure through neutral adaptors: chain=%s" % (
                    [p for p, _, _ in chain],))
        return
    ok_filter = False
    why = "no filter on the predecessor count"
    if len(filters) == 1:
        cb, e = filters[0]
        fcl = closure_of_arg(ctx, cb, e[2][1])
        if fcl is not None:
            re_ = return_expr(fcl)
            if re_ is not None:
                r = strip_refs(re_)
                if r.kind == "binop" and r[1] == "Eq" and (is_const(r[3], 0) or is_const(r[2], 0)):
                    x = r[2] if is_const(r[3], 0) else r[3]
                    er = elem_read(x)
                    if er:
                        keys, other = count_role(ctx, sources_of_expr(ctx, fcl, er[0]))
                        idv = node_index_arg(er[1])
                        item_ok = idv is not None and strip_refs(idv).kind in ("arg", "deref", "local")
                        if keys and not other and item_ok:
                            ok_filter = True
                        else:
                            why = "filter does not test COUNTS[id] of the iterated id"
                    else:
                        why = "filter is not `COUNTS[id] == 0`"
                else:
                    why = "filter predicate is `%s`, not `COUNTS[id] == 0`" % fmt_expr(r, fcl)
    elif len(filters) > 1:
        why = "more than one filter between the node source and the preload"
    else:
        # no filter adaptor: an `if COUNTS[id] == 0` around the send in the loop / closure body
        sent = strip_refs(expr_operand(b, t["args"][1]))
        hits = []
        for sb, x, rel in guard_eq_zero(b, bb):
            er = elem_read(x) if not isinstance(x, str) else None
            if er is None:
                continue
            keys, other = count_role(ctx, sources_of_expr(ctx, b, er[0]))
            idv = node_index_arg(er[1])
            if keys and not other and rel == "eq0" and idv is not None and same_value(ctx, b, idv, sent):
                hits.append(sb)
            elif keys:
                why = "the guard on the predecessor count is `%s` / not of the id being sent" % rel
        others = [sb for sb, de, vals in cond_guards(b, bb) if sb not in hits and not (lr is not None and lr.get("switch_bb") == sb)]
        if hits and not others:
            ok_filter = True
        elif hits:
            why = "the preload send has further guards besides `COUNTS[id] == 0`"
    ctx.check(ok_filter, rule, "preload|%s" % key, where,
              "preload sends exactly the ids with COUNTS[id] == 0 out of all nodes (%s) of the walked structure" % "::".join(src[0].split("::")[-2:]),
              "preload is not `all nodes filtered by COUNTS[id] == 0`: %s" % why)
    # same structure as the counts' structure: the node source ranges over SETUP's chosen structure
    ssrc = sources_of_expr(ctx, src[1], src[2][2][0]) if src[2][2] else frozenset()
    return


SYNC_DRIVERS = ("std::iter::Iterator::next", "daggy::Walker::walk_next", "daggy::petgraph::visit::Topo::<N, VM>::next")


def _resolve_iter_local(body, e):
    """follow `iter = into_iter(x)` / `let mut it = expr` single assignments"""
    for _ in range(4):
        e = strip_refs(e)
        if e.kind == "local":
            ds = [d for d in get_defs(body).of(e[1])]
            if len(ds) == 1 and ds[0][0] == "stmt" and ds[0][3]["rv"]["k"] == "use":
                e = expr_operand(body, ds[0][3]["rv"]["op"])
                continue
            if len(ds) == 1 and ds[0][0] == "call":
                from analysis import expr_call
                e = expr_call(body, ds[0][1], ds[0][3])
                continue
        if e.kind == "call" and e[1] == "std::iter::IntoIterator::into_iter":
            e = e[2][0]
            continue
        break
    return strip_refs(e)


def _moved_from(body, local, target, depth=0):
    """local is target, or a chain of whole-value moves/copies of it"""
    if local == target:
        return True
    if depth > 4:
        return False
    d = get_defs(body).unique_full(local)
    if d and d[0] == "stmt" and d[3]["rv"]["k"] == "use" and d[3]["rv"]["op"]["k"] in ("move", "copy") and not d[3]["rv"]["op"]["pl"]["p"]:
        return _moved_from(body, d[3]["rv"]["op"]["pl"]["l"], target, depth + 1)
    return False


POP_DRIVERS = ("std::collections::VecDeque::<T, A>::pop_front", "std::collections::VecDeque::<T, A>::pop_back", "std::vec::Vec::<T, A>::pop",
               "std::collections::BinaryHeap::<T, A>::pop")


def loop_region(ctx, body, bb, skip_headers=(), extra_drivers=()):
    """If bb lies in a loop driven by an iterator-like source -- `for x in it`,
    `while let Some(x) = it.next() / walker.walk_next(g) / topo.next(g)`, or
    `while let Some(x) = stream.next().await / rx.recv().await` -- returns
    {"blocks", "iter_expr", "early_exits", "header", "driver", "graph_arg"}."""
    from analysis import NEXT_ITEM_FUTURE
    best = None
    by_hdr = {}
    for (src, hdr) in body.back_edges():
        by_hdr.setdefault(hdr, set()).update(body.natural_loop(src, hdr))     # `continue` adds back edges to the same header
    for hdr, loop in sorted(by_hdr.items()):
        if bb not in loop or hdr in skip_headers:
            continue
        cand = None
        for x in sorted(loop):
            t = body.blocks[x]["term"]
            if t["k"] != "call":
                continue
            p = callee_path(t)
            if (p in SYNC_DRIVERS or p in extra_drivers) and body.dominates(x, bb):
                # the loop's own driver is the one nearest to its header (an inner loop's driver is dominated by it)
                if cand is None or body.dominates(x, cand[1]):
                    cand = ("sync", x, t, t["dest"]["l"])
        if cand is None:
            for a in awaits(body):
                if a.into_bb in loop and a.ready_bb is not None and body.dominates(a.ready_bb, bb) and a.operand["k"] != "const":
                    d = get_defs(body).unique_full(a.operand["pl"]["l"])
                    if d and d[0] == "call" and callee_path(d[3]) in NEXT_ITEM_FUTURE:
                        cand = ("await", d[1], d[3], a.result_local)
        if cand is None:
            continue
        if best is not None and len(loop) >= len(best["blocks"]) + (1 if best.get("none_arm") is not None else 0):
            continue
        kind, cbb, t, res_local = cand
        it = _resolve_iter_local(body, expr_operand(body, t["args"][0]))
        # the arm on which the source is exhausted: switch on discriminant(result) value 0
        none_arm = None
        sw_bb = None
        for x in sorted(loop):
            tt = body.blocks[x]["term"]
            if tt["k"] == "switch" and tt["discr"]["k"] != "const":
                d = get_defs(body).unique_full(tt["discr"]["pl"]["l"])
                if d and d[0] == "stmt" and d[3]["rv"]["k"] == "discr" and not d[3]["rv"]["pl"]["p"] and \
                        _moved_from(body, d[3]["rv"]["pl"]["l"], res_local):
                    for v, tb in tt["targets"]:
                        if v == "0":
                            none_arm = tb
                    if none_arm is None and [v for v, _ in tt["targets"]] == ["1"]:
                        none_arm = tt["otherwise"]
                    sw_bb = x
        early = []
        for x in loop:
            for s_ in body.succs(x):
                if s_ in loop:
                    continue
                if x == none_arm or s_ == none_arm:
                    continue
                if body.blocks[s_]["term"]["k"] == "unreachable":
                    continue
                early.append((x, s_))
        blocks = set(loop)
        blocks.discard(none_arm)
        graph_arg = t["args"][1] if kind == "sync" and len(t["args"]) > 1 else None
        best = {"blocks": blocks, "next_bb": cbb, "iter_expr": it, "early_exits": early, "header": hdr, "driver": kind,
                "none_arm": none_arm, "graph_arg": graph_arg, "switch_bb": sw_bb}
    return best


def data_dependent_guards(ctx, body, bb):
    """guards of block bb (other than its loop driver and await plumbing) whose value derives from the edge counts, the per-run
    counts or a graph walk: conditions under which a per-function step would be skipped for some functions only"""
    m, fl = ctx.model, ctx.model.flow
    roles = structure_roles(ctx) or {}
    out = []
    lr = loop_region(ctx, body, bb)
    for sb, de, vals in cond_guards(body, bb):
        if lr is not None and sb == lr.get("switch_bb"):
            continue
        if (body.blocks[sb]["term"].get("sp") or {}).get("desugar") == "Await":
            continue
        ex = strip_refs(de)
        inner = strip_refs(ex[1]) if ex.kind == "discr" else ex
        narrowing = [c[1].split("::")[-1] for c in walk_expr(inner) if c.kind == "call" and "option::Option" in c[1] and
                     c[1].split("::")[-1] in ("filter", "take_if", "xor", "zip", "and_then", "and")]
        srcs = set()
        syn = []
        for c in walk_expr(inner):
            if c.kind in ("call", "local", "arg", "field", "downcast", "deref", "index", "elem") or upvar_index(c) is not None:
                srcs |= set(x for x in sources_of_expr(ctx, body, c, mode="taint") if x.kind != "unknown")
            if c.kind == "call" and (c[1].startswith("edge_counts::EdgeCounts::") or c[1] in (CHILDREN, PARENTS)):
                syn.append(c[1].split("::")[-1])
        for c in walk_expr(inner):
            # the predicate of a narrowing adaptor decides too
            if c.kind == "call" and "option::Option" in c[1] and c[1].split("::")[-1] in ("filter", "take_if") and len(c[2]) > 1:
                fcl = closure_of_arg(ctx, body, c[2][1])
                if fcl is not None:
                    srcs = set(srcs) | set(fl.sources_local(fcl, 0, (), "taint"))
        dep = list(syn)
        for s_ in srcs:
            if s_.kind == "param" and len(s_[3]) >= 1 and s_[3][0] == roles.get("counts") and \
                    (ctx.fb.fns.get(s_[1], {}).get("impl_self", "") or "").startswith("fn_graph::FnGraph<"):
                dep.append("edge counts")
            elif s_.kind == "alloc" and (s_[4].startswith("edge_counts::EdgeCounts::") or s_[4] in (CHILDREN, PARENTS)):
                dep.append(s_[4].split("::")[-1])
            elif s_.kind == "alloc" and count_role(ctx, [s_])[0]:
                dep.append("per-run counts")
        if dep and (narrowing or ex.kind != "discr" or True):
            out.append("%s (depends on %s)" % (fmt_expr(ex, body)[:80], sorted(set(dep))[:2]))
    return out


def S3(ctx, rule="S3"):
    """Sole count writes: only `-= 1`, once per child visit, in the walk over
    children(done id) of the paired structure, no early exit."""
    m, fb, fl = ctx.model, ctx.fb, ctx.model.flow
    ca = counts_allocs(ctx)
    n = 0
    for b in fb.prod_bodies():
        sts = []
        for st in stores_through_index(b):
            keys, other = count_role(ctx, fl.sources_operand(b, st["container"]))
            if keys:
                sts.append(st)
        if not sts:
            continue
        key = short(b.id)
        where = m.where(b, sts[0]["bb"], sts[0]["si"])
        n += 1
        ctx.cover(rule, b.id)
        # (a) each store is `x - 1` of the same element
        for st in sts:
            v = st["value"]
            okv = v.kind == "binop" and v[1] == "Sub" and is_const(v[3], 1)
            if okv and v[2].kind != "deref":
                er = elem_read(v[2])
                okv = er is not None and strip_refs(er[1]) == strip_refs(expr_operand(b, st["idx"]))
            ctx.check(okv, rule, "dec-by-one|%s" % key, m.where(b, st["bb"], st["si"]),
                      "write to COUNTS is `COUNTS[child] -= 1`", "write to COUNTS is `%s`" % fmt_expr(v, b))
        # (b) exactly one store per visited successor
        lr = loop_region(ctx, b, sts[0]["bb"])
        if lr is not None:
            inner = [(x, h) for (x, h) in b.back_edges() if x in lr["blocks"] and h in lr["blocks"] and h != lr["header"]]
            ctx.check(len(sts) == 1 and not inner, rule, "once-per-visit|%s" % key, where,
                      "exactly one decrement per visited successor (single store in the `for` body, no inner loop)",
                      "%d decrement stores / inner loop in the per-successor `for` body" % len(sts))
        else:
            ctx.check(len(sts) == 1 and not b.back_edges(), rule, "once-per-visit|%s" % key, where,
                      "exactly one decrement per visited successor (single store, loop-free closure body)",
                      "%d decrement stores / loop in the per-successor body" % len(sts))
        # (c) the index is the visited child and the closure is the body of a
        #     non-short-circuiting walk over children(done id) of the structure
        st = sts[0]
        idv = node_index_arg(expr_operand(b, st["idx"]))
        isrcs = sources_of_expr(ctx, b, idv) if idv is not None else frozenset()
        child_ok = bool(isrcs) and all(is_child_item(ctx, s) for s in isrcs)
        ctx.check(child_ok, rule, "index-is-child|%s" % key, where,
                  "the decremented entry is that of the successor produced by `children(done_id)`",
                  "decremented index does not come from the children walk: %s" % [fmt_src(s) for s in isrcs])
        uses = fl.closure_uses(b)
        walk_ok = False
        why = "closure not passed to an iterator consumer"
        chain = None
        if lr is not None:
            if lr["early_exits"]:
                why = "the `for` loop over the successors can be left early (%s)" % [b.loc(x) for x, _ in lr["early_exits"]]
            else:
                pb = b
                chain = iterator_chain(ctx, b, lr["iter_expr"])
        elif len(uses) == 1:
            pb, ubb, ut, ai = uses[0]
            cons = callee_path(ut)
            if cons != "std::iter::Iterator::for_each":
                why = "walk uses %s (may stop early), not for_each" % cons
            else:
                chain = iterator_chain(ctx, pb, expr_operand(pb, ut["args"][0]))
        if chain is not None:
            if True:
                names = [p for p, _, _ in chain if not p.startswith("inline:")]
                sel = [p for p in names if p in SELECTIVE_ITER or p.startswith("leaf") or p.startswith("opaque")]
                ch = [(p, cb, e) for p, cb, e in chain if p == CHILDREN or
                      (p in (NEIGHBORS, NEIGHBORS_DIRECTED) and len(e) > 3 and walk_direction(ctx, cb.id, e[3]) == "children")]
                if sel:
                    why = "walk is narrowed by %s" % sel
                elif not ch:
                    why = "walk is not over children(..)"
                else:
                    p, cb, e = ch[0]
                    gsrc = sources_of_expr(ctx, cb, e[2][0])
                    idsrc = sources_of_expr(ctx, cb, e[2][1])
                    id_ok = m.is_done_item(idsrc)
                    # structure provenance: SETUP's structure (first Dag-typed field of its result)
                    st_ok = structure_from_setup(ctx, gsrc)
                    if st_ok:
                        paired = setup_paired_structure(ctx)
                        if paired is not None and set(gsrc) != set(paired):
                            st_ok = False
                    # Walker::iter second argument = same graph
                    it = [(p2, cb2, e2) for p2, cb2, e2 in chain if p2 == "daggy::Walker::iter"]
                    same_g = True
                    if it:
                        g2 = sources_of_expr(ctx, it[0][1], it[0][2][2][1])
                        same_g = g2 == gsrc
                    elif lr is not None and lr.get("graph_arg") is not None:
                        same_g = fl.sources_operand(b, lr["graph_arg"]) == gsrc
                    if not id_ok:
                        why = "children() is not taken of the id received from the DONE channel: %s" % [fmt_src(s) for s in idsrc]
                    elif not st_ok:
                        why = "children() is not taken on the structure chosen by the set-up function: %s" % [fmt_src(s) for s in gsrc]
                    elif not same_g:
                        why = "children walker is stepped over a different graph than it was created from"
                    else:
                        walk_ok = True
        ctx.check(walk_ok, rule, "walk|%s" % key, where,
                  "decrements happen in a `for_each` over `children(done_id)` of the structure paired with the counts, triggered by an id received from DONE",
                  why)
        if walk_ok and chain is not None:
            # ... for EVERY id received: no condition on the counts / the graph decides whether a completion is walked at all
            wsite = (pb, ubb) if lr is None else (b, lr["next_bb"])
            dg = data_dependent_guards(ctx, wsite[0], wsite[1]) if wsite[1] is not None else []
            ctx.check(not dg, rule, "walk-always|%s" % key, m.where(wsite[0], wsite[1]),
                      "the successor walk runs for every id received from DONE",
                      "the successor walk is skipped for some completed functions: guarded by %s" % dg[:2])
    ctx.counts[rule + ".release_loops"] = n
    ctx.entry_floor(rule, rule, ('stream', 'fold', 'for_each', 'try_fold', 'try_for_each'), "release loop decrementing COUNTS")
    # wherever the per-run counts are handed on together with a structure, it is the structure the set-up paired them with
    paired = setup_paired_structure(ctx)
    pf = {x[3][0] for x in (paired or ()) if x.kind == "param" and x[3]}
    for b in fb.prod_bodies():
        for bb, t in b.calls():
            p = callee_path(t)
            if p not in fb.bodies:
                continue
            cnt = [a for a in t["args"] if a["k"] != "const" and "usize" in a["pl"]["ty"] and
                   count_role(ctx, fl.sources_operand(b, a))[0] and not count_role(ctx, fl.sources_operand(b, a))[1]]
            dags = [a for a in t["args"] if a["k"] != "const" and "daggy::Dag<()" in a["pl"]["ty"]]
            if not cnt or not dags or paired is None:
                continue
            for a in dags:
                gs = fl.sources_operand(b, a)
                gf = {x[3][0] for x in gs if x.kind == "param" and x[3]}
                ctx.check(structure_from_setup(ctx, gs) and gf == pf, rule, "pair-passed|%s|%s" % (short(b.id), short(p)), m.where(b, bb),
                          "the counts are handed to %s together with the structure the set-up paired them with" % short(p),
                          "the per-run counts are handed to %s together with a different structure (FnGraph fields %s, the set-up pairs the counts with fields %s): "
                          "in one order the release walk follows the wrong edges" % (short(p), sorted(gf), sorted(pf)))
    # no other mutation of COUNTS: no call receives &mut COUNTS except index_mut
    for b in fb.prod_bodies():
        for bb, t in b.calls():
            p = callee_path(t)
            if p in ("std::ops::IndexMut::index_mut", "std::ops::Index::index", "std::ops::Deref::deref",
                     "std::ops::DerefMut::deref_mut") or p is None:
                continue
            if p in fb.bodies:
                continue
            for a in t["args"]:
                if a["k"] == "const":
                    continue
                ty = a["pl"]["ty"]
                if ty.startswith("&mut std::vec::Vec<usize>") or ty.startswith("&mut [usize]"):
                    keys, other = count_role(ctx, fl.sources_operand(b, a))
                    if keys:
                        ctx.bad(rule, "other-mutation|%s|%s" % (short(b.id), p), m.where(b, bb),
                                "COUNTS is passed mutably to %s" % p)


def setup_paired_structure(ctx):
    """value sources of the structure the set-up function returns together with the per-run counts"""
    m, fb, fl = ctx.model, ctx.fb, ctx.model.flow
    cached = getattr(m, "_paired_structure", False)
    if cached is not False:
        return cached
    res = None
    setup = fb.bodies.get(m.SETUP) if m.SETUP else None
    if setup is not None:
        for bb, si, s in setup.stmts():
            if s["k"] == "assign" and s["pl"]["l"] == 0 and s["rv"]["k"] == "agg" and s["rv"]["ak"] in ("adt", "tuple"):
                for i, o in enumerate(s["rv"]["ops"]):
                    if "daggy::Dag<()" in (o.get("pl", {}).get("ty") or ""):
                        res = fl.sources_local(setup, 0, (i,))
                        break
    m._paired_structure = res
    return res


def structure_from_setup(ctx, srcs):
    """value sources all denote a graph structure handed in by the FnGraph
    (forward or reversed structure field)"""
    roles = structure_roles(ctx)
    if not roles or not srcs:
        return False
    fb = ctx.fb
    for s in srcs:
        if s.kind == "param" and len(s[3]) >= 1 and s[3][0] in (roles["fwd"], roles["rev"]) and s[2] == 1 and \
                (fb.fns.get(s[1], {}).get("impl_self", "") or "").startswith("fn_graph::FnGraph<"):
            continue
        return False
    return True


# ---------------------------------------------------------------------------
# S4 / S5: done only after completion; id consistency

def effective_sites(ctx, body, bb, depth=0):
    """Lift a site inside a crate-local helper (async fn or fn) to its call
    sites in bodies that contain a user-callback call, at most 3 levels."""
    m, fl = ctx.model, ctx.model.flow
    if m.param_calls(body) or depth >= 3:
        return [(body, bb, depth)]
    # async fn coroutine -> the async fn itself
    fnid = body.id
    if body.kind == "coroutine" and body.parent and body.coroutine_kind and "Fn" in body.coroutine_kind:
        fnid = body.parent
    sites = fl.call_sites().get(fnid, [])
    sites = [(cb, cbb, t) for (cb, cbb, t) in sites if not ctx.fb.is_test_body(cb)]
    if not sites:
        return [(body, bb, depth)]
    out = []
    for cb, cbb, t in sites:
        out.extend(effective_sites(ctx, cb, cbb, depth + 1))
    return out


def user_awaits(ctx, body):
    """awaits whose awaited future is the result of a user-callback call"""
    fl = ctx.model.flow
    out = []
    for a in awaits(body):
        srcs = fl.sources_operand(body, a.operand)
        if any(s.kind == "usercall" for s in srcs):
            out.append(a)
    return out


def fnref_drop_frame(ctx, b):
    """None, or (drop body, [blocks of drop calling b]) when b is `<FnRef as Drop>::drop` itself (no blocks) or a crate-local
    function called only from it with drop's own `self` as first argument (`self.done_notify()`)."""
    fb, fl = ctx.fb, ctx.model.flow
    sig = fb.fns.get(b.id, {})
    if sig.get("impl_trait") == "std::ops::Drop" and (sig.get("impl_self") or "").startswith("fn_ref::FnRef"):
        return b, []
    if b.kind != "fn" or not (sig.get("impl_self") or "").startswith("fn_ref::FnRef"):
        return None
    sites = [(cb, cbb, ct) for (cb, cbb, ct) in fl.call_sites().get(b.id, []) if not fb.is_test_body(cb)]
    if not sites:
        return None
    drop_b = None
    bbs = []
    for cb, cbb, ct in sites:
        csig = fb.fns.get(cb.id, {})
        if not (csig.get("impl_trait") == "std::ops::Drop" and (csig.get("impl_self") or "").startswith("fn_ref::FnRef")):
            return None
        srcs = fl.sources_operand(cb, ct["args"][0]) if ct["args"] else frozenset()
        if not srcs or not all(x.kind == "param" and x[2] == 1 and not x[3] for x in srcs):
            return None
        drop_b = cb
        bbs.append(cbb)
    return drop_b, bbs


def S4(ctx, rule="S4", liveness=False):
    m, fb, fl = ctx.model, ctx.fb, ctx.model.flow
    n_item = 0
    n_drop = 0
    for s in m.send_sites():
        b, bb, t = s["body"], s["bb"], s["t"]
        where = m.where(b, bb)
        # FnRef::drop
        sig = fb.fns.get(b.id, {})
        dfr = fnref_drop_frame(ctx, b)
        if dfr is not None:
            srcs = fl.sources_operand(b, t["args"][0])
            ok_tx = all(x.kind == "param" and x[2] == 1 and x[3][:1] == (m.fnref_tx_field,) for x in srcs) and srcs
            idsrc = fl.sources_operand(b, t["args"][1])
            id_idx = m.fnref_fields.index("fn_id") if "fn_id" in m.fnref_fields else None
            id_fields = {x[3][:1] for x in idsrc if x.kind == "param"}
            # the id field: the NodeIndex-typed field of FnRef
            fnref = fb.adts["fn_ref::FnRef"]["variants"][0]["fields"]
            idf = [i for i, f in enumerate(fnref) if "NodeIndex" in f["ty"]["s"]]
            ok_id = bool(idsrc) and all(x.kind == "param" and x[3][:1] == (idf[0],) for x in idsrc) if idf else False
            n_drop += 1
            ctx.check(bool(ok_tx and ok_id), rule, "fnref-drop", where,
                      "FnRef::drop sends its own fn_id on its own done-sender",
                      "FnRef::drop sends %s on %s" % ([fmt_src(x) for x in idsrc], [fmt_src(x) for x in srcs]))
            drop_sends = [s2["bb"] for s2 in m.send_sites() if s2["body"].id == b.id]
            if liveness:
                always = b.all_paths_pass(0, drop_sends, b.exits())
                if dfr[1]:
                    always = always and dfr[0].all_paths_pass(0, dfr[1], dfr[0].exits())
                ctx.check(always, rule, "fnref-drop-always", where,
                          "every path through FnRef::drop reaches the done-send: no condition (panicking thread, flag, id) lets a reference go away unreported",
                          "some path through FnRef::drop returns without the done-send: a reference dropped on that path is never reported and its successors are never released")
            continue
        if "DONE" not in s["roles"]:
            continue
        if s["roles"] != {"DONE"} or s["other"]:
            ctx.unverifiable(rule, "mixed|%s" % short(b.id), where, "send on a sender of mixed provenance")
            continue
        for (eb, ebb, depth) in effective_sites(ctx, b, bb):
            n_item += 1
            ctx.cover(rule, eb.id)
            ewhere = m.where(eb, ebb)
            key = short(eb.id)
            uas = user_awaits(ctx, eb)
            if not uas:
                ctx.bad(rule, "done-without-completion|%s" % key, ewhere,
                        "a send on the DONE channel is reachable in a body that never awaits a user future (done is reported without running the function)")
                continue
            dom = [a for a in uas if a.ready_bb is not None and eb.dominates(a.ready_bb, ebb)]
            ctx.check(bool(dom), rule, "done-after-await|%s" % key, ewhere,
                      "the done-send is dominated by the Ready arm of the await of the user future (line %s)" % (
                          dom[0].line if dom else "?"),
                      "the done-send is NOT dominated by the Ready arm of the user future's await: the id is reported done before / without the function completing")
            dg = data_dependent_guards(ctx, eb, ebb)
            ctx.check(not dg, rule, "done-always|%s" % key, ewhere,
                      "whether a completed function reports done does not depend on the counts or the graph",
                      "the done-send is skipped for some completed functions: guarded by %s; their successors (in one of the two orders) are never released" % dg[:2])
            # every path from the user call to the exit awaits the future: the call result flows only into the await
    ctx.counts[rule + ".per_item"] = n_item
    ctx.counts[rule + ".fnref_drop"] = n_drop
    if n_drop < 1:
        ctx.unverifiable(rule, "floor-drop", "-", "FnRef::drop send not found")
    ctx.entry_floor(rule, rule, ('fold', 'for_each', 'try_fold', 'try_for_each'), "done-send site in a per-item body")


LOOKUP_FNS = ("std::ops::Index::index", "std::ops::IndexMut::index_mut", "daggy::Dag::<N, E, Ix>::node_weight",
              "daggy::Dag::<N, E, Ix>::node_weight_mut")


def S5(ctx, rule="S5"):
    """Id consistency in every per-item body and FnRef construction."""
    m, fb, fl = ctx.model, ctx.fb, ctx.model.flow
    roles = structure_roles(ctx)
    n = 0
    seen = set()
    for e in m.entries:
        for b in m.per_item_bodies(e["id"]):
            if b.id in seen:
                continue
            seen.add(b.id)
            # skip wrappers (control adapters): their callback argument is the parameter handed in
            key = short(b.id)
            for bb, t, pname in m.param_calls(b):
                where = m.where(b, bb)
                # function argument(s) handed to the callback: the tuple's elements
                tup = expr_operand(b, t["args"][1])
                fnargs = tup[4] if tup.kind == "agg" and tup[1] == "tuple" else (tup,)
                looked = []
                for a in fnargs:
                    for c in walk_expr(a):
                        if c.kind == "call" and c[1] in LOOKUP_FNS:
                            looked.append((c[2][0], c[2][1]))
                        elif c.kind == "index" and len(c) > 2:
                            looked.append((c[1], c[2]))      # `table[id.index()]` on a slice: a place projection, not a call
                if not looked:
                    # the lookup may sit in a private helper (`fn_mut_borrow(table, id)`): use its return expression with the
                    # arguments of this call substituted
                    for a in fnargs:
                        for c in walk_expr(a):
                            if c.kind == "call" and c[1] in fb.bodies and fb.bodies[c[1]].kind == "fn":
                                ie = inline_local_calls(ctx, c)
                                if ie is not c:
                                    for c2 in walk_expr(ie):
                                        if c2.kind == "call" and c2[1] in LOOKUP_FNS:
                                            looked.append((c2[2][0], c2[2][1]))
                                        elif c2.kind == "index":
                                            looked.append((c2[1], c2[2]))
                if not looked:
                    # wrapper closure forwarding its own parameter?
                    psrc = set()
                    for a in fnargs:
                        psrc |= set(sources_of_expr(ctx, b, a))
                    if psrc and all(s.kind in ("closure_param", "param") for s in psrc):
                        ctx.ok(rule, "forward|%s" % key, where, "adapter forwards the function it was given to the user callback unchanged")
                        n += 1
                        continue
                    ctx.bad(rule, "callback-arg|%s" % key, where,
                            "the function handed to the user callback does not come from a lookup by id: %s" % [fmt_src(s) for s in psrc])
                    continue
                n += 1
                ctx.cover(rule, b.id)
                cont, idx = looked[-1]       # innermost lookup
                idv = node_index_arg(idx) or strip_refs(idx)
                idsrc = sources_of_expr(ctx, b, idv)
                ctx.check(m.is_ready_item(idsrc), rule, "lookup-id|%s" % key, where,
                          "the function handed to the callback is looked up with the id dequeued from READY",
                          "lookup id is not (only) the id dequeued from READY: %s" % [fmt_src(s) for s in idsrc])
                csrc = sources_of_expr(ctx, b, cont)
                ok_c, why = lookup_container_ok(ctx, csrc, roles)
                ctx.check(ok_c, rule, "lookup-table|%s" % key, where,
                          "the lookup table is the graph's function storage (or the unfiltered, unreordered per-function lock table built from it)",
                          "lookup table: " + why)
            # the id sent on DONE from this body = the dequeued id
            for s in m.send_sites():
                pass
    # done-send id: through effective sites
    for s in m.send_sites():
        if s["roles"] != {"DONE"}:
            continue
        b, bb, t = s["body"], s["bb"], s["t"]
        idsrc = fl.sources_operand(b, t["args"][1])
        ctx.check(m.is_ready_item(idsrc), rule, "done-id|%s" % short(b.id), m.where(b, bb),
                  "the id sent on DONE is the id dequeued from READY (all callers)",
                  "id sent on DONE has other sources: %s" % [fmt_src(x) for x in idsrc])
        n += 1
    # FnRef construction (directly, or through a crate-local constructor whose arguments are checked at its call sites)
    for (b, bb, si, s) in m.fnref_sites:
        ops = s["rv"]["ops"]
        fields = s["rv"]["fields"]
        where = m.where(b, bb, si)
        idop = ops[fields.index("fn_id")] if "fn_id" in fields else None
        fnop = ops[fields.index("fn")] if "fn" in fields else None
        if idop is None or fnop is None:
            ctx.unverifiable(rule, "fnref-fields", where, "FnRef fields not recognised")
            continue
        sites = [(b, idop, fnop, where)]
        ide, fne = strip_refs(expr_operand(b, idop)), strip_refs(expr_operand(b, fnop))
        if b.kind == "fn" and ide.kind == "arg" and fne.kind == "arg":
            sites = []
            for (cb, cbb, t) in fl.call_sites().get(b.id, []):
                if fb.is_test_body(cb):
                    continue
                sites.append((cb, t["args"][ide[1] - 1], t["args"][fne[1] - 1], m.where(cb, cbb)))
        for (sb, idop_, fnop_, swhere) in sites:
            idsrc = fl.sources_operand(sb, idop_)
            ok = m.is_ready_item(idsrc)
            fe = expr_operand(sb, fnop_)
            lk = [c for c in walk_expr(fe) if c.kind == "call" and c[1] in LOOKUP_FNS]
            ok2 = False
            if lk:
                idv = node_index_arg(lk[-1][2][1]) or strip_refs(lk[-1][2][1])
                ok2 = m.is_ready_item(sources_of_expr(ctx, sb, idv))
                csrc = sources_of_expr(ctx, sb, lk[-1][2][0])
                ok3, why = lookup_container_ok(ctx, csrc, roles)
                ok2 = ok2 and ok3
            n += 1
            ctx.check(ok and ok2, rule, "fnref|%s" % short(sb.id), swhere,
                      "FnRef { fn_id, fn } is built from the id dequeued from READY and the function looked up with that id",
                      "FnRef is built from id sources %s / lookup %s" % ([fmt_src(x) for x in idsrc], fmt_expr(fe, sb)))
    # interrupt mapping
    if m.interruptible:
        S5_interrupt_map(ctx, rule)
    ctx.counts[rule] = n
    ctx.entry_floor(rule, rule, ('fold', 'for_each', 'try_fold', 'try_for_each'), "lookup of the function handed to the user callback")
    if not m.fnref_sites:
        ctx.unverifiable(rule, "floor-fnref", "-", "no FnRef construction found")


def lookup_container_ok(ctx, csrc, roles):
    fb = ctx.fb
    if not csrc:
        return False, "no sources"
    if not roles:
        return False, "the roles of FnGraph's fields could not be established (build() does not assemble them in a recognised way)"
    for s in csrc:
        if s.kind == "param" and s[2] == 1 and len(s[3]) >= 1 and roles and s[3][0] == roles["graph"] and \
                (fb.fns.get(s[1], {}).get("impl_self", "") or "").startswith("fn_graph::FnGraph<"):
            continue
        if s.kind == "alloc" and s[4] in ("std::vec::Vec::<T>::with_capacity", "std::vec::Vec::<T>::new"):
            # per-function lock table filled by `for f in graph.node_weights_mut() { table.push(RwLock::new(f)) }`
            ok, why = lock_table_push_ok(ctx, fb.bodies[s[1]], s[2], roles)
            if not ok:
                return False, why
            continue
        if s.kind == "alloc" and s[4] == "std::iter::Iterator::collect":
            # per-function lock table: check the chain collect(map(node_weights_mut(g), RwLock::new))
            b = fb.bodies[s[1]]
            ok, why = lock_table_chain_ok(ctx, b, s[2], roles)
            if not ok:
                return False, why
            continue
        return False, "unexpected source %s" % fmt_src(s)
    return True, ""


def lock_table_push_ok(ctx, body, alloc_bb, roles):
    """the table allocated at alloc_bb is filled only by one unconditional `push` per item of an unfiltered, unreordered
    `graph.node_weights_mut()` loop, the graph being the FnGraph's own function storage"""
    fl = ctx.model.flow
    pushes = []
    for bb, t in body.calls():
        p = callee_path(t) or ""
        if not t["args"] or t["args"][0]["k"] == "const":
            continue
        ty = t["args"][0]["pl"]["ty"]
        if not (ty.startswith("&mut std::vec::Vec<") or ty.startswith("&mut [")):
            continue
        if not any(x.kind == "alloc" and x[1] == body.id and x[2] == alloc_bb and not x[3] for x in fl.sources_operand(body, t["args"][0])):
            continue
        if p == "std::vec::Vec::<T, A>::push":
            pushes.append((bb, t))
        elif p in ("std::ops::DerefMut::deref_mut", "std::ops::IndexMut::index_mut", "std::vec::Vec::<T, A>::as_mut_slice"):
            continue
        else:
            return False, "the per-function lock table is also modified by %s" % p
    if len(pushes) != 1:
        return False, "the per-function lock table is filled by %d push sites" % len(pushes)
    bb, t = pushes[0]
    lr = loop_region(ctx, body, bb)
    if lr is None or lr.get("iter_expr") is None:
        return False, "the push into the per-function lock table is not inside a loop over the functions"
    chain = iterator_chain(ctx, body, lr["iter_expr"])
    names = [p_ for p_, _, _ in chain]
    hit = [e for p_, cb, e in chain if p_ == "daggy::Dag::<N, E, Ix>::node_weights_mut"]
    if not hit:
        return False, "the loop filling the lock table is not over node_weights_mut(): chain %s" % names
    bad = [p_ for p_ in names if p_ in SELECTIVE_ITER or p_ in MORE_ITER]
    if bad:
        return False, "the loop filling the lock table is filtered/reordered by %s" % bad
    gs_ = [g for g in cond_guards(body, bb) if g[0] != lr.get("switch_bb")]
    if gs_ or lr["early_exits"]:
        return False, "the push into the lock table is conditional / the loop can be left early"
    g = sources_of_expr(ctx, body, hit[0][2][0])
    for s_ in g:
        if not (s_.kind == "param" and s_[2] == 1 and s_[3][:1] == (roles["graph"],) and
                (ctx.fb.fns.get(s_[1], {}).get("impl_self", "") or "").startswith("fn_graph::FnGraph<")):
            return False, "lock table is not built from the graph's own function storage"
    return True, ""


def lock_table_chain_ok(ctx, body, collect_bb, roles):
    """fn_mut_refs = graph.node_weights_mut().map(RwLock::new).collect()"""
    t = body.blocks[collect_bb]["term"]
    chain = iterator_chain(ctx, body, expr_operand(body, t["args"][0]))
    names = [p for p, _, _ in chain]
    hit = [e for p, cb, e in chain if p == "daggy::Dag::<N, E, Ix>::node_weights_mut"]
    if not hit:
        return False, "per-function lock table is not built from node_weights_mut(): chain %s" % names
    bad = [p for p in names if p in SELECTIVE_ITER or p in MORE_ITER or p.startswith("leaf") or p.startswith("opaque")]
    if bad:
        return False, "per-function lock table is filtered/reordered by %s (position i would no longer be function i)" % bad
    # `map` keeps positions whatever the wrapper (RwLock::new, Mutex::new, RefCell::new, ...)
    g = sources_of_expr(ctx, body, hit[0][2][0])
    for s in g:
        if not (s.kind == "param" and s[2] == 1 and s[3][:1] == (roles["graph"],)):
            return False, "lock table is not built from the graph's own function storage"
    # the collected table is not permuted / resized afterwards
    fl = ctx.model.flow
    for bb, t2 in body.calls():
        p2 = callee_path(t2) or ""
        if p2 in ("std::ops::IndexMut::index_mut", "std::ops::DerefMut::deref_mut", "std::ops::Index::index", "std::ops::Deref::deref"):
            continue
        for a in t2["args"]:
            if a["k"] == "const":
                continue
            ty = a["pl"]["ty"]
            if ty.startswith("&mut [") or ty.startswith("&mut std::vec::Vec<"):
                for s in fl.sources_operand(body, a):
                    if s.kind == "alloc" and s[1] == body.id and s[2] == collect_bb and not s[3]:
                        return False, "the per-function lock table is modified after construction by %s (position i would no longer be function i)" % p2
    return True, ""


def interrupt_mapper(ctx):
    """the crate-local function mapping PollOutcome<id> to (Option<id>, bool)"""
    for f in ctx.fb.fns.values():
        if len(f["inputs"]) == 1 and "interruptible::PollOutcome<" in f["inputs"][0]["s"] and f["output"]["k"] == "tuple" \
                and "bool" in f["output"]["s"]:
            return ctx.fb.bodies.get(f["id"])
    # ... or into a private struct { Option<id>, bool } (e.g. a `From<PollOutcome<id>>` impl)
    for f in ctx.fb.fns.values():
        if len(f["inputs"]) == 1 and "interruptible::PollOutcome<" in f["inputs"][0]["s"] and f["output"].get("k") == "adt":
            adt = ctx.fb.adts.get(f["output"].get("def") or "")
            if adt and len(adt["variants"]) == 1:
                tys = [x["ty"]["s"] for x in adt["variants"][0]["fields"]]
                if len(tys) == 2 and "bool" in tys and any(x.startswith("std::option::Option<") for x in tys) and f["id"] in ctx.fb.bodies:
                    return ctx.fb.bodies[f["id"]]
    return None


def S5_interrupt_map(ctx, rule):
    """interrupt mapping Interrupted(x) -> (x, true), NoInterrupt(x) -> (Some(x), false), decided per path through the
    mapping function (so `match`, `if let`, `matches!` + second match are all the same to it)"""
    b = interrupt_mapper(ctx)
    if b is None:
        ctx.unverifiable(rule, "interrupt-map", "-", "interrupt mapping function (PollOutcome -> (Option<id>, bool)) not found")
        return
    from rules_build import path_conditions
    from analysis import expr_rvalue
    defs = get_defs(b)
    # variant names from the downcasts in the body
    names = {}
    for bb, si, s in b.stmts():
        if s["k"] == "assign":
            pls = []
            rv = s["rv"]
            if rv["k"] == "use" and rv["op"]["k"] != "const":
                pls.append(rv["op"]["pl"])
            if rv["k"] == "agg":
                pls += [o["pl"] for o in rv["ops"] if o["k"] != "const"]
            if rv["k"] in ("ref", "discr"):
                pls.append(rv["pl"])
            for pl in pls:
                for pr in pl["p"]:
                    if isinstance(pr, dict) and "d" in pr and "name" in pr:
                        names[str(pr["d"])] = pr["name"]
    # the returned tuple(s)
    seen = {}
    desc = []
    good = True
    for kind, rbb, rsi, x in defs.of(0):
        if kind != "stmt" or x["rv"]["k"] != "agg" or x["rv"]["ak"] not in ("tuple", "adt") or len(x["rv"]["ops"]) != 2:
            good = False
            desc.append("result is not built as a (id, flag) pair at %s" % b.loc(rbb))
            continue
        idop, flag = x["rv"]["ops"]
        def _is_bool(o):
            return (o.get("ty") == "bool") if o["k"] == "const" else (o["pl"]["ty"] == "bool")
        if _is_bool(idop) and not _is_bool(flag):
            idop, flag = flag, idop
        watch = [o["pl"]["l"] for o in (idop, flag) if o["k"] != "const" and not o["pl"]["p"]]
        sym_bb = {}
        pcs = path_conditions(b, rbb, sym_bb=sym_bb, watch=watch)
        if not pcs:
            good = False
            desc.append("cannot enumerate the paths of the mapping")
            continue
        for pc in pcs:
            # which PollOutcome variant is this path for
            var = None
            for sym, v in pc.items():
                if isinstance(sym, tuple) and sym[0] == "discr" and sym_bb.get(sym):
                    sb = sorted(sym_bb[sym])[0]
                    d = defs.unique_full(b.blocks[sb]["term"]["discr"].get("pl", {}).get("l", -1))
                    if d and d[0] == "stmt" and d[3]["rv"]["k"] == "discr" and "PollOutcome" in d[3]["rv"]["pl"]["ty"]:
                        if v == "otherwise":
                            listed = {vv for vv, _ in b.blocks[sb]["term"]["targets"]}
                            rest = [k for k in names if k not in listed]
                            var = names.get(rest[0]) if len(rest) == 1 else None
                        else:
                            var = names.get(v)
            # flag value on this path
            if flag["k"] == "const":
                fv = str(flag.get("bits", flag.get("val")))
            else:
                sv = pc.get("$L%d" % flag["pl"]["l"])
                fv = str(sv[1]) if sv and sv[0] == "const" else "?"
            fv = "1" if fv in ("1", "true") else ("0" if fv in ("0", "false") else "?")
            # id value on this path
            if idop["k"] == "const":
                payload = False
                ide = "const"
            else:
                sv = pc.get("$L%d" % idop["pl"]["l"]) if not idop["pl"]["p"] else None
                if sv and sv[0] == "opnd":
                    ide_e = strip_refs(expr_operand(b, b.blocks[sv[1]]["stmts"][sv[2]]["rv"]["ops"][sv[3]]))
                elif sv and sv[0] == "assigned":
                    ex = None
                    for si2, s2 in enumerate(b.blocks[sv[1]]["stmts"]):
                        if s2["k"] == "assign" and s2["pl"]["l"] == sv[2] and not s2["pl"]["p"]:
                            ex = expr_rvalue(b, s2["rv"], 0, (sv[1], si2))
                    ide_e = strip_refs(ex) if ex is not None else strip_refs(expr_operand(b, idop))
                else:
                    ide_e = strip_refs(expr_operand(b, idop))
                payload = m_is_payload(ide_e)
                ide = fmt_expr(ide_e, b)
                # the payload must be the one of the variant of this path
                dn = [x2[2] for x2 in walk_expr(ide_e) if x2.kind == "downcast" and x2[2] in ("Interrupted", "NoInterrupt")]
                if var is not None and dn and dn[0] != var:
                    payload = False
            key = (var, fv, payload)
            if key not in seen:
                seen[key] = True
                desc.append("%s -> (%s, %s)" % (var, ide, fv))
            want = {"Interrupted": "1", "NoInterrupt": "0"}.get(var)
            if want is None or fv != want or not payload:
                good = False
    vars_seen = {k[0] for k in seen}
    ctx.check(good and vars_seen == {"Interrupted", "NoInterrupt"}, rule, "interrupt-map", ctx.model.where(b),
              "interrupt mapping: Interrupted(x) -> (x, true), NoInterrupt(x) -> (Some(x), false)",
              "interrupt mapping is %s" % desc)


def m_is_payload(e):
    """expression is the payload of the matched PollOutcome (possibly wrapped in Some)"""
    for x in walk_expr(e):
        if x.kind == "downcast" and x[2] in ("Interrupted", "NoInterrupt"):
            return True
    if e.kind == "agg" and e[4]:
        return any(m_is_payload(o) for o in e[4])
    return e.kind in ("local",)


# ---------------------------------------------------------------------------
# S6 capacities, S7 fallible sends

def monotone_of_node_count(ctx, body, e, depth=0):
    """e := node_count(g) | max(c, e) | e + c | e * c  (c >= 1 for *) -> (ok, graph expr)"""
    e = strip_refs(e)
    if e.kind == "call" and e[1] in NODE_COUNT_FNS:
        return True, e[2][0]
    if e.kind == "call" and e[1] in ("std::cmp::max", "std::cmp::Ord::max") and len(e[2]) == 2:
        a, b = e[2]
        for x, y in ((a, b), (b, a)):
            if x.kind == "const":
                return monotone_of_node_count(ctx, body, y, depth + 1)
    if e.kind == "binop" and e[1] in ("Add", "Mul"):
        a, b = e[2], e[3]
        for x, y in ((a, b), (b, a)):
            if x.kind == "const" and (e[1] == "Add" or (const_val(x) or 0) >= 1):
                return monotone_of_node_count(ctx, body, y, depth + 1)
    if e.kind == "field" and isinstance(e[2], int) and strip_refs(e[1]).kind == "call" and strip_refs(e[1])[1] in ctx.fb.bodies and \
            len(strip_refs(e[1])) > 3 and isinstance(strip_refs(e[1])[3], int):
        # `setup(..).fn_count`: a field of the struct a private set-up function returns; its value is followed into that function
        cbb = strip_refs(e[1])[3]
        tm = body.blocks[cbb]["term"] if cbb < len(body.blocks) else {}
        if tm.get("k") == "call" and callee_path(tm) == strip_refs(e[1])[1]:
            srcs = ctx.model.flow.sources_local(body, tm["dest"]["l"], (e[2],))
            gs = set()
            for x in srcs:
                if not (x.kind == "alloc" and x[4] in NODE_COUNT_FNS and x[1] in ctx.fb.bodies):
                    return False, None
                gs.add((x[1], x[2]))
            if gs:
                return True, ("framed", sorted(gs))
    return False, None


def inline_local_calls(ctx, e, depth=0):
    """replace calls of private single-expression helpers (`channel_capacity(g)`) by their return expression with the
    arguments substituted"""
    from rules_build import subst_args
    fb = ctx.fb
    e0 = strip_refs(e)
    if depth < 3 and e0.kind == "call" and e0[1] in fb.bodies and fb.bodies[e0[1]].kind == "fn":
        hb = fb.bodies[e0[1]]
        re_ = return_expr(hb)
        if re_ is not None:
            return inline_local_calls(ctx, subst_args(re_, [strip_refs(x) for x in e0[2]]), depth + 1)
    return e


def capacity_lower_bound(e):
    """least value of a capacity expression over all graphs (node_count >= 0); None = unknown"""
    e = strip_refs(e)
    if e.kind == "call" and e[1] in NODE_COUNT_FNS:
        return 0
    if e.kind == "const":
        v = const_val(e)
        return v if isinstance(v, int) else None
    if e.kind == "call" and e[1] in ("std::cmp::max", "std::cmp::Ord::max") and len(e[2]) == 2:
        ls = [capacity_lower_bound(x) for x in e[2]]
        ks = [x for x in ls if x is not None]
        return max(ks) if ks else None
    if e.kind == "call" and e[1] in ("std::cmp::min", "std::cmp::Ord::min") and len(e[2]) == 2:
        ls = [capacity_lower_bound(x) for x in e[2]]
        return None if None in ls else min(ls)
    if e.kind == "binop" and e[1] in ("Add", "Mul", "AddWithOverflow", "MulWithOverflow"):
        la, lb = capacity_lower_bound(e[2]), capacity_lower_bound(e[3])
        if la is None or lb is None:
            return None
        return la + lb if e[1].startswith("Add") else la * lb
    if e.kind == "field" and e[2] == 0:
        return capacity_lower_bound(e[1])       # (a + b).0 of a checked add
    return None


def S6(ctx, rule="S6", roles_filter=None):
    """roles_filter: restrict to channels whose capacity the property depends on"""
    m, fb = ctx.model, ctx.fb
    for (b, bb, t) in m.channels:
        where = m.where(b, bb)
        role = m.chan_role((b.id, bb)) or "?"
        if roles_filter is not None and role not in roles_filter:
            continue
        key = "%s|%s" % (role, short(b.id))
        if (callee_path(t) or "").endswith("unbounded_channel"):
            ctx.ok(rule, key, where, "%s channel is unbounded" % role)
            continue
        capop = getattr(m, "channel_cap", {}).get((b.id, bb))
        if capop is None:
            ctx.unverifiable(rule, key, where, "capacity of the %s channel not found (allocated through a wrapper)" % role)
            continue
        if isinstance(capop, dict) and "wrapped" in capop:
            from rules_build import subst_args
            wb_, wcap_, wct_ = capop["wrapped"]
            e = inline_local_calls(ctx, subst_args(expr_operand(wb_, wcap_), [strip_refs(expr_operand(b, a_)) for a_ in wct_["args"]]))
        else:
            e = inline_local_calls(ctx, expr_operand(b, capop))
        lb = capacity_lower_bound(e)
        ctx.check(lb is not None and lb >= 1, rule, key + "|nonzero", where,
                  "%s channel capacity `%s` is at least %s for every graph (tokio's mpsc::channel panics on capacity 0)" % (role, fmt_expr(e, b), lb),
                  "%s channel capacity `%s` %s: mpsc::channel(0) panics, so a run on the empty graph panics instead of completing" % (
                      role, fmt_expr(e, b), "is 0 for the empty graph" if lb == 0 else "has no established lower bound >= 1"))
        ok, g = monotone_of_node_count(ctx, b, e)
        if ok:
            if isinstance(g, tuple) and g and g[0] == "framed":
                gs = set()
                for (gbid, gbb) in g[1]:
                    gs |= set(m.flow.sources_operand(fb.bodies[gbid], fb.bodies[gbid].blocks[gbb]["term"]["args"][0]))
            else:
                gs = sources_of_expr(ctx, b, g)
            roles = structure_roles(ctx)
            g_ok = bool(gs) and all(s.kind == "param" and s[2] == 1 and len(s[3]) >= 1 and roles and
                                    s[3][0] in (roles["fwd"], roles["rev"], roles["graph"]) for s in gs)
            ctx.check(g_ok, rule, key, where,
                      "%s channel capacity is `%s`: a monotone function of the node count of the run's own graph, so try_send/send of at most one id (error) per function never finds it full" % (
                          role, fmt_expr(e, b)),
                      "%s channel capacity counts the nodes of something that is not the run's graph: %s" % (role, [fmt_src(s) for s in gs]))
        else:
            ctx.bad(rule, key, where,
                    "%s channel capacity `%s` is not a monotone function of node_count(): ids (errors) can be dropped / senders can block when the graph is wider" % (
                        role, fmt_expr(e, b)))
    ctx.floor(rule, 2 if roles_filter is None or ("READY" in roles_filter and "DONE" in roles_filter) else 1, "mpsc channel allocations")


def S6b_bitsets(ctx, rule="S6b"):
    """an id-indexed bit set (`FixedBitSet::insert(id.index())` panics beyond its length) is sized by the node count"""
    m, fb, fl = ctx.model, ctx.fb, ctx.model.flow
    n = 0
    for b in fb.prod_bodies():
        for bb, t in b.calls():
            p = callee_path(t) or ""
            if not (p.startswith("fixedbitset::FixedBitSet") and p.split("::")[-1] in ("insert", "set", "put", "toggle", "set_range", "insert_range")):
                continue
            n += 1
            srcs = fl.sources_operand(b, t["args"][0])
            bad = []
            for s_ in srcs:
                if s_.kind == "alloc" and s_[4].startswith("fixedbitset::FixedBitSet") and s_[4].split("::")[-1] == "with_capacity" and s_[1] in fb.bodies:
                    ab = fb.bodies[s_[1]]
                    ce = inline_local_calls(ctx, expr_operand(ab, ab.blocks[s_[2]]["term"]["args"][0]))
                    ok_, _g = monotone_of_node_count(ctx, ab, ce)
                    if not ok_:
                        bad.append("capacity `%s`" % fmt_expr(ce, ab))
                elif s_.kind == "alloc" and (s_[4].endswith("Visitable::visit_map") or s_[4].endswith("::reset_map")):
                    continue
                else:
                    bad.append(fmt_src(s_))
            ctx.check(not bad, rule, "bitset-capacity|%s" % short(b.id), m.where(b, bb),
                      "the bit set written at an id's index is sized by the graph's node count",
                      "a bit set indexed by function id is not sized by the node count (%s): `insert` panics for ids beyond its length" % bad[:2])
    if n == 0:
        ctx.ok(rule, "no-id-bitsets", "-", "no FixedBitSet is written by the crate's own code")


def result_uses_panicking(ctx, body, bb, t):
    """Does the result of the (possibly awaited) call at bb flow into a
    panicking unwrap/expect within this body?  Returns list of sites."""
    fl = ctx.model.flow
    out = []
    dest = t["dest"]["l"]
    for bb2, t2 in body.calls():
        if callee_path(t2) in PANICKING:
            srcs = fl.sources_operand(body, t2["args"][0])
            for s in srcs:
                if s.kind == "alloc" and s[1] == body.id and s[2] == bb:
                    out.append(bb2)
    return out


def S7(ctx, rule="S7"):
    m, fb, fl = ctx.model, ctx.fb, ctx.model.flow
    n = 0
    for s in m.send_sites():
        b, bb, t = s["body"], s["bb"], s["t"]
        sig = fb.fns.get(b.id, {})
        is_drop = sig.get("impl_trait") == "std::ops::Drop" or fnref_drop_frame(ctx, b) is not None
        kinds, _ = classify_sent_value(ctx, b, t["args"][1])
        if "READY" in s["roles"] and kinds == {"child"}:
            what = "release-loop try_send on READY"
        elif "DONE" in s["roles"]:
            what = "done send"
        elif is_drop:
            what = "FnRef::drop send"
        else:
            continue
        n += 1
        pan = result_uses_panicking(ctx, b, bb, t)
        # also: result passed up through `?`/return is fine; only unwrap/expect matter
        ctx.check(not pan, rule, "%s|%s" % (what.split()[0], short(b.id)), m.where(b, bb),
                  "result of the %s is not unwrapped/expected (its receiver is legitimately gone after interrupt, error or stream drop)" % what,
                  "result of the %s is unwrapped/expected at %s: panics when the receiver was dropped" % (
                      what, [b.loc(x) for x in pan]))
    # releasing a sender must not assert that it is still held: another exit (a failure, an interruption) may have released it already
    for b in fb.prod_bodies():
        for bb, t in b.calls():
            if callee_path(t) not in PANICKING or not t["args"] or t["args"][0]["k"] == "const":
                continue
            e0 = strip_refs(expr_operand(b, t["args"][0]))
            if e0.kind == "call" and e0[1] in (TAKE, "std::mem::take", "std::mem::replace") and e0[2]:
                roles = holder_roles(ctx, b, strip_refs(e0[2][0]))
                if roles & {"DONE", "READY"}:
                    ctx.bad(rule, "release-unwrapped|%s" % short(b.id), m.where(b, bb),
                            "the %s sender is released with `take().expect(..)`: panics when another exit (failure, interruption, empty graph) has released it before" % sorted(roles))
    ctx.counts[rule] = n
    kinds_seen = {o.key.split("|")[1] for o in ctx.obs if o.rule == rule}
    for k in ("release-loop", "done", "FnRef::drop"):
        if k not in kinds_seen:
            ctx.unverifiable(rule, "floor|%s" % k, "-", "no fallible send site of kind `%s` found" % k)


def W3(ctx, rule="W3"):
    """C06: a successor whose count reached 0 is queued in the same visit: the
    release send's only guards are a comparison of a COUNTS element and the
    presence of the ready-sender (no further condition can hold a runnable
    function back).  Over-eager guards are C02's business, not C06's."""
    m, fl = ctx.model, ctx.model.flow
    n = 0
    for s in m.send_sites():
        if "READY" not in s["roles"]:
            continue
        b, bb, t = s["body"], s["bb"], s["t"]
        kinds, _ = classify_sent_value(ctx, b, t["args"][1])
        if kinds != {"child"}:
            continue
        n += 1
        ctx.cover(rule, b.id)
        bad = []
        for sb, de, vals in cond_guards(b, bb):
            e = strip_refs(de)
            if e.kind == "binop" and e[1] in ("Eq", "Ne", "Le", "Lt", "Ge", "Gt"):
                ok = False
                for x in (e[2], e[3]):
                    er = elem_read(x)
                    if er is not None:
                        keys, other = count_role(ctx, sources_of_expr(ctx, b, er[0]))
                        if keys and not other:
                            ok = True
                if not ok:
                    bad.append(fmt_expr(e, b))
            elif e.kind == "discr":
                srcs = sources_of_expr(ctx, b, strip_refs(e[1]))
                roles, other = m.roles_of_sources(srcs, half=0)
                loop_ctl = bool(srcs) and all(x.kind == "alloc" and x[4] in (CHILDREN, NEIGHBORS, NEIGHBORS_DIRECTED) for x in srcs)
                done_item = m.is_done_item(srcs) or all(x.kind == "alloc" and x[4] in CHANNEL_FNS for x in srcs)
                if roles != {"READY"} and not loop_ctl and not done_item and "READY" not in holder_roles(ctx, b, strip_refs(e[1])):
                    bad.append(fmt_expr(e, b))
            else:
                # `match count { 0 => .. }`: a switch on the count itself
                er = elem_read(e)
                okc = False
                if er is not None:
                    keys, other = count_role(ctx, sources_of_expr(ctx, b, er[0]))
                    okc = bool(keys) and not other
                if not okc:
                    # a copy of the element read through a pointer obtained from index_mut
                    srcs_ = sources_of_expr(ctx, b, e)
                    keys, other = count_role(ctx, srcs_)
                    okc = bool(keys) and not other
                if not okc:
                    bad.append(fmt_expr(e, b))
        ctx.check(not bad, rule, "release-unconditional|%s" % short(b.id), m.where(b, bb),
                  "the release of a successor depends only on its predecessor count and on the ready-sender being present",
                  "the release of a runnable successor is additionally guarded by %s" % bad)
    ctx.entry_floor(rule, rule, ('stream', 'fold', 'for_each', 'try_fold', 'try_for_each'), "release send on the READY channel")
