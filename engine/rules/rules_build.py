"""Build-time rules: C01.R1-R5, C06.W1/W2, C11.B1-B5, C12.D1-D4, C13.K1-K5,
C16.E1-E3, C18 loop inventory (DESIGN.md section 5)."""
from analysis import (E, Src, expr_operand, expr_place, expr_local, expr_rvalue, expr_call, fmt_expr, fmt_src, get_defs,
                      guards_of, strip_proj, strip_refs, switch_expr, walk_expr, upvar_index)
from facts import callee_path, is_param_call
from model import short
from rules_sched import (ranges_all_nodes, CHILDREN, PARENTS, NODE_INDEX, NODE_COUNT_FNS, ALL_NODE_SOURCES, elem_read, node_index_arg, is_const,
                         const_val, sources_of_expr, stores_through_index, structure_roles, iterator_chain, closure_of_arg,
                         return_expr, same_value, cond_guards, NEUTRAL_ITER, SELECTIVE_ITER, loop_region, POP_DRIVERS)

UPDATE_EDGE = "daggy::Dag::<N, E, Ix>::update_edge"
ADD_EDGE = "daggy::Dag::<N, E, Ix>::add_edge"
HAS_PATH = "daggy::petgraph::algo::has_path_connecting"
ACCESS_FNS = {"data_access::DataAccessDyn::borrows": "read", "data_access::DataAccessDyn::borrow_muts": "write"}
DAG_MUTATORS = {
    "daggy::Dag::<N, E, Ix>::add_node", "daggy::Dag::<N, E, Ix>::add_edge", "daggy::Dag::<N, E, Ix>::add_edges",
    "daggy::Dag::<N, E, Ix>::update_edge", "daggy::Dag::<N, E, Ix>::remove_node", "daggy::Dag::<N, E, Ix>::remove_edge",
    "daggy::Dag::<N, E, Ix>::add_parent", "daggy::Dag::<N, E, Ix>::add_child", "daggy::Dag::<N, E, Ix>::extend_with_edges",
    "daggy::Dag::<N, E, Ix>::clear", "daggy::Dag::<N, E, Ix>::clear_edges", "daggy::Dag::<N, E, Ix>::retain_nodes",
    "daggy::Dag::<N, E, Ix>::retain_edges", "daggy::Dag::<N, E, Ix>::transitive_reduce",
    "daggy::Dag::<N, E, Ix>::graph_mut",
}


def build_body(ctx):
    roles = structure_roles(ctx)
    return roles["build"] if roles else None


def build_reach(ctx):
    b = build_body(ctx)
    if b is None:
        return []
    return ctx.model.reach_bodies(b.id)


# ---------------------------------------------------------------------------
# symbolic path conditions of a small acyclic region

def path_conditions(body, target_bb, max_paths=4000, sym_bb=None, ret_local=None, watch=()):
    """Enumerate decision paths from the entry to `target_bb` with constant
    propagation of bool locals along the path; in a body with loops the paths
    of one iteration (back edges are not followed).  Returns a list of dicts
    {symbol: value}, symbol = ('call', bb) | ('read', expr-string) ...;
    sym_bb (dict) receives the switch block(s) deciding each symbol; with
    ret_local every dict also maps '$ret' to the symbol held by that local at
    the target.  None if there are too many paths."""
    fsucc = body.forward_succ()
    can_reach = set(x for x in range(len(body.blocks)) if x == target_bb or target_bb in body.reachable(x, succ=fsucc))
    defs = get_defs(body)
    out = []
    count = [0]

    def sym_of_local(l, env):
        if l in env:
            return env[l]
        d = defs.unique_full(l)
        if d is None:
            return ("unknown", l)
        kind, bb, si, x = d
        if kind == "call":
            return ("call", bb)
        if kind == "stmt":
            rv = x["rv"]
            if rv["k"] == "use":
                op = rv["op"]
                if op["k"] == "const":
                    return ("const", op.get("bits", op["val"]))
                if not op["pl"]["p"]:
                    return sym_of_local(op["pl"]["l"], env)
                pr = op["pl"]["p"]
                if len(pr) == 1 and isinstance(pr[0], dict) and "f" in pr[0]:
                    # field of an aggregate built on this path
                    base = env.get(op["pl"]["l"])
                    if base is None:
                        d2 = defs.unique_full(op["pl"]["l"])
                        if d2 and d2[0] == "stmt" and d2[3]["rv"]["k"] == "agg":
                            base = ("agg", d2[1], d2[2])
                    if base and base[0] == "agg":
                        ops_ = body.blocks[base[1]]["stmts"][base[2]]["rv"]["ops"]
                        if pr[0]["f"] < len(ops_):
                            o2 = ops_[pr[0]["f"]]
                            if o2["k"] == "const":
                                return ("const", o2.get("bits", o2["val"]))
                            return ("opnd", base[1], base[2], pr[0]["f"])
                return ("read", fmt_expr(expr_operand(body, op), None))
            if rv["k"] == "discr":
                return ("discr", fmt_expr(expr_place(body, rv["pl"]), None))
            if rv["k"] == "binop":
                return ("expr", fmt_expr(expr_rvalue(body, rv, 0, (bb, si)), None))
        return ("unknown", l)

    def walk(bb, env, dec):
        if count[0] > max_paths:
            return
        if bb not in can_reach:
            return
        blk = body.blocks[bb]
        if bb == target_bb:
            d_ = {k: v for k, v in dec.items() if not (isinstance(k, tuple) and k and k[0] == "$excl")}
            if ret_local is not None:
                env2 = dict(env)
                for s in blk["stmts"]:
                    if s["k"] == "assign" and not s["pl"]["p"] and s["pl"]["l"] == ret_local:
                        rv = s["rv"]
                        if rv["k"] == "use" and rv["op"]["k"] == "const":
                            env2[ret_local] = ("const", rv["op"].get("bits", rv["op"]["val"]))
                        elif rv["k"] == "use" and not rv["op"]["pl"]["p"]:
                            env2[ret_local] = sym_of_local(rv["op"]["pl"]["l"], env2)
                d_["$ret"] = sym_of_local(ret_local, env2)
            if watch:
                env3 = dict(env)
                for s in blk["stmts"]:
                    if s["k"] == "assign" and not s["pl"]["p"] and len(defs.of(s["pl"]["l"])) > 1:
                        rv = s["rv"]
                        if rv["k"] == "use" and rv["op"]["k"] == "const":
                            env3[s["pl"]["l"]] = ("const", rv["op"].get("bits", rv["op"]["val"]))
                        elif rv["k"] == "use" and not rv["op"]["pl"]["p"]:
                            env3[s["pl"]["l"]] = sym_of_local(rv["op"]["pl"]["l"], env3)
                        else:
                            env3[s["pl"]["l"]] = ("assigned", bb, s["pl"]["l"])
                for l_ in watch:
                    d_["$L%d" % l_] = sym_of_local(l_, env3)
            out.append(d_)
            count[0] += 1
            return
        env = dict(env)
        for s in blk["stmts"]:
            if s["k"] == "assign" and not s["pl"]["p"]:
                l = s["pl"]["l"]
                if len(defs.of(l)) > 1:
                    rv = s["rv"]
                    if rv["k"] == "use" and rv["op"]["k"] == "const":
                        env[l] = ("const", rv["op"].get("bits", rv["op"]["val"]))
                    elif rv["k"] == "use" and not rv["op"]["pl"]["p"]:
                        env[l] = sym_of_local(rv["op"]["pl"]["l"], env)
                    elif rv["k"] == "agg":
                        env[l] = ("agg", bb, blk["stmts"].index(s))
                    else:
                        env[l] = ("assigned", bb, l)
        t = blk["term"]
        if t["k"] == "call" and len(defs.of(t["dest"]["l"])) > 1:
            env[t["dest"]["l"]] = ("call", bb)
        if t["k"] == "switch":
            d = t["discr"]
            sym = sym_of_local(d["pl"]["l"], env) if d["k"] != "const" else ("const", d.get("bits"))
            arms = [(v, tb) for v, tb in t["targets"]] + [("otherwise", t["otherwise"])]
            listed = [v for v, _ in t["targets"]]
            for v, tb in arms:
                if tb not in fsucc[bb]:
                    continue
                if sym[0] == "const":
                    cv = str(sym[1])
                    if cv in ("true", "false"):
                        cv = "1" if cv == "true" else "0"
                    if v == "otherwise":
                        if cv in listed:
                            continue
                    elif v != cv:
                        continue
                    walk(tb, env, dec)
                else:
                    if sym in dec and dec[sym] != v:
                        # same symbol decided differently earlier on this path
                        if not (dec[sym] == "otherwise" or v == "otherwise"):
                            continue
                    ex_ = dec.get(("$excl", sym), frozenset())
                    if v != "otherwise" and v in ex_:
                        continue        # an earlier `otherwise` arm already excluded this value
                    if v == "otherwise" and sym in dec and dec[sym] != "otherwise" and dec[sym] in listed:
                        continue        # the value decided earlier is one of the listed arms
                    d2 = dict(dec)
                    if not (v == "otherwise" and sym in dec and dec[sym] != "otherwise"):
                        d2[sym] = v
                    if v == "otherwise":
                        d2[("$excl", sym)] = ex_ | frozenset(listed)
                    if sym_bb is not None:
                        sym_bb.setdefault(sym, set()).add(bb)
                    walk(tb, env, d2)
        else:
            for s in fsucc[bb]:
                walk(s, env, dec)

    walk(0, {}, {})
    if count[0] > max_paths:
        return None
    return out


# ---------------------------------------------------------------------------
# the Data-edge insertion site and the conflict predicate

def data_edge_sites(ctx):
    """update_edge/add_edge calls on the user's Dag<F,..> reachable from build()"""
    out = []
    for b in build_reach(ctx):
        for bb, t in b.calls():
            p = callee_path(t)
            if p in DAG_MUTATORS:
                a0 = t["args"][0]
                ty = a0.get("pl", {}).get("ty", "")
                if "daggy::Dag<F," in ty:
                    out.append((b, bb, t, p))
    return out


def access_calls(ctx, body):
    """{bb: (kind, id_expr)} for DataAccessDyn::borrows/borrow_muts calls in body"""
    out = {}
    for bb, t in body.calls():
        p = callee_path(t)
        if p in ACCESS_FNS:
            e = strip_refs(expr_operand(body, t["args"][0]))
            idv = None
            for c in walk_expr(e):
                if c.kind == "call" and c[1] in ("std::ops::Index::index", "daggy::Dag::<N, E, Ix>::node_weight"):
                    idv = strip_refs(c[2][1])
                    break       # outermost lookup (the id expression may itself index the id list)
            out[bb] = (ACCESS_FNS[p], idv, e)
    return out


def decl_key(s):
    """identity of an access-declaration read: where it was made; for one made inside a helper and seen from a call of that
    helper, the call site, the helper parameter it was made on and which declaration it is"""
    tag = [p for p in s[3] if isinstance(p, str) and p.startswith("@arg")]
    if tag:
        return (s[1], s[2], tag[-1], s[4])
    return (s[1], s[2])


def typeid_comparisons(ctx):
    """All equality sites over access declarations reachable from build():
    returns list of (body, bb, term, sides) with sides = 2 x (decl set, other sources), decl = (alloc body id, alloc bb)."""
    return [x[:4] for x in typeid_comparisons_x(ctx)]


def typeid_comparisons_x(ctx):
    """as typeid_comparisons, with a fifth component `via`: when the comparison lives in a private helper that sees the two
    lists only as parameters (`type_ids_overlap(left, right)`), one entry per call site of that helper (transitively), the
    sides being what is passed THERE; via = ((body, bb) of the call sites, innermost first)."""
    cache = ctx.model.__dict__.setdefault("_typeid_cmp_x", None)
    if cache is not None:
        return cache
    fl = ctx.model.flow
    out = []

    def split(srcs):
        decl = {decl_key(s) for s in srcs if s.kind == "alloc" and s[4] in ACCESS_FNS}
        oth = [s for s in srcs if not (s.kind == "alloc" and s[4] in ACCESS_FNS)]
        return (decl, oth)

    def expand(root_id, summ, via, depth):
        """summ: two source sets in boundary mode of `root_id`"""
        has_param = any(x.kind == "param" and x[1] == root_id for s_ in summ for x in s_)
        sites = fl.call_sites().get(root_id, []) if has_param else []
        sig = ctx.fb.fns.get(root_id)
        if not has_param or not sites or depth > 3 or sig is None or fl.externally_callable(sig):
            return [(summ, via)]
        res = []
        for (cb2, bb2, t2) in sites:
            r2 = cb2.root
            inst = [fl.instantiate_summary(cb2, t2, root_id, s_, "prov@" + r2) for s_ in summ]
            res += expand(r2, inst, via + ((cb2, bb2),), depth + 1)
        return res

    for b in build_reach(ctx):
        for bb, t in b.calls():
            p = callee_path(t)
            if p in ("std::cmp::PartialEq::eq", "std::cmp::PartialEq::ne", "std::slice::<impl [T]>::contains",
                     "smallvec::SmallVec::<A>::contains"):
                rootb = ctx.fb.bodies.get(b.root)
                done = False
                if rootb is not None and rootb.kind == "fn" and fl.call_sites().get(b.root) and \
                        not fl.externally_callable(ctx.fb.fns.get(b.root) or {"public": True}):
                    summ = [fl.sources_operand(b, a, (), "prov@" + b.root) for a in t["args"][:2]]
                    if any(x.kind == "param" and x[1] == b.root for s_ in summ for x in s_):
                        for (inst, via) in expand(b.root, summ, (), 0):
                            sides = [split(s_) for s_ in inst]
                            if sides[0][0] or sides[1][0]:
                                out.append((b, bb, t, sides, via))
                        done = True
                if done:
                    continue
                sides = []
                for a in t["args"][:2]:
                    srcs = fl.sources_operand(b, a)
                    sides.append(split(srcs))
                if sides[0][0] or sides[1][0]:
                    out.append((b, bb, t, sides, ()))
        for bb, si, s in b.stmts():
            if s["k"] == "assign" and s["rv"]["k"] == "binop" and s["rv"]["op"] in ("Eq", "Ne"):
                sides = []
                for a in (s["rv"]["a"], s["rv"]["b"]):
                    srcs = fl.sources_operand(b, a)
                    decl = {decl_key(x) for x in srcs if x.kind == "alloc" and x[4] in ACCESS_FNS}
                    sides.append((decl, [x for x in srcs if not (x.kind == "alloc" and x[4] in ACCESS_FNS)]))
                if sides[0][0] or sides[1][0]:
                    out.append((b, bb, None, sides, ()))
    ctx.model.__dict__["_typeid_cmp_x"] = out
    return out


def conflict_model(ctx):
    """Returns dict with the insertion site, node roles A/B, the comparison pairs."""
    m, fl = ctx.model, ctx.model.flow
    sites = [(b, bb, t, p) for (b, bb, t, p) in data_edge_sites(ctx) if p in (UPDATE_EDGE, ADD_EDGE)]
    if len(sites) != 1:
        return {"error": "expected exactly one edge insertion on the user's graph in build(), found %d" % len(sites), "sites": sites}
    b, bb, t, p = sites[0]
    a_e = strip_refs(expr_operand(b, t["args"][1]))
    b_e = strip_refs(expr_operand(b, t["args"][2]))
    acc = dict(access_calls(ctx, b))
    decl_role = {}

    def node_of(idv):
        # node identity is syntactic (same place after copy propagation): both
        # endpoints are elements of the same list, so value sources cannot tell them apart
        if idv is not None:
            if strip_refs(idv) == a_e and a_e != b_e:
                return "A"
            if strip_refs(idv) == b_e and a_e != b_e:
                return "B"
        return None
    for abb, (kind, idv, e) in acc.items():
        decl_role[(b.id, abb)] = (node_of(idv), kind)
    # declarations read inside a crate-local predicate helper called from the insertion body:
    # the helper's parameter is identified with the node whose weight is passed at the call site
    helpers = {}
    for hbb, ht in b.calls():
        c = ht.get("callee") or {}
        r = c.get("resolved")
        target = r["path"] if isinstance(r, dict) and r.get("local") and r["path"] in ctx.fb.bodies else (
            c.get("path") if c.get("local") and c.get("path") in ctx.fb.bodies else None)
        if target is None or ctx.fb.bodies[target].kind != "fn":
            continue
        H = ctx.fb.bodies[target]
        hacc = access_calls(ctx, H)
        if not hacc:
            continue
        if ((ctx.fb.fns.get(H.id) or {}).get("output") or {}).get("s") == "bool":
            helpers[hbb] = H        # a predicate helper (its truth table is checked); a constructor such as `DataAccess::of` is not
        for abb, (kind, idv, e) in hacc.items():
            root = e
            while root.kind in ("ref", "deref", "cast"):
                root = root[2] if root.kind == "ref" else root[1]
            node = None
            if root.kind == "arg" and 1 <= root[1] <= len(ht["args"]):
                ae = strip_refs(expr_operand(b, ht["args"][root[1] - 1]))
                idv2 = None
                for c2 in walk_expr(ae):
                    if c2.kind == "call" and c2[1] in ("std::ops::Index::index", "daggy::Dag::<N, E, Ix>::node_weight"):
                        idv2 = strip_refs(c2[2][1])
                        break       # outermost lookup: the id expression itself may contain list[index..]
                node = node_of(idv2)
            prev = decl_role.get((H.id, abb))
            if prev is not None and prev[0] != node:
                node = None
            decl_role[(H.id, abb)] = (node, kind)
            acc[(H.id, abb)] = (kind, None, e)
    pairs = []
    pairs_x = []
    unknown = []
    for (cb, cbb, ct, sides, via) in typeid_comparisons_x(ctx):
        l, r = sides
        if not l[0] or not r[0] or l[1] or r[1]:
            unknown.append((cb, cbb, "comparison of an access declaration with something else"))
            continue
        for dk in list(l[0]) + list(r[0]):
            if len(dk) == 4 and dk not in decl_role:
                # a declaration read inside a helper, seen from the helper's call at (body, bb): the function is the one whose
                # weight is passed for that helper parameter
                cbx = ctx.fb.bodies.get(dk[0])
                node = None
                try:
                    tx = cbx.blocks[dk[1]]["term"]
                    ae = strip_refs(expr_operand(cbx, tx["args"][int(dk[2][4:]) - 1]))
                    idv2 = None
                    for c2 in walk_expr(ae):
                        if c2.kind == "call" and c2[1] in ("std::ops::Index::index", "daggy::Dag::<N, E, Ix>::node_weight"):
                            idv2 = strip_refs(c2[2][1])
                            break
                    if cbx.id == b.id:
                        node = node_of(idv2)
                except Exception:
                    node = None
                decl_role[dk] = (node, ACCESS_FNS[dk[3]])
        for dl in l[0]:
            for dr in r[0]:
                rl, rr = decl_role.get(dl), decl_role.get(dr)
                if rl is None or rr is None or rl[0] is None or rr[0] is None:
                    unknown.append((cb, cbb, "declaration of an unidentified node"))
                else:
                    pairs.append((cb, cbb, rl, rr))
                    pairs_x.append((cb, cbb, ct, rl, rr, via))
    return {"site": sites[0], "a": a_e, "b": b_e, "decl_role": decl_role, "pairs": pairs, "pairs_x": pairs_x, "unknown": unknown, "access": acc,
            "helpers": helpers}


def same_value_expr(ctx, body, e1, e2):
    a, b = strip_refs(e1), strip_refs(e2)
    if a == b:
        return True
    sa = sources_of_expr(ctx, body, a)
    sb = sources_of_expr(ctx, body, b)
    return bool(sa) and sa == sb


def norm_pair(rl, rr):
    """normalise to (A.kind, B.kind)"""
    if rl[0] == "A" and rr[0] == "B":
        return (rl[1], rr[1])
    if rl[0] == "B" and rr[0] == "A":
        return (rr[1], rl[1])
    return None


def faithful_return(body, syms):
    """the body's return value is the disjunction of the boolean symbols `syms` (one symbol: that value, directly or as
    `if sym {true} else {false}`), under no other condition"""
    import itertools
    if isinstance(syms, tuple) and syms and not isinstance(syms[0], tuple):
        syms = [syms]
    syms = sorted(set(syms))
    exits = body.exits()
    if len(exits) != 1:
        return False, "several return blocks"
    pcs = path_conditions(body, exits[0], ret_local=0)
    if not pcs:
        return False, "cannot enumerate its paths"
    for pc in pcs:
        other = [k for k in pc if k != "$ret" and k not in syms]
        if other:
            return False, "its result also depends on %s" % (other[0],)
    for vals in itertools.product([False, True], repeat=len(syms)):
        asg = dict(zip(syms, vals))
        results = set()
        for pc in pcs:
            if any(s_ in asg and (v != "0") != asg[s_] for s_, v in pc.items() if s_ != "$ret"):
                continue
            r = pc["$ret"]
            if r[0] == "const":
                results.add(str(r[1]) not in ("0", "false"))
            elif r in asg:
                results.add(asg[r])
            else:
                results.add("?")
        if results != {any(vals)}:
            if "?" in results:
                return False, "it returns something other than the comparison's result"
            return False, "it is not the disjunction of its %d comparison(s) (for %s it yields %s)" % (len(syms), list(vals), sorted(results))
    return True, ""


EXISTENTIAL_ADAPTORS = ("std::iter::Iterator::any",)


def R1_existential(ctx, rule, cm):
    """each declaration comparison is an equality whose result reaches its clause through existential quantifiers only
    (`any` over `any`, `any` over `contains`): some declared type of one function equals some declared type of the other.
    `all`, a negated comparison, or a closure returning something else decides a different predicate."""
    m, fl = ctx.model, ctx.model.flow
    n = 0
    seen = set()
    for (cb, cbb, ct, rl, rr, via) in cm.get("pairs_x", []):
        if (cb.id, cbb) in seen:
            continue
        seen.add((cb.id, cbb))
        if ct is None:
            continue
        p = callee_path(ct)
        n += 1
        key = "exists|%s" % short(cb.id)
        if p == "std::cmp::PartialEq::ne":
            ctx.bad(rule, key, m.where(cb, cbb), "the two declarations are compared with `!=`: the clause holds when the functions declare DIFFERENT types, "
                    "not when they share one")
            continue
        x, sym = cb, ("call", cbb)
        ok, why, where = True, "", m.where(cb, cbb)
        hops = 0
        while x.kind == "closure" and x.id != cm["site"][0].id and hops < 6:
            hops += 1
            # all the clause's comparison results that live in this closure: sibling comparisons and nested quantifiers
            sibs = {sym} | {("call", cbb2) for (cb2, cbb2, ct2, _, _, _) in cm.get("pairs_x", []) if cb2.id == x.id and ct2 is not None}
            for (cb2, cbb2, ct2, _, _, _) in cm.get("pairs_x", []):
                y = cb2
                while y is not None and y.kind == "closure" and y.parent != x.id:
                    y = ctx.fb.bodies.get(y.parent) if y.parent else None
                if y is not None and y.kind == "closure" and y.parent == x.id:
                    for (ub2, ubb2, ut2, ai2) in fl.closure_uses(y):
                        if ub2.id == x.id:
                            sibs.add(("call", ubb2))
            f_ok, f_why = faithful_return(x, sorted(sibs))
            if not f_ok:
                ok, why, where = False, "the closure %s does not hand on the comparison's result: %s" % (short(x.id), f_why), m.where(x)
                break
            uses = fl.closure_uses(x)
            if len(uses) != 1:
                ok, why, where = None, "closure %s has %d uses" % (short(x.id), len(uses)), m.where(x)
                break
            ub, ubb, ut, ai = uses[0]
            up = callee_path(ut)
            if up == "std::iter::Iterator::all":
                ok, why, where = False, ("the comparison is quantified with `all`: the clause holds only if EVERY declared type matches (and for an empty "
                                          "list), not if some type is shared"), m.where(ub, ubb)
                break
            if up not in EXISTENTIAL_ADAPTORS:
                ok, why, where = None, "the comparison closure is consumed by `%s`, not by an existential `any`" % up, m.where(ub, ubb)
                break
            x, sym = ub, ("call", ubb)
        if ok:
            ctx.ok(rule, key, where, "the comparison is an equality reaching its clause through `any`/`contains` only (%d level(s))" % hops)
        elif ok is None:
            ctx.unverifiable(rule, key, where, why)
        else:
            ctx.bad(rule, key, where, why)
    return n


def R1(ctx, rule="R1"):
    """conflict predicate is complete (read x write, write x read, write x write)"""
    m = ctx.model
    cm = conflict_model(ctx)
    if "error" in cm:
        ctx.unverifiable(rule, "site", "-", cm["error"])
        return cm
    b, bb, t, p = cm["site"]
    where = m.where(b, bb)
    norm = set()
    for (cb, cbb, rl, rr) in cm["pairs"]:
        n = norm_pair(rl, rr)
        if n:
            norm.add(n)
    need = {("read", "write"), ("write", "read"), ("write", "write")}
    for n in sorted(need):
        ctx.check(n in norm, rule, "pair|%s-%s" % n, where,
                  "the conflict predicate compares A.%s declarations with B.%s declarations" % n,
                  "the conflict predicate never compares A.%s with B.%s: such a conflict gets no Data edge and both functions run together" % n)
    used_roles = set()
    for (cb, cbb, rl, rr) in cm["pairs"]:
        used_roles.add(rl)
        used_roles.add(rr)
    roles_all = [v for k_, v in cm["decl_role"].items() if v[0] is not None or len(k_) == 4 or k_[0] == b.id]
    ctx.check({("A", "read"), ("A", "write"), ("B", "read"), ("B", "write")} <= (used_roles | set(roles_all)) and all(v[0] for v in used_roles) and
              not cm["unknown"], rule, "decls", where,
              "the four access-declaration reads (A/B x borrows/borrow_muts) are taken of the two endpoints of the inserted edge",
              "access declarations are not read from exactly the two endpoints: %s" % sorted(str(v) for v in cm["decl_role"].values()))
    # the insertion is taken iff any of the comparisons holds (truth table over the `any` results)
    R1_truth_table(ctx, rule, cm)
    R1_existential(ctx, rule, cm)
    return cm


def rank_ord_rule(ctx, rule):
    """`Rank`'s comparison operators are the derived ones (or a hand-written `cmp` on the inner number with nothing else
    overridden): `>`/`<` in the rank update guard and the sort comparator mean what they say."""
    fb = ctx.fb
    why = []
    for tr in ("std::cmp::PartialOrd", "std::cmp::Ord"):
        imp = [i for i in fb.impls if i.get("trait") == tr and i.get("self_ty") == "rank::Rank"]
        if not imp:
            why.append("no %s impl for Rank" % tr.split("::")[-1])
            continue
        if imp[0].get("derived"):
            continue
        allowed = {"std::cmp::PartialOrd": {"partial_cmp"}, "std::cmp::Ord": {"cmp"}}[tr]
        extra = sorted(set(imp[0].get("items", [])) - allowed)
        if extra:
            why.append("hand-written %s for Rank overrides %s: each operator would have to be shown consistent with cmp" % (tr.split("::")[-1], extra))
            continue
        mb = fb.bodies.get("<rank::Rank as %s>::%s" % (tr, sorted(allowed)[0]))
        okb = False
        if mb is not None:
            calls = [callee_path(t) for _, t in mb.calls()]
            if tr.endswith("::Ord"):
                # cmp = inner.cmp(inner)
                okb = calls.count("std::cmp::Ord::cmp") == 1 and all(c in ("std::cmp::Ord::cmp",) for c in calls) and not mb.back_edges() and \
                    not any(blk["term"]["k"] == "switch" for blk in mb.blocks)
                if okb:
                    t_ = [t for _, t in mb.calls()][0]
                    sides = []
                    for a in t_["args"][:2]:
                        ss = ctx.model.flow.sources_operand(mb, a)
                        sides.append({q[2] for q in ss if q.kind == "param" and q[1] == mb.id})
                    okb = sides == [{1}, {2}]
            else:
                okb = all(c in ("std::cmp::Ord::cmp", "std::cmp::PartialOrd::partial_cmp") for c in calls) and len(calls) == 1 and \
                    not any(blk["term"]["k"] == "switch" for blk in mb.blocks)
                if okb:
                    t_ = [t for _, t in mb.calls()][0]
                    sides = []
                    for a in t_["args"][:2]:
                        ss = ctx.model.flow.sources_operand(mb, a)
                        sides.append({q[2] for q in ss if q.kind == "param" and q[1] == mb.id})
                    okb = sides == [{1}, {2}]
        if not okb:
            why.append("hand-written %s for Rank is not `self.0.cmp(&other.0)` / `Some(self.cmp(other))`" % tr.split("::")[-1])
    ctx.check(not why, rule, "rank-ord", "src/rank.rs",
              "Rank is ordered by its inner number through the derived (or an equivalent hand-written cmp-only) PartialOrd/Ord",
              "; ".join(why))


def R7(ctx, rule="R7"):
    """(a) every declared type of one function is compared with EVERY declared type of the other: the operands of a comparison
    come from independent iterations (nested any / contains), never from one zipped, position-wise pairing;
    (b) the pair scan is reached on every path through the function that contains it: no fast path returns early for a graph
    that has functions."""
    m, fl = ctx.model, ctx.model.flow
    cm = conflict_model(ctx)
    if "error" in cm:
        ctx.unverifiable(rule, "site", "-", cm["error"])
        return
    n_cmp = 0
    for (cb_, cbb_, ct_, sides_) in typeid_comparisons(ctx):
        if not (sides_[0][0] and sides_[1][0]):
            continue
        n_cmp += 1
        pos = False
        if cb_.kind == "closure":
            for (ub_, ubb_, ut_, ai_) in fl.closure_uses(cb_):
                names_ = [c[0] for c in iterator_chain(ctx, ub_, expr_operand(ub_, ut_["args"][0]))] if ut_["args"] else []
                if "std::iter::Iterator::zip" in names_:
                    pos = True
        lrz = loop_region(ctx, cb_, cbb_)
        if lrz is not None and lrz.get("iter_expr") is not None and \
                "std::iter::Iterator::zip" in [c[0] for c in iterator_chain(ctx, cb_, lrz["iter_expr"])]:
            pos = True
        ctx.check(not pos, rule, "all-pairs|%s" % short(cb_.id), m.where(cb_, cbb_),
                  "the comparison's operands come from independent iterations over the two access lists (every type against every type)",
                  "the two access lists are compared position by position (zip): a type both functions declare at different "
                  "positions of their lists is never compared, so the conflict is missed")
    fr_ = enum_frame(ctx, cm)
    sb_ = fr_["body"]
    tgt = None
    hops = 0
    while sb_.kind == "closure" and hops < 6:
        hops += 1
        us_ = fl.closure_uses(sb_)
        if len(us_) != 1:
            break
        tgt = us_[0][1]
        sb_ = us_[0][0]
    if sb_.kind != "fn":
        ctx.unverifiable(rule, "scan-always", m.where(sb_), "cannot find the function that owns the pair scan")
        return
    if fr_["body"].id == sb_.id or tgt is None:
        # loops in the function's own body: the outermost loop around the insertion / helper call
        skip = ()
        while True:
            lr_o = loop_region(ctx, sb_, fr_["bb"], skip_headers=skip)
            if lr_o is None:
                break
            tgt = lr_o["next_bb"]
            skip = skip + (lr_o["header"],)
    else:
        # a loop in the function around the outermost closure's consumer
        skip = ()
        site0 = tgt
        while True:
            lr_o = loop_region(ctx, sb_, site0, skip_headers=skip)
            if lr_o is None:
                break
            tgt = lr_o["next_bb"]
            skip = skip + (lr_o["header"],)
    if tgt is None:
        ctx.unverifiable(rule, "scan-always", m.where(sb_), "cannot locate the start of the pair scan")
        return
    reach0 = sb_.reachable(0, avoid={tgt})
    byp = reach0 & set(sb_.exits())
    okb = True
    culprit = None
    if byp:
        can_tgt = set(x for x in range(len(sb_.blocks)) if x == tgt or tgt in sb_.reachable(x))
        for x in sorted(reach0):
            if sb_.blocks[x]["term"]["k"] != "switch" or x not in can_tgt:
                continue
            for s_ in sb_.succs(x):
                if s_ in reach0 and s_ not in can_tgt and (({s_} | sb_.reachable(s_)) & set(sb_.exits())):
                    de = strip_refs(switch_expr(sb_, x))
                    fine = any(c.kind == "call" and (c[1] in NODE_COUNT_FNS or c[1].endswith(("::len", "::is_empty"))) for c in walk_expr(de)) and \
                        not any(c.kind == "call" and c[1] in ACCESS_FNS for c in walk_expr(de))
                    if fine:
                        srcs_ = sources_of_expr(ctx, sb_, de, mode="taint")
                        fine = not any(q.kind == "alloc" and q[4] in ACCESS_FNS for q in srcs_)
                    if not fine:
                        okb = False
                        culprit = x
    ctx.check(okb, rule, "scan-always|%s" % short(sb_.id), m.where(sb_, culprit if culprit is not None else tgt),
              "every path through %s runs the pair scan (an early return is taken only on the number of functions)" % short(sb_.id),
              "%s can return without scanning the pairs for a reason other than the number of functions (a fast path / early return): "
              "conflicting functions stay unordered" % short(sb_.id))
    if n_cmp < 2:
        ctx.unverifiable(rule, "floor", "-", "expected >= 2 comparisons between the two functions' access lists, found %d" % n_cmp)


def R1_truth_table(ctx, rule, cm):
    m, fl = ctx.model, ctx.model.flow
    b, bb, t, p = cm["site"]
    where = m.where(b, bb)
    sym_bb = {}
    pcs = path_conditions(b, bb, sym_bb=sym_bb)
    if pcs is None:
        ctx.unverifiable(rule, "truth-table", where, "the body containing the Data-edge insertion has too many paths for path enumeration")
        return
    cm["sym_bb"] = sym_bb
    # symbols that are results of calls whose closure (transitively) contains a declaration comparison
    cmp_bodies = {}
    for (cb, cbb, rl, rr) in cm["pairs"]:
        n = norm_pair(rl, rr)
        x = cb
        while x is not None:
            cmp_bodies.setdefault(x.id, set()).add(n)
            x = ctx.fb.bodies.get(x.parent) if x.parent else None

    # comparisons living in a parameter-only helper (`overlap(left, right)`): the clause, in the body that calls the helper with
    # two concrete lists, is that call; the helper itself must return its own clause faithfully
    via_syms = {}
    inner_helpers = {}
    for (cb, cbb, ct, rl, rr, via) in cm.get("pairs_x", []):
        if not via:
            continue
        n = norm_pair(rl, rr)
        ob, obb = via[-1]
        via_syms.setdefault(ob.id, {}).setdefault(("call", obb), set()).add(n)
        chain_b = [ctx.fb.bodies.get(cb.root)] + [vb for vb, _ in via[:-1]]
        for k, hb in enumerate(chain_b):
            if hb is not None:
                inner_helpers[hb.id] = hb
        for k, (vb, vbb) in enumerate(via[:-1]):
            via_syms.setdefault(vb.id, {}).setdefault(("call", vbb), set()).add(n)

    def clause_syms(body):
        out = {}
        for cbb2, t2 in body.calls():
            # a call whose closure argument leads to comparisons
            for a in t2["args"]:
                if a["k"] != "const":
                    ty = body.locals[a["pl"]["l"]]
                    if ty.get("k") == "closure" and ty.get("def") in cmp_bodies:
                        out[("call", cbb2)] = frozenset(cmp_bodies[ty["def"]])
        for sym_, ns in via_syms.get(body.id, {}).items():
            out[sym_] = frozenset(ns)
        return out
    clause_of_sym = clause_syms(b)
    import itertools
    # a predicate helper: its return value must be the disjunction of its comparison clauses
    helper_list = [(hbb, H) for hbb, H in sorted(cm.get("helpers", {}).items())]
    helper_ids = {H.id for _, H in helper_list}
    helper_list += [(None, H) for hid, H in sorted(inner_helpers.items()) if hid not in helper_ids and hid != b.root]
    for hbb, H in helper_list:
        hsyms = clause_syms(H)
        rets = H.exits()
        hp = path_conditions(H, rets[0], ret_local=0) if len(rets) == 1 and hsyms and H.kind == "fn" else None
        if not hp:
            ctx.unverifiable(rule, "helper|%s" % short(H.id), m.where(H), "cannot enumerate the paths of the predicate helper")
            continue
        hs = sorted(hsyms)
        extra = set()
        h_ok = True
        for vals in itertools.product([False, True], repeat=len(hs)):
            asg = dict(zip(hs, vals))
            results = set()
            for pc in hp:
                good = True
                for s_, v in pc.items():
                    if s_ == "$ret":
                        continue
                    if s_ in asg:
                        if (v != "0") != asg[s_]:
                            good = False
                            break
                    else:
                        extra.add(s_)
                if not good:
                    continue
                rs = pc["$ret"]
                if rs[0] == "const":
                    results.add(str(rs[1]) not in ("0", "false"))
                elif rs in asg:
                    results.add(asg[rs])
                else:
                    results.add("?")
            if results != {any(vals)}:
                h_ok = False
        ctx.check(h_ok and not extra, rule, "helper-table|%s" % short(H.id), m.where(H),
                  "the predicate helper returns true iff at least one of its %d declaration comparisons holds" % len(hs),
                  "the predicate helper is not the disjunction of its declaration comparisons (other conditions: %s)" % sorted(map(str, extra))[:4])
        if hbb is not None:
            clause_of_sym[("call", hbb)] = frozenset(x for v in hsyms.values() for x in v)
    if not clause_of_sym:
        ctx.unverifiable(rule, "truth-table", where, "cannot relate the guard of the insertion to the comparison closures")
        return
    syms = sorted(clause_of_sym)
    other_syms = set()
    reach_assign = set()
    for pc in pcs:
        for s_, v in pc.items():
            if s_ not in clause_of_sym:
                other_syms.add(s_)
    # for each assignment of the clause symbols: reachable?
    table = {}
    for vals in itertools.product([False, True], repeat=len(syms)):
        asg = dict(zip(syms, vals))
        ok = False
        for pc in pcs:
            good = True
            for s_, v in pc.items():
                if s_ in asg:
                    truth = (v != "0")
                    if truth != asg[s_]:
                        good = False
                        break
            if good:
                ok = True
                break
        table[vals] = ok
    want = {vals: any(vals) for vals in table}
    ctx.check(table == want, rule, "truth-table", where,
              "the Data edge is inserted iff at least one of the %d declaration comparisons (%s) holds" % (
                  len(syms), "; ".join("+".join(sorted("%s x %s" % (c[0], c[1]) for c in clause_of_sym[s_] if c)) for s_ in syms)),
              "the insertion guard is not the disjunction of the declaration comparisons: %s" % (
                  {str(k): v for k, v in table.items()},))
    cm["other_syms"] = other_syms
    cm["pcs"] = pcs
    cm["clause_syms"] = clause_of_sym


def W2(ctx, rule="W2"):
    """no read x read pair, no same-node pair (expected-zero rule)"""
    m = ctx.model
    cm = conflict_model(ctx)
    if "error" in cm:
        ctx.unverifiable(rule, "site", "-", cm["error"])
        return
    b, bb, t, p = cm["site"]
    bad = []
    for (cb, cbb, rl, rr) in cm["pairs"]:
        n = norm_pair(rl, rr)
        if n is None:
            bad.append((cb, cbb, "both sides are declarations of the same function (%s.%s vs %s.%s)" % (rl[0], rl[1], rr[0], rr[1])))
        elif n == ("read", "read"):
            bad.append((cb, cbb, "read x read comparison: functions that merely share read access would be serialised"))
    for (cb, cbb, why) in cm["unknown"]:
        bad.append((cb, cbb, why))
    if bad:
        for cb, cbb, why in bad:
            ctx.bad(rule, "pair|%s" % short(cb.id), m.where(cb, cbb), why)
    else:
        ctx.ok(rule, "no-rr", m.where(b, bb),
               "%d declaration comparisons feed the Data-edge guard; none is read x read and none compares a function with itself" % len(cm["pairs"]))
    ctx.check(len(cm["pairs"]) >= 3, rule, "count", m.where(b, bb), "at least 3 comparison sites found", "fewer than 3 comparison sites found (%d)" % len(cm["pairs"]))


def R2(ctx, rule="R2", strict_order=True):
    """Between the pair enumeration and the insertion every guard is of an
    allowed class.  strict_order: the has_path_connecting guard must test
    (a, b) in the order of the inserted edge (needed by C11.B3: an existing
    a->b edge is never overwritten); for C01 either order of the same two
    endpoints is a reachability test that only skips already-ordered pairs."""
    m, fl = ctx.model, ctx.model.flow
    cm = conflict_model(ctx)
    if "error" in cm:
        ctx.unverifiable(rule, "site", "-", cm["error"])
        return
    b, bb, t, p = cm["site"]
    where = m.where(b, bb)
    if "pcs" not in cm:
        R1_truth_table(ctx, rule + ".tt", cm)
        ctx.obs = [o for o in ctx.obs if o.rule != rule + ".tt"]
    n_ok = 0
    ranks_srcs = None
    lr_in = loop_region(ctx, b, bb)
    lr_out = loop_region(ctx, b, bb, skip_headers=(lr_in["header"],)) if lr_in else None
    driver_switches = {lr["switch_bb"] for lr in (lr_in, lr_out) if lr and lr.get("switch_bb") is not None}
    for sym in sorted(cm.get("other_syms", []), key=str):
        kind = sym[0]
        cls = None
        if kind == "discr" and driver_switches and cm.get("sym_bb", {}).get(sym) and cm["sym_bb"][sym] <= driver_switches:
            ctx.ok(rule, "loop-driver|%s" % sorted(cm["sym_bb"][sym])[0], where,
                   "`for` loop over the id list: the insertion body runs for every element the iterator yields")
            n_ok += 1
            continue
        if kind == "call":
            t2 = b.blocks[sym[1]]["term"]
            p2 = callee_path(t2)
            if p2 in ("std::cmp::PartialEq::eq", "std::cmp::PartialEq::ne") and \
                    "daggy::NodeIndex<" in (((t2.get("callee") or {}).get("self_ty") or {}).get("s") or ""):
                x1 = strip_refs(expr_operand(b, t2["args"][0]))
                x2 = strip_refs(expr_operand(b, t2["args"][1]))
                vals = {pc[sym] for pc in cm["pcs"] if sym in pc}
                ok = ((x1 == cm["a"] and x2 == cm["b"]) or (x1 == cm["b"] and x2 == cm["a"])) and cm["a"] != cm["b"] and (
                    (p2.endswith("::eq") and vals == {"0"}) or (p2.endswith("::ne") and "0" not in vals))
                ctx.check(ok, rule, "identity", m.where(b, sym[1]),
                          "the only pair skipped by the id comparison is (a, a)",
                          "an id comparison other than `a != b` of the two endpoints guards the insertion")
                n_ok += 1
                continue
            if p2 in ("std::mem::replace", "std::mem::take") and t2["dest"]["ty"] == "bool":
                # `mem::replace(&mut seen[b], true)`: test-and-set of the inner element's flag
                ts = seen_test_and_set(ctx, b, t2, cm)
                vals = {pc[sym] for pc in cm["pcs"] if sym in pc}
                if ts and vals == {"0"}:
                    ok_reset, why_reset = seen_flag_reset(ctx, cm)
                    ctx.check(ok_reset, rule, "seen-flag", m.where(b, sym[1]),
                              "per-iteration seen flag (test-and-set by mem::replace on a local Vec<bool>) guards the pair and is reset at the start of every outer iteration",
                              "the seen flags guarding the pair are not reset for every outer element (%s): a pair examined for one element is skipped for all others" % why_reset)
                    n_ok += 1
                    continue
            if (p2 or "").endswith("visit::VisitMap::visit") and len(t2["args"]) >= 2:
                # petgraph's visit map as the seen set: `visit(x)` marks x and is true exactly the first time
                x2 = strip_refs(expr_operand(b, t2["args"][1]))
                vals = {pc[sym] for pc in cm["pcs"] if sym in pc}
                first_only = "0" not in vals and bool(vals)
                ok_reset, why_reset = visitmap_reset(ctx, cm, t2)
                ctx.check(x2 == cm["b"] and first_only and ok_reset, rule, "seen-flag", m.where(b, sym[1]),
                          "per-iteration seen set (petgraph visit map: test-and-set by `visit(b)`) guards the pair and is reset at the start of every outer iteration",
                          "the visit map guarding the pair is not a per-outer-element seen set of the inner element (marks the inner element: %s, taken on first visit: %s, reset: %s)" % (
                              x2 == cm["b"], first_only, why_reset or ok_reset))
                n_ok += 1
                continue
            if p2 == HAS_PATH:
                # same endpoints, same order, same graph
                a2 = strip_refs(expr_operand(b, t2["args"][1]))
                b2 = strip_refs(expr_operand(b, t2["args"][2]))
                # syntactic identity (both endpoints are elements of the same list)
                same = a2 == cm["a"] and b2 == cm["b"] and a2 != b2
                if not strict_order and a2 == cm["b"] and b2 == cm["a"] and a2 != b2:
                    same = True
                g_same = fl.sources_operand(b, t2["args"][0]) == fl.sources_operand(b, t["args"][0])
                # taken when false
                vals = {pc[sym] for pc in cm["pcs"] if sym in pc}
                ok = same and g_same and vals == {"0"}
                ctx.check(ok, rule, "has-path", m.where(b, sym[1]),
                          "the insertion happens only when has_path_connecting(G, a, b) is false for the same G and the same (a, b) as update_edge(a, b): an existing a->b edge implies a path, so no user edge is ever overwritten",
                          "has_path_connecting guard does not match the inserted edge (same endpoints/order: %s, same graph: %s, taken on: %s)" % (same, g_same, sorted(vals)))
                n_ok += 1
                continue
            cls = "call to %s" % p2
        elif kind in ("read", "expr"):
            cls = "value %s" % (sym[1],)
            # `if graph.node_count() < 2 { return }`: with fewer than two functions there is no pair to examine
            import re as _re
            mt_ = _re.match(r"^(Lt|Le|Eq|Ge|Gt|Ne)\(daggy::Dag::<N, E, Ix>::node_count\(&\**arg1\), const\((\d+)\)\)$", str(sym[1]))
            if kind == "expr" and mt_:
                op_, k_ = mt_.group(1), int(mt_.group(2))
                vals_ = {pc[sym] for pc in cm["pcs"] if sym in pc}
                few_when_true = (op_ == "Lt" and k_ <= 2) or (op_ == "Le" and k_ <= 1) or (op_ == "Eq" and k_ <= 1)
                many_when_true = (op_ == "Ge" and k_ <= 2) or (op_ == "Gt" and k_ <= 1) or (op_ == "Ne" and k_ == 0)
                if (few_when_true and vals_ == {"0"}) or (many_when_true and "0" not in vals_ and vals_):
                    ctx.ok(rule, "few-nodes", where, "the scan is skipped only for graphs with fewer than two functions (`%s`): no pair exists there" % (sym[1],))
                    n_ok += 1
                    continue
        # seen flag: a local bool read from a crate-local Vec<bool> that is set in this body
        if kind == "read" or kind == "unknown" or kind == "expr":
            ok_seen = False
            for st in stores_through_index(b):
                if st["value"].kind == "const":
                    ok_seen = True
            # the read must be an element of a vec<bool> allocated in build's reach
            if ok_seen and ("index" in str(sym[1]) or kind == "unknown"):
                ok_reset, why_reset = seen_flag_reset(ctx, cm)
                vals_ = {pc[sym] for pc in cm["pcs"] if sym in pc}
                neg_ = kind == "expr" and str(sym[1]).startswith(("Not(", "Eq(")) and "false" in str(sym[1]).lower()
                if ok_reset and kind != "expr" and vals_ != {"0"}:
                    ok_reset, why_reset = False, "the pair is examined only when its flag is already SET (taken on %s): with all flags cleared nothing is ever examined" % sorted(vals_)
                ctx.check(ok_reset, rule, "seen-flag", where,
                          "per-iteration seen flag (test-and-set on a local Vec<bool>) guards the pair and is reset at the start of every outer iteration",
                          "the seen flags guarding the pair are not reset for every outer element (%s): a pair examined for one element is skipped for all others" % why_reset)
                n_ok += 1
                continue
        if kind == "unknown":
            # multi-def local: resolve through taint of that local
            srcs = fl.sources_local(b, sym[1], (), "taint")
            if srcs and all(s.kind in ("const", "alloc", "op") for s in srcs) and any(
                    s.kind == "alloc" and s[4] == "std::vec::from_elem" for s in srcs):
                ok_reset, why_reset = seen_flag_reset(ctx, cm)
                vals_ = {pc[sym] for pc in cm["pcs"] if sym in pc}
                if ok_reset and vals_ != {"0"}:
                    ok_reset, why_reset = False, "the pair is examined only when its flag is already SET (taken on %s): with all flags cleared nothing is ever examined" % sorted(vals_)
                ctx.check(ok_reset, rule, "seen-flag", where,
                          "per-iteration seen flag (element of a local Vec<bool>) guards the pair and is reset at the start of every outer iteration",
                          "the seen flags guarding the pair are not reset for every outer element (%s): a pair examined for one element is skipped for all others" % why_reset)
                n_ok += 1
                continue
            cls = "local _%s with sources %s" % (sym[1], [fmt_src(s) for s in srcs][:4])
        ctx.bad(rule, "guard|%s" % str(sym[1])[:40], where,
                "a guard of unknown class stands between the pair enumeration and the Data-edge insertion (%s): a conflicting pair may be skipped" % cls)
    # guards tainted by ranks / edge weights anywhere in the iterator chains feeding the pair
    R2_chain_filters(ctx, rule, cm)
    ctx.floor(rule, 2, "guards between pair enumeration and insertion")


def visitmap_reset(ctx, cm, visit_t):
    """the visit map used as seen set is `graph.visit_map()`, reset by `graph.reset_map(&mut map)` in the outer per-element
    body before the inner enumeration, and written by nothing else than `visit`"""
    m, fl = ctx.model, ctx.model.flow
    b = cm["site"][0]
    msrc = {(s_[1], s_[2]) for s_ in fl.sources_operand(b, visit_t["args"][0]) if s_.kind == "alloc" and s_[4].endswith("Visitable::visit_map")}
    if not msrc:
        return False, "the map is not a petgraph visit_map() of the graph"
    fr = enum_frame(ctx, cm)
    site_b, site_bb = (fr["body"], fr["bb"]) if fr["body"].id != b.id else (b, cm["site"][1])
    resets = []
    for body in build_reach(ctx):
        for bb, t in body.calls():
            p = callee_path(t) or ""
            for ai_, a in enumerate(t["args"]):
                ty = a.get("pl", {}).get("ty", "") if isinstance(a, dict) else ""
                if not ty.startswith("&mut"):
                    continue
                if not any(s_.kind == "alloc" and (s_[1], s_[2]) in msrc for s_ in fl.sources_operand(body, a)):
                    continue
                if p.endswith("Visitable::reset_map"):
                    resets.append((body, bb))
                elif p.endswith("VisitMap::visit") or p in ctx.fb.bodies or p in ("std::ops::DerefMut::deref_mut",):
                    continue
                else:
                    return False, "the visit map is also written by %s in %s" % (p, short(body.id))
    if site_b.kind == "closure":
        uses = fl.closure_uses(site_b)
        if len(uses) != 1:
            return False, "inner closure not passed to one consumer"
        ob, ubb, ut, ai = uses[0]
        if any(rb.id == ob.id and ob.dominates(rbb, ubb) for rb, rbb in resets):
            return True, ""
        return False, "no reset_map() dominating the inner enumeration in %s" % short(ob.id)
    lr_in = loop_region(ctx, site_b, site_bb)
    lr_out = loop_region(ctx, site_b, site_bb, skip_headers=(lr_in["header"],)) if lr_in else None
    if lr_in is None or lr_out is None:
        return False, "the insertion is not inside two nested loops"
    between = lr_out["blocks"] - lr_in["blocks"]
    if any(rb.id == site_b.id and rbb in between and site_b.dominates(rbb, lr_in["header"]) for rb, rbb in resets):
        return True, ""
    return False, "no reset_map() in the outer loop body before the inner loop"


def seen_test_and_set(ctx, b, t2, cm):
    """t2 = mem::replace(&mut FLAGS[b.index()], true) on a Vec<bool>/[bool] of flags -> the flag allocation keys, else None"""
    fl = ctx.model.flow
    if len(t2["args"]) < 2:
        return None
    val = strip_refs(expr_operand(b, t2["args"][1]))
    if not (val.kind == "const" and str(val[1]) in ("1", "true")):
        return None
    pe = strip_refs(expr_operand(b, t2["args"][0]))
    er = elem_read(pe)
    if er is None and pe.kind == "call" and pe[1] == "std::ops::IndexMut::index_mut":
        er = (pe[2][0], pe[2][1])
    if er is None:
        return None
    ie = node_index_arg(strip_refs(er[1]))
    if ie is None or strip_refs(ie) != cm["b"]:
        return None
    keys = {(s_[1], s_[2]) for s_ in sources_of_expr(ctx, b, strip_refs(er[0])) if s_.kind == "alloc" and s_[4] == "std::vec::from_elem"}
    return keys or None


def seen_flag_reset(ctx, cm):
    """The Vec<bool> of seen flags is cleared (`fill(false)`) in the outer
    per-element closure before the inner enumeration starts, or allocated
    inside it."""
    m, fl = ctx.model, ctx.model.flow
    b = cm["site"][0]
    site_body = b
    flags = set()
    for st in stores_through_index(b):
        if st["value"].kind == "const":
            for s_ in fl.sources_operand(b, st["container"]):
                if s_.kind == "alloc" and s_[4] == "std::vec::from_elem":
                    flags.add((s_[1], s_[2]))
    for rbb, rt in b.calls():
        if callee_path(rt) in ("std::mem::replace", "std::mem::take") and rt["dest"]["ty"] == "bool":
            flags |= (seen_test_and_set(ctx, b, rt, cm) or set())
    if not flags:
        return False, "seen-flag vector not found"
    # the flags are indexed by function id: one flag per function
    for (fbid, fbb) in sorted(flags):
        fbody = ctx.fb.bodies.get(fbid)
        ft = fbody.blocks[fbb]["term"] if fbody is not None else None
        if ft is None or ft.get("k") != "call" or len(ft["args"]) < 2:
            continue
        ne = strip_refs(expr_operand(fbody, ft["args"][1]))
        calls_ = [c[1] for c in walk_expr(ne) if c.kind == "call"]
        srcs_n = sources_of_expr(ctx, fbody, ne, mode="taint")
        sized = any(c in NODE_COUNT_FNS or c.split("::")[-1] in ("len", "node_bound") for c in calls_) or \
            any(s_.kind == "alloc" and s_[4] in NODE_COUNT_FNS for s_ in srcs_n)
        if any(c.endswith("::edge_count") for c in calls_) or not sized:
            return False, "the flag vector indexed by function id has `%s` entries, not one per function: indexing it panics or aliases" % fmt_expr(ne, fbody)[:60]
    fr = enum_frame(ctx, cm)
    if fr["body"].id != b.id:
        # the per-pair work is a private function: the enumeration (and the reset) live in its caller
        cm = dict(cm)
        cm["site"] = (fr["body"], fr["bb"], cm["site"][2], cm["site"][3])
        b = fr["body"]
    uses = fl.closure_uses(b) if b.kind == "closure" else []
    loop_form = None
    if b.kind != "closure":
        lr_in = loop_region(ctx, b, cm["site"][1])
        lr_out = loop_region(ctx, b, cm["site"][1], skip_headers=(lr_in["header"],)) if lr_in else None
        if lr_in is None or lr_out is None:
            return False, "the insertion is not inside two nested loops over the id list"
        loop_form = (lr_in, lr_out)
    elif len(uses) != 1:
        return False, "inner closure not passed to one consumer"
    ob, ubb, ut, ai = uses[0] if uses else (b, None, None, None)
    # who writes the flags: only `fill(false)` and the test-and-set of the inner element's own flag
    for body in build_reach(ctx):
        idx_stores = {st["index_bb"]: st for st in stores_through_index(body)}
        for bb, t in body.calls():
            p = callee_path(t) or ""
            for ai_, a in enumerate(t["args"]):
                ty = a.get("pl", {}).get("ty", "") if isinstance(a, dict) else ""
                if not ty.startswith("&mut"):
                    continue
                srcs = fl.sources_operand(body, a)
                if not any(s_.kind == "alloc" and (s_[1], s_[2]) in flags for s_ in srcs):
                    continue
                if p == "std::slice::<impl [T]>::fill":
                    if not is_const(strip_refs(expr_operand(body, t["args"][1])), 0):
                        return False, "the flag vector is filled with `true` in %s: every later candidate of the current element is skipped" % short(body.id)
                elif p in ctx.fb.bodies:
                    continue        # a crate-local function: its own body is inspected in this same sweep
                elif p == "std::ops::IndexMut::index_mut":
                    st = idx_stores.get(bb)
                    if st is None:
                        # pointer handed to mem::replace(ptr, true): the test-and-set of the inner element
                        ts_ok = False
                        for rbb, rt in body.calls():
                            if callee_path(rt) in ("std::mem::replace",) and rt["dest"]["ty"] == "bool" and body.id == site_body.id:
                                if seen_test_and_set(ctx, body, rt, cm):
                                    ts_ok = True
                        if ts_ok:
                            continue
                        return False, "flag element borrowed mutably without a recognised store in %s" % short(body.id)
                    ie = node_index_arg(strip_refs(expr_operand(body, st["idx"])))
                    if st["value"].kind == "const" and not is_const(st["value"], 0):
                        if body.id != site_body.id or ie is None or strip_refs(ie) != cm["b"]:
                            return False, "a seen flag other than the inner element's own is set in %s" % short(body.id)
                elif p in ("std::ops::DerefMut::deref_mut", "std::vec::Vec::<T, A>::as_mut_slice", "std::convert::AsMut::as_mut"):
                    continue
                elif p == "std::mem::replace" and body.id == site_body.id and seen_test_and_set(ctx, body, t, cm):
                    continue        # the test-and-set of the inner element's own flag
                else:
                    return False, "the flag vector is mutated by %s in %s" % (p, short(body.id))
    if loop_form is not None:
        lr_in, lr_out = loop_form
        between = lr_out["blocks"] - lr_in["blocks"]
        if all(k[0] == b.id and k[1] in between for k in flags):
            return True, ""
        for bb, t in b.calls():
            if callee_path(t) == "std::slice::<impl [T]>::fill" and bb in between and b.dominates(bb, lr_in["header"]):
                srcs = fl.sources_operand(b, t["args"][0])
                val = strip_refs(expr_operand(b, t["args"][1]))
                if any(s_.kind == "alloc" and (s_[1], s_[2]) in flags for s_ in srcs) and is_const(val, 0):
                    return True, ""
        return False, "no `fill(false)` of the flag vector in the outer loop body before the inner loop in %s" % short(b.id)
    # allocated inside the outer closure?
    if all(k[0] == ob.id for k in flags):
        return True, ""
    for bb, t in ob.calls():
        if callee_path(t) == "std::slice::<impl [T]>::fill":
            srcs = fl.sources_operand(ob, t["args"][0])
            val = strip_refs(expr_operand(ob, t["args"][1]))
            if any(s_.kind == "alloc" and (s_[1], s_[2]) in flags for s_ in srcs) and is_const(val, 0) and ob.dominates(bb, ubb):
                return True, ""
    return False, "no `fill(false)` of the flag vector dominating the inner enumeration in %s" % short(ob.id)


# `list.iter().skip(position)` is the slice `list[position..]` written as an adaptor: where it starts is judged by R6 / D2
# (inner-range), which every property using R2 also runs
RANGE_SKIP = "std::iter::Iterator::skip"


def strip_plus_one(e):
    """`i + 1` (also as the `.0` of a checked add) -> `i`; anything else unchanged"""
    x = strip_refs(e)
    if x.kind == "field" and x[2] == 0:
        y = strip_refs(x[1])
        if y.kind == "binop" and y[1] in ("AddWithOverflow",):
            x = y
    if x.kind == "binop" and x[1] in ("Add", "AddWithOverflow", "AddUnchecked"):
        if is_const(strip_refs(x[3]), 1):
            return strip_refs(x[2])
        if is_const(strip_refs(x[2]), 1):
            return strip_refs(x[3])
    return strip_refs(e)


def inner_range_start(ctx, chain):
    """(ok, start expression, list sources, why) for an inner iteration `list[start..]` or `list.iter().skip(start)`"""
    idxs = [(p2, cb, e) for p2, cb, e in chain if p2 in ("std::ops::Index::index",)]
    skips = [(p2, cb, e) for p2, cb, e in chain if p2 == RANGE_SKIP]
    if idxs and not skips:
        p2, cb, e = idxs[-1]
        rng = strip_refs(e[2][1])
        if rng.kind == "agg" and rng[2] == "std::ops::RangeFrom":
            # `list[i..]` or `list[i + 1..]` (the latter leaves out the outer element itself: no identity filter needed)
            return True, strip_plus_one(rng[4][0]), sources_of_expr(ctx, cb, e[2][0]), ""
        if rng.kind == "agg":
            return False, None, frozenset(), "inner iteration ranges over `%s` (not the positions from the outer element on)" % fmt_expr(rng, cb)
        return False, None, frozenset(), "inner iteration is not list[index..]"
    if len(skips) == 1 and not idxs and chain:
        p2, cb, e = skips[0]
        leaf = chain[-1]
        if not leaf[0].startswith("leaf:") and leaf[2].kind == "call" and leaf[2][2]:
            return True, strip_refs(e[2][1]), sources_of_expr(ctx, leaf[1], leaf[2][2][0]), ""
    return False, None, frozenset(), "inner iteration is not list[index..]"


def R2_chain_filters(ctx, rule, cm):
    """filters on the two enumerations may only compare the two ids"""
    m, fl = ctx.model, ctx.model.flow
    b, bb, t, p = cm["site"]
    fr = enum_frame(ctx, cm)
    if fr["body"].id != b.id:
        # per-pair helper: the call must be unconditional in the enumerating body, which is examined from there on
        gs = [fmt_expr(strip_refs(de), fr["body"]) for sb, de, vals in cond_guards(fr["body"], fr["bb"])
              if not ((loop_region(ctx, fr["body"], fr["bb"]) or {}).get("switch_bb") == sb)]
        ctx.check(not gs, rule, "helper-call|%s" % short(fr["body"].id), m.where(fr["body"], fr["bb"]),
                  "the per-pair function is called for every enumerated pair",
                  "the per-pair function is called only under %s" % gs[:3])
        b, bb = fr["body"], fr["bb"]
    x = b
    # `for` loops around the insertion in its own body
    skip = ()
    prev_next = prev_switch = None
    while True:
        lr = loop_region(ctx, b, bb, skip_headers=skip)
        if lr is None:
            break
        skip = skip + (lr["header"],)
        if lr["early_exits"]:
            ctx.bad(rule, "loop-exit|%s" % short(b.id), m.where(b, lr["early_exits"][0][0]),
                    "the pair enumeration loop can be left early (break/return): later pairs are not examined")
        if len(skip) >= 2:
            # nested `for` loops: the inner loop is entered for every outer element
            og = [g for g in cond_guards(b, prev_next) if g[0] in lr["blocks"] and g[0] != lr.get("switch_bb") and g[0] != prev_switch]
            if og:
                ctx.bad(rule, "outer-guard|%s" % short(b.id), m.where(b, og[0][0]),
                        "the inner loop over an element's later candidates is skipped under `%s`: pairs of that element are never examined" % fmt_expr(strip_refs(og[0][1]), b)[:100])
        prev_next, prev_switch = lr["next_bb"], lr.get("switch_bb")
        chain = iterator_chain(ctx, b, lr["iter_expr"]) if lr.get("iter_expr") is not None else []
        for p2, cb, e in chain:
            if p2 in SELECTIVE_ITER and p2 not in ("std::iter::Iterator::filter", RANGE_SKIP):
                ctx.bad(rule, "narrowed|%s" % short(cb.id), m.where(cb), "the pair enumeration is narrowed by %s" % p2)
            elif p2 == "std::iter::Iterator::filter":
                check_id_filter(ctx, rule, cb, e)
    while x is not None and x.kind == "closure":
        uses = fl.closure_uses(x)
        if len(uses) != 1:
            ctx.unverifiable(rule, "chain|%s" % short(x.id), m.where(x), "pair-enumeration closure is not passed to exactly one consumer")
            return
        pb, ubb, ut, ai = uses[0]
        cons = callee_path(ut)
        if cons != "std::iter::Iterator::for_each":
            ctx.bad(rule, "consumer|%s" % short(x.id), m.where(pb, ubb),
                    "pair enumeration uses %s (may stop early) instead of for_each" % cons)
        # the enumeration one level down is started unconditionally: no early return / condition on the outer element (its rank,
        # its access declarations) decides whether its pairs are examined at all
        og = [g for g in cond_guards(pb, ubb) if (pb.blocks[g[0]]["term"].get("sp") or {}).get("desugar") != "Await"]
        lr_pb = loop_region(ctx, pb, ubb)
        og = [g for g in og if not (lr_pb is not None and g[0] == lr_pb.get("switch_bb"))]
        if og:
            ctx.bad(rule, "outer-guard|%s" % short(pb.id), m.where(pb, og[0][0]),
                    "the scan of an element's later candidates is skipped under `%s`: pairs of that element are never examined" % fmt_expr(strip_refs(og[0][1]), pb)[:100])
        chain = iterator_chain(ctx, pb, expr_operand(pb, ut["args"][0]))
        for p2, cb, e in chain:
            if p2 == "std::iter::Iterator::filter":
                check_id_filter(ctx, rule, cb, e)
            elif False:
                fcl = closure_of_arg(ctx, cb, e[2][1])
                ok = False
                why = "filter closure not found"
                if fcl is not None:
                    re_ = return_expr(fcl)
                    if re_ is not None and re_.kind == "call" and re_[1] in ("std::cmp::PartialEq::ne", "std::cmp::PartialEq::eq"):
                        tys = [fcl.locals[i]["s"] for i in range(1, fcl.arg_count + 1)]
                        # both operands are node ids
                        s1 = sources_of_expr(ctx, fcl, strip_refs(re_[2][0]), mode="taint")
                        s2 = sources_of_expr(ctx, fcl, strip_refs(re_[2][1]), mode="taint")
                        ranky = [s for s in (set(s1) | set(s2)) if s.kind == "param" and "ranks" in str(s)]
                        cal = (fcl.blocks[re_[3]]["term"].get("callee") or {})
                        on_ids = "daggy::NodeIndex<" in ((cal.get("self_ty") or {}).get("s") or "")
                        ok = re_[1] == "std::cmp::PartialEq::ne" and not ranky and on_ids
                        why = "filter is `%s`%s" % (fmt_expr(re_, fcl), "" if on_ids else " (not a comparison of the two ids)")
                    else:
                        why = "filter predicate is `%s`" % (fmt_expr(re_, fcl) if re_ is not None else "?")
                ctx.check(ok, rule, "filter|%s" % short(cb.id), m.where(cb),
                          "the only filter on the pair enumeration is identity of the two ids (`a != b`)",
                          "the pair enumeration is filtered by something other than id identity: %s" % why)
            elif p2 in SELECTIVE_ITER and p2 not in ("std::iter::Iterator::filter", RANGE_SKIP):
                ctx.bad(rule, "narrowed|%s" % short(cb.id), m.where(cb), "the pair enumeration is narrowed by %s" % p2)
        x = pb if pb.kind == "closure" else None


def check_id_filter(ctx, rule, cb, e):
    """a filter on the pair enumeration may only be identity of the two ids (`a != b`)"""
    m = ctx.model
    fcl = closure_of_arg(ctx, cb, e[2][1])
    ok = False
    why = "filter closure not found"
    if fcl is not None:
        re_ = return_expr(fcl)
        if re_ is not None and re_.kind == "call" and re_[1] in ("std::cmp::PartialEq::ne", "std::cmp::PartialEq::eq"):
            s1 = sources_of_expr(ctx, fcl, strip_refs(re_[2][0]), mode="taint")
            s2 = sources_of_expr(ctx, fcl, strip_refs(re_[2][1]), mode="taint")
            ranky = [s for s in (set(s1) | set(s2)) if s.kind == "param" and "ranks" in str(s)]
            cal = (fcl.blocks[re_[3]]["term"].get("callee") or {})
            on_ids = "daggy::NodeIndex<" in ((cal.get("self_ty") or {}).get("s") or "")
            ok = re_[1] == "std::cmp::PartialEq::ne" and not ranky and on_ids
            why = "filter is `%s`%s" % (fmt_expr(re_, fcl), "" if on_ids else " (not a comparison of the two ids)")
        else:
            why = "filter predicate is `%s`" % (fmt_expr(re_, fcl) if re_ is not None else "?")
    ctx.check(ok, rule, "filter|%s" % short(cb.id), m.where(cb),
              "the only filter on the pair enumeration is identity of the two ids (`a != b`)",
              "the pair enumeration is filtered by something other than id identity: %s" % why)


def R3(ctx, rule="R3", parts=("structures", "counts", "graph-field")):
    """phase order in build(): augment dominates count calc, raw_edges, raw_nodes; same graph.
    parts selects what a property depends on: `structures` (raw_edges/raw_nodes after augmentation),
    `counts` (count calculation after augmentation), `graph-field` (FnGraph.graph is the augmented
    graph), `ranks` (rank calculation precedes augmentation and is the only one)."""
    m, fl = ctx.model, ctx.model.flow
    b = build_body(ctx)
    if b is None:
        ctx.unverifiable(rule, "build", "-", "build() not found")
        return
    aug = None
    rank_call = None
    later = []
    later_fg = []
    for bb, t in b.calls():
        p = callee_path(t) or ""
        if p in ctx.fb.bodies:
            # crate-local call taking the graph
            a_tys = [a.get("pl", {}).get("ty", "") for a in t["args"]]
            if any(x.startswith("&mut daggy::Dag<F,") for x in a_tys):
                aug = (bb, t)
            elif any(x.startswith("&daggy::Dag<F,") or x.startswith("daggy::Dag<F,") for x in a_tys):
                if "Rank" in t["dest"]["ty"] and t["dest"]["ty"].startswith("std::vec::Vec<"):
                    rank_call = (bb, t)
                else:
                    # (by reference, or by value into a private constructor that derives the structure copies from it)
                    gi = [i for i, x in enumerate(a_tys) if x.startswith("&daggy::Dag<F,") or x.startswith("daggy::Dag<F,")][0]
                    t = dict(t)
                    t["args"] = [t["args"][gi]] + [a for i, a in enumerate(t["args"]) if i != gi]
                    later.append((bb, t, short(p)))
            elif any("fn_graph::FnGraph<F>" in x for x in a_tys) and "fn_graph::FnGraph" not in t["dest"]["ty"]:
                # a private step that works on the assembled FnGraph value (`Self::graph_structures_fill(&mut fn_graph)`): the
                # graph it reads is that value's `graph` field
                later_fg.append((bb, t, short(p), [i for i, x in enumerate(a_tys) if "fn_graph::FnGraph<F>" in x][0]))
        elif p in ("daggy::Dag::<N, E, Ix>::raw_edges", "daggy::Dag::<N, E, Ix>::raw_nodes"):
            later.append((bb, t, p.split("::")[-1]))
    if aug is None:
        ctx.bad(rule, "augment", m.where(b), "build() does not call a crate-local function taking `&mut` the user's graph (data-edge augmentation missing)")
        return
    gsrc = fl.sources_operand(b, aug[1]["args"][0])
    # the augmentation runs on every path through build(): a fast path that skips it (no readers / no edges / a single
    # function ..) leaves conflicting functions unordered for the graphs it applies to. Only a test on the number of
    # functions may bypass it.
    byp = b.reachable(0, avoid={aug[0]}) & set(b.exits())
    bad_g = None
    if byp:
        can_aug = set(x for x in range(len(b.blocks)) if x == aug[0] or aug[0] in b.reachable(x))
        r0 = b.reachable(0, avoid={aug[0]}) | {0}
        for x in sorted(r0):
            if b.blocks[x]["term"]["k"] != "switch" or x not in can_aug:
                continue
            for s_ in b.succs(x):
                if s_ not in can_aug and (({s_} | b.reachable(s_)) & set(b.exits())) and not b.blocks[s_].get("cleanup"):
                    de = strip_refs(switch_expr_(b, x))
                    calls_ = [c[1] for c in walk_expr(de) if c.kind == "call"]
                    fine = bool(calls_) and all(c in NODE_COUNT_FNS or c.split("::")[-1] in ("len", "is_empty") for c in calls_) and \
                        not any(c.endswith("::edge_count") for c in calls_)
                    if not fine:
                        bad_g = (x, de)
    ctx.check(bad_g is None, rule, "augment-always", m.where(b, bad_g[0]) if bad_g else m.where(b, aug[0]),
              "the data-edge augmentation runs on every path through build()",
              "build() skips the data-edge augmentation under `%s`: for those graphs conflicting functions stay unordered" % (
                  fmt_expr(bad_g[1], b)[:100] if bad_g else ""))
    # a private phase helper that takes `&mut graph` and itself runs ranks -> augmentation -> counts: the order of those three
    # is checked inside it, build() only has to copy the structure after calling it
    hb = ctx.fb.bodies.get(callee_path(aug[1]) or "")
    h_aug = None
    if hb is not None and hb.kind == "fn":
        for hbb, ht in hb.calls():
            hp = callee_path(ht) or ""
            if hp in ctx.fb.bodies and any((a.get("pl", {}).get("ty", "")).startswith("&mut daggy::Dag<F,") for a in ht["args"] if isinstance(a, dict)):
                h_aug = (hbb, ht)
    if h_aug is not None:
        hg = fl.sources_operand(hb, h_aug[1]["args"][0], (), "prov@" + hb.id)
        for hbb, ht in hb.calls():
            hp = callee_path(ht) or ""
            if hp not in ctx.fb.bodies or (hbb, ht) == h_aug:
                continue
            if not any((a.get("pl", {}).get("ty", "")).startswith("&daggy::Dag<F,") for a in ht["args"] if isinstance(a, dict)):
                continue
            same = fl.sources_operand(hb, ht["args"][0], (), "prov@" + hb.id) == hg
            if "Rank" in ht["dest"]["ty"]:
                if "ranks" in parts:
                    ctx.check(hb.dominates(hbb, h_aug[0]) and same, rule, "ranks-before-augment", m.where(hb, hbb),
                              "the rank calculation in %s runs on the user's edges before augmentation" % short(hb.id),
                              "the rank calculation runs after / without preceding data-edge augmentation: ranks would count Data edges")
            elif "counts" in parts:
                ctx.check(hb.dominates(h_aug[0], hbb) and same, rule, "after-augment|%s" % short(hp), m.where(hb, hbb),
                          "%s reads the same graph after data-edge augmentation (augment call dominates it)" % short(hp),
                          "%s is evaluated on the graph before augmentation / on a different graph: Data edges are ignored" % short(hp))
        if "ranks" in parts:
            parts = tuple(x for x in parts if x != "ranks")
            # no second rank calculation in build() itself
            extra = [bb for bb, t in b.calls() if (callee_path(t) or "") in ctx.fb.bodies and t["dest"]["ty"].startswith("std::vec::Vec<rank::Rank")]
            ctx.check(not extra, rule, "ranks-once", m.where(b), "ranks are computed once, inside the phase helper", "build() computes ranks again outside the phase helper")
    for bb, t, name in later:
        part = "structures" if name in ("raw_edges", "raw_nodes") else "counts"
        p_ = callee_path(t) or ""
        if p_ in ctx.fb.bodies and "EdgeCounts" not in t["dest"]["ty"]:
            # a crate-local helper reading the graph: classify by what it reads
            reads_raw = any((callee_path(t2) or "") in ("daggy::Dag::<N, E, Ix>::raw_edges", "daggy::Dag::<N, E, Ix>::raw_nodes")
                            for bx in m.reach_bodies(p_) for _, t2 in bx.calls())
            part = "structures" if reads_raw else "counts"
        if part not in parts:
            continue
        same = fl.sources_operand(b, t["args"][0]) == gsrc
        ctx.check(b.dominates(aug[0], bb) and same, rule, "after-augment|%s" % name, m.where(b, bb),
                  "%s reads the same graph after data-edge augmentation (augment call dominates it)" % name,
                  "%s is evaluated on the graph before augmentation / on a different graph: Data edges are ignored" % name)
    roles_ = structure_roles(ctx)
    for bb, t, name, ai in later_fg:
        p_ = callee_path(t) or ""
        reads_raw = any((callee_path(t2) or "") in ("daggy::Dag::<N, E, Ix>::raw_edges", "daggy::Dag::<N, E, Ix>::raw_nodes") or
                        (callee_path(t2) or "") in NODE_COUNT_FNS
                        for bx in m.reach_bodies(p_) for _, t2 in bx.calls())
        part = "structures" if reads_raw else "counts"
        if part not in parts or not roles_:
            continue
        same = fl.sources_operand(b, t["args"][ai], (roles_["graph"],)) == gsrc
        ctx.check(b.dominates(aug[0], bb) and same, rule, "after-augment|%s" % name, m.where(b, bb),
                  "%s works on the assembled value whose graph is the augmented graph (augment call dominates it)" % name,
                  "%s is evaluated before augmentation / on a different graph: Data edges are ignored" % name)
    if "ranks" in parts:
        rcs = []
        for bb, t in b.calls():
            p = callee_path(t) or ""
            if p in ctx.fb.bodies and "Rank" in t["dest"]["ty"] and any(
                    (a.get("pl", {}).get("ty", "")).startswith("&daggy::Dag<F,") for a in t["args"]):
                rcs.append((bb, t))
        okr = bool(rcs) and all(b.dominates(bb, aug[0]) and fl.sources_operand(b, t["args"][0]) == gsrc for bb, t in rcs)
        ctx.check(okr, rule, "ranks-before-augment", m.where(b, rcs[-1][0]) if rcs else m.where(b),
                  "every rank calculation in build() runs on the user's edges before augmentation",
                  "a rank calculation runs after / without preceding data-edge augmentation: ranks would count Data edges")
    # the augmented graph is the one stored in FnGraph.graph
    roles = structure_roles(ctx)
    cb_ = roles.get("ctor") or b         # the body holding the `FnGraph { .. }` literal: build() or a private constructor it calls
    if "counts" in parts and roles.get("counts") is not None:
        # ... and FnGraph.edge_counts is what the count calculation returned, whatever the graph looks like: no fast path stores
        # `EdgeCounts::default()` (empty vectors) for "trivial" graphs
        for bb, si, s in cb_.stmts():
            if s["k"] == "assign" and s["rv"]["k"] == "agg" and s["rv"].get("def") == "fn_graph::FnGraph" and roles["counts"] < len(s["rv"]["ops"]):
                cs_ = fl.sources_operand(cb_, s["rv"]["ops"][roles["counts"]])
                alien = [x for x in cs_ if (x.kind == "alloc" and "Default::default" in x[4]) or
                         (x.kind in ("agg", "alloc") and ("default::Default" in str(x[1]) or str(x[1]).endswith("::default")))]
                ctx.check(not alien, rule, "counts-field", m.where(cb_, bb, si),
                          "FnGraph.edge_counts is the result of the count calculation on every path",
                          "FnGraph.edge_counts can also be %s: for those graphs the scheduler indexes counts that were never computed" % (
                              [fmt_src(x) for x in alien][:2]))
    for bb, si, s in (cb_.stmts() if "graph-field" in parts else []):
        if s["k"] == "assign" and s["rv"]["k"] == "agg" and s["rv"].get("def") == "fn_graph::FnGraph":
            op = s["rv"]["ops"][roles["graph"]]
            ctx.check(fl.sources_operand(cb_, op) == gsrc, rule, "graph-field", m.where(cb_, bb, si),
                      "FnGraph.graph is the augmented graph itself", "FnGraph.graph is not the graph that was augmented")
    ctx.floor(rule, 1, "phase-order obligations")


def R4(ctx, rule="R4"):
    """structure copies: every raw edge/node copied, no weight-dependent guard"""
    m, fl = ctx.model, ctx.model.flow
    b = build_body(ctx)
    roles = structure_roles(ctx)
    if b is None or roles is None:
        ctx.unverifiable(rule, "build", "-", "build() / structure roles not found")
        return
    n = 0
    work = []
    reach_ids = {y.id for y in build_reach(ctx)}
    targets = {"add_node": [], "add_edge": []}
    for body in build_reach(ctx):
        for bb, t in body.calls():
            p = callee_path(t)
            if p in (ADD_EDGE, "daggy::Dag::<N, E, Ix>::add_node") and "daggy::Dag<()," in t["args"][0].get("pl", {}).get("ty", ""):
                # which of the structure copies receives this insertion (by where the receiver was created / which field it is)
                rs_ = frozenset(x for x in fl.sources_operand(body, t["args"][0]) if x.kind in ("alloc", "param"))
                targets["add_node" if "add_node" in p else "add_edge"].append((rs_, body, bb))
                hsig = ctx.fb.fns.get(body.id) or {}
                if body.kind == "fn" and body.id != b.id and not hsig.get("public") and loop_region(ctx, body, bb) is None and not body.back_edges():
                    # a method of a private holder of the two structures (`structures.add_edge(from, to, w)`): it does its
                    # insertion unconditionally (apart from `?` on an earlier insertion); the iteration is at its call sites
                    gs_ = [g for g in cond_guards(body, bb) if not any(
                        c.kind == "call" and c[1] == "std::ops::Try::branch" for c in walk_expr(strip_refs(g[1])))]
                    csites = [(cb, cbb, ct) for (cb, cbb, ct) in fl.call_sites().get(body.id, []) if cb.id in reach_ids]
                    if not gs_ and csites:
                        wk = None
                        if p == ADD_EDGE:
                            ws_ = [x for x in fl.sources_operand(body, t["args"][3], (), "prov@" + body.id) if x.kind == "param" and x[1] == body.id and not x[3]]
                            wk = ws_[0][2] if len(ws_) == 1 else None
                        for (cb, cbb, ct) in csites:
                            wop = ct["args"][wk - 1] if wk is not None and wk - 1 < len(ct["args"]) else None
                            work.append((cb, cbb, t, "%s|%s" % (p.split("::")[-1], short(body.id)), wop))
                        continue
                work.append((body, bb, t, "%s|%s" % (p.split("::")[-1], short(body.id)), t["args"][3] if p == ADD_EDGE else None))
    for (body, bb, t, key, wop) in work:
        if True:
            p = callee_path(t)
            if True:
                n += 1
                # `first.add_edge(..).and_then(|_| second.add_edge(..))`: the second insertion happens whenever the first succeeded
                # (the same error path as `?`): it stands where the and_then is called
                wbody = body
                for _hop in range(3):
                    if body.kind != "closure" or cond_guards(body, bb):
                        break
                    uses_ = fl.closure_uses(body)
                    if len(uses_) != 1 or not (callee_path(uses_[0][2]) or "").endswith("Result::<T, E>::and_then"):
                        break
                    recv_ = strip_refs(expr_operand(uses_[0][0], uses_[0][2]["args"][0]))
                    if not (recv_.kind == "call" and recv_[1] == ADD_EDGE):
                        break
                    body, bb = uses_[0][0], uses_[0][1]
                where = m.where(body, bb)
                # in a closure consumed by (try_)for_each over raw_edges()/raw_nodes() with no filters
                x = body
                ok = False
                why = "not inside an iteration over raw_edges()/raw_nodes()"
                lr_ = loop_region(ctx, body, bb)
                if lr_ is not None and lr_["driver"] == "sync":
                    # `for edge in graph.raw_edges()` / `for _ in 0..graph.node_count()`
                    chain = iterator_chain(ctx, body, lr_["iter_expr"]) if lr_.get("iter_expr") is not None else []
                    names = [c[0] for c in chain]
                    srcs = [c for c in names if c in ("daggy::Dag::<N, E, Ix>::raw_edges", "daggy::Dag::<N, E, Ix>::raw_nodes")]
                    sel = [c for c in names if c in SELECTIVE_ITER]
                    rng = [c for c in chain if c[0] == "leaf:agg" and c[2][2] == "std::ops::Range"]
                    full_range = False
                    if rng and "add_node" in p:
                        r_ = rng[0][2]
                        full_range = is_const(strip_refs(r_[4][0]), 0) and strip_refs(r_[4][1]).kind == "call" and strip_refs(r_[4][1])[1] in NODE_COUNT_FNS
                    exits_ok = True
                    for (xb, sb_) in lr_["early_exits"]:
                        # leaving the copy loop is fine only on the error path of the insertion itself (`?`: WouldCycle cannot occur
                        # for edges copied from a DAG)
                        fr_ = [bb2 for bb2, t2 in body.calls() if callee_path(t2) == "std::ops::FromResidual::from_residual"]
                        if not fr_ or not body.all_paths_pass(sb_, fr_, body.exits()):
                            exits_ok = False
                    if (srcs or full_range) and not sel and exits_ok:
                        ok = True
                    else:
                        why = "loop over %s%s" % (names, "" if exits_ok else " with an early exit")
                elif x.kind == "closure":
                    uses = fl.closure_uses(x)
                    if len(uses) == 1:
                        pb, ubb, ut, ai = uses[0]
                        chain = iterator_chain(ctx, pb, expr_operand(pb, ut["args"][0]))
                        names = [c[0] for c in chain]
                        srcs = [c for c in names if c in ("daggy::Dag::<N, E, Ix>::raw_edges", "daggy::Dag::<N, E, Ix>::raw_nodes")]
                        sel = [c for c in names if c in SELECTIVE_ITER]
                        rng = [c for c in chain if c[0] == "leaf:agg" and c[2][2] == "std::ops::Range"]
                        full_range = False
                        if rng and "add_node" in p:
                            # `(0..graph.node_count()).for_each(|_| structure.add_node(()))`
                            r_ = rng[0][2]
                            full_range = is_const(strip_refs(r_[4][0]), 0) and strip_refs(r_[4][1]).kind == "call" and strip_refs(r_[4][1])[1] in NODE_COUNT_FNS
                        if (srcs or full_range) and not sel and callee_path(ut) in ("std::iter::Iterator::for_each", "std::iter::Iterator::try_for_each", "std::iter::Iterator::fold") \
                                and not cond_guards(x, bb):
                            ok = True
                        elif srcs and not sel:
                            ok = True
                        else:
                            why = "iteration chain %s" % names
                        # the iteration is over a parameter of a private helper (an edge iterator / a node count): what the
                        # helper's call sites in build() pass must be all raw edges / the node count of the graph
                        if not ok and not sel and pb.kind == "fn" and pb.id != b.id:
                            leaf = chain[-1] if chain else None
                            pidx = None
                            if leaf is not None and leaf[0] == "leaf:arg":
                                pidx = leaf[2][1]
                            elif leaf is not None and leaf[0] == "leaf:agg" and leaf[2][2] == "std::ops::Range" and "add_node" in p:
                                hi_ = strip_refs(leaf[2][4][1])
                                if is_const(strip_refs(leaf[2][4][0]), 0) and hi_.kind == "arg":
                                    pidx = hi_[1]
                            reach_ids = {y.id for y in build_reach(ctx)}
                            csites = [(cb, cbb, ct) for (cb, cbb, ct) in fl.call_sites().get(pb.id, []) if cb.id in reach_ids]
                            if pidx is not None and csites:
                                all_ok = True
                                for cb, cbb, ct in csites:
                                    ae = strip_refs(expr_operand(cb, ct["args"][pidx - 1]))
                                    if "add_node" in p:
                                        if not (ae.kind == "call" and ae[1] in NODE_COUNT_FNS):
                                            all_ok = False
                                            why = "helper %s is given `%s` as node count" % (short(pb.id), fmt_expr(ae, cb))
                                    else:
                                        ch2 = iterator_chain(ctx, cb, ae)
                                        n2 = [c[0] for c in ch2]
                                        if not [c for c in n2 if c == "daggy::Dag::<N, E, Ix>::raw_edges"] or [c for c in n2 if c in SELECTIVE_ITER or c == "std::iter::Iterator::rev"]:
                                            all_ok = False
                                            why = "helper %s is given the edge iterator %s" % (short(pb.id), n2)
                                    if cond_guards(cb, cbb):
                                        all_ok = False
                                        why = "helper %s is called conditionally" % short(pb.id)
                                if all_ok:
                                    ok = True
                                    n += len(csites) - 1
                # unconditional within the closure except for `?` on a previous add_edge
                gs = []
                for sb, de, vals in cond_guards(body, bb):
                    if lr_ is not None and lr_.get("switch_bb") == sb:
                        continue
                    e = strip_refs(de)
                    srcs2 = sources_of_expr(ctx, body, e[1] if e.kind == "discr" else e, mode="taint")
                    if any(s.kind == "alloc" and s[4] in (ADD_EDGE,) for s in srcs2):
                        continue   # `?` on the sibling add_edge
                    gs.append(fmt_expr(e, body))
                ctx.check(ok and not gs, rule, key, where,
                          "structure copy: %s executed for every raw %s, unconditionally" % (p.split("::")[-1], "edge" if "edge" in p else "node"),
                          "structure copy is conditional / partial: %s %s" % (why, gs))
                if p == ADD_EDGE:
                    w = strip_refs(expr_operand(wbody, wop)) if wop is not None else E(("unknown", "weight not passed through"))
                    wsrc = sources_of_expr(ctx, wbody, w)
                    ctx.check(all(s.kind in ("alloc", "closure_param", "param") for s in wsrc) and
                              any("raw_edges" in str(s) for s in wsrc) or w.kind == "field" or
                              (bool(wsrc) and all(s.kind == "param" and "edge::Edge" in ctx.fb.bodies[s[1]].locals[s[2]]["s"] for s in wsrc)),
                              rule, "weight|%s" % key, where,
                              "the copied edge keeps the weight of the raw edge", "copied edge weight is %s" % fmt_expr(w, wbody))
    ctx.check(n >= 4, rule, "count", m.where(b), "2 add_node + 2 add_edge structure copies found", "expected 4 structure-copy calls, found %d" % n)
    # every structure that receives edges receives the nodes too (and the other way round): nodes inserted twice into one copy
    # and never into the other leave a copy whose edge insertions index past its nodes
    tn = {r for r, _, _ in targets["add_node"] if r}
    te = {r for r, _, _ in targets["add_edge"] if r}
    if tn and te:
        miss = [(r, bx, bbx) for (r, bx, bbx) in targets["add_edge"] if r and r not in tn]
        dup = len(targets["add_node"]) != len(tn) and len(tn) < len(te)
        ctx.check(not miss and not dup, rule, "nodes-per-structure", m.where(miss[0][1], miss[0][2]) if miss else m.where(b),
                  "each structure copy that receives the edges also receives one node per function (%d copies)" % len(te),
                  "a structure copy receives edges but no nodes (the nodes are inserted into the other copy%s): its edge insertions "
                  "index past its nodes" % (" twice" if dup else ""))


def R5(ctx, rule="R5"):
    """access tables agree: every DataAccess/DataAccessDyn impl in the crate"""
    fb = ctx.fb
    n = 0
    for b in fb.prod_bodies():
        sig = fb.fns.get(b.id)
        if not sig or sig.get("impl_trait") not in ("data_access::DataAccess", "data_access::DataAccessDyn"):
            continue
        name = sig["name"]
        self_ty = sig.get("impl_self", "")
        n += 1
        where = ctx.model.where(b)
        key = "%s|%s|%s" % (sig["impl_trait"].split("::")[-1], self_ty, name)
        # what does the body return?
        pushes = [(bb, t) for bb, t in b.calls() if (callee_path(t) or "").endswith("::push")]
        delegates = [(bb, t) for bb, t in b.calls() if (callee_path(t) or "").startswith("fn_meta::")]
        typeids = [(bb, t) for bb, t in b.calls() if (callee_path(t) or "") == "std::any::TypeId::of"]
        if delegates:
            dn = callee_path(delegates[0][1]).split("::")[-1]
            ctx.check(len(delegates) == 1 and dn == name, rule, key, where,
                      "%s delegates to the same-named fn_meta method" % name,
                      "%s delegates to `%s`: read and write declarations are swapped" % (name, dn))
            continue
        READERS = ("data_access::r::R<", "resman::Ref<")          # with feature `resman`, R/W are aliases of resman's guards
        WRITERS = ("data_access::w::W<", "resman::RefMut<")
        if self_ty.startswith(READERS) or self_ty.startswith(WRITERS):
            is_r = self_ty.startswith(READERS)
            want_nonempty = (name == "borrows") == is_r
            if want_nonempty:
                targ = typeids[0][1]["callee"]["targs"][0]["s"] if typeids else None
                ctx.check(len(pushes) == 1 and len(typeids) == 1 and targ == "T", rule, key, where,
                          "%s::%s declares exactly TypeId::of::<T>()" % ("R" if is_r else "W", name),
                          "%s::%s does not declare exactly {T}: pushes=%d typeids=%d" % ("R" if is_r else "W", name, len(pushes), len(typeids)))
            else:
                ctx.check(not pushes and not typeids, rule, key, where,
                          "%s::%s declares nothing" % ("R" if is_r else "W", name),
                          "%s::%s declares a type: a reader is treated as writer or vice versa" % ("R" if is_r else "W", name))
        else:
            ctx.check(not pushes and not typeids, rule, key, where, "%s::%s declares nothing" % (self_ty, name),
                      "%s::%s declares types" % (self_ty, name))
    ctx.counts[rule] = n
    floor = 2 if "fn_meta" in fb.features else 16
    if n < floor:
        ctx.unverifiable(rule, "floor", "-", "expected >= %d access-table method bodies, found %d" % (floor, n))


# ---------------------------------------------------------------------------
# C06.W1 / C11.B2, B3

def W1(ctx, rule="W1"):
    """who may add edges / mutate the user's graph in build()"""
    m = ctx.model
    sites = data_edge_sites(ctx)
    b0 = build_body(ctx)
    if b0 is None:
        ctx.unverifiable(rule, "build", "-", "build() not found")
        return
    n_upd = 0
    for (b, bb, t, p) in sites:
        where = m.where(b, bb)
        if p == UPDATE_EDGE or p == ADD_EDGE:
            w = strip_refs(expr_operand(b, t["args"][3]))
            is_data = w.kind == "agg" and w[2] == "edge::Edge" and w[3] == "Data"
            n_upd += 1
            ctx.check(is_data, rule, "weight|%s" % short(b.id), where,
                      "the only edge added to the user's graph by build() has the constant kind Edge::Data",
                      "build() adds an edge of kind `%s` to the user's graph" % fmt_expr(w, b))
        else:
            ctx.bad(rule, "mutator|%s|%s" % (short(b.id), p.split("::")[-1]), where,
                    "build() changes the user's node/edge set with %s" % p)
    ctx.check(n_upd == 1, rule, "count", m.where(b0), "exactly one edge-adding site on the user's graph", "%d edge-adding sites on the user's graph" % n_upd)
    # DerefMut escapes: &mut Dag<F> passed to a foreign function other than the above
    for b in build_reach(ctx):
        for bb, t in b.calls():
            p = callee_path(t) or ""
            if p in ctx.fb.bodies or p in DAG_MUTATORS:
                continue
            for a in t["args"]:
                ty = a.get("pl", {}).get("ty", "")
                if ty.startswith("&mut daggy::Dag<F,") or ty.startswith("&mut daggy::petgraph::Graph<F,") or \
                        ty.startswith("&mut daggy::petgraph::graph::Graph<F,"):
                    if p in ("std::ops::IndexMut::index_mut", "daggy::Dag::<N, E, Ix>::node_weights_mut",
                             "daggy::Dag::<N, E, Ix>::node_weight_mut"):
                        continue
                    ctx.bad(rule, "escape|%s|%s" % (short(b.id), p.split("::")[-1]), m.where(b, bb),
                            "the user's graph is passed mutably to %s inside build()" % p)


def B3(ctx, rule="B3"):
    cm = conflict_model(ctx)
    if "error" in cm:
        ctx.unverifiable(rule, "site", "-", cm["error"])
        return
    b, bb, t, p = cm["site"]
    ctx.check(p == UPDATE_EDGE or p == ADD_EDGE, rule, "insert-fn", ctx.model.where(b, bb), "insertion through %s" % p.split("::")[-1], "")
    # has-path guard is checked by R2.has-path; here: it must exist
    if "pcs" not in cm:
        R1_truth_table(ctx, rule + ".tt", cm)
        ctx.obs = [o for o in ctx.obs if o.rule != rule + ".tt"]
    hp = [s for s in cm.get("other_syms", []) if s[0] == "call" and callee_path(b.blocks[s[1]]["term"]) == HAS_PATH]
    ctx.check(bool(hp), rule, "has-path-guard", ctx.model.where(b, bb),
              "the Data-edge insertion is guarded by has_path_connecting (never overwrites / duplicates an existing ordering)",
              "the Data-edge insertion is not guarded by has_path_connecting: update_edge would overwrite a user edge's kind; redundant edges are added")


# adaptors that change the order in which the functions of a batch are inserted (insertion order is observable: iter_insertion, FnId)
REORDER_ITER = ("std::iter::Iterator::rev", "std::iter::Iterator::cycle", "std::iter::Iterator::chain")
ADD_NODE = ("daggy::Dag::<N, E, Ix>::add_node", "petgraph::graph::Graph::<N, E, Ty, Ix>::add_node",
            "petgraph::stable_graph::StableGraph::<N, E, Ty, Ix>::add_node")


def ID_rules(ctx, rule="ID"):
    """every FnId a public builder method hands back is the NodeIndex that add_node returned for that function:
    returned scalar = add_node's result; returned array/collection = placeholder elements each overwritten (through an
    iter_mut item) by an add_node result, or a collection of add_node results."""
    fb, m, fl = ctx.fb, ctx.model, ctx.model.flow
    n = 0
    for b in fb.prod_bodies():
        sig = fb.fns.get(b.id)
        if not sig or b.kind == "closure" or not (sig.get("impl_self") or "").startswith("fn_graph_builder::FnGraphBuilder"):
            continue
        out = sig["output"]["s"]
        if "NodeIndex" not in out or sig.get("vis") != "Public":
            continue
        n += 1
        scalar = out.startswith("daggy::NodeIndex") or out.startswith("petgraph::graph::NodeIndex")
        srcs = fl.sources_local(b, 0, ())
        where = b.id
        bad, placeholders = [], []
        # private helpers called from this method (`try_map_array(items, |f| ..)`) may own the array being filled
        helpers = {}
        for bx in [b] + [x for x in fb.prod_bodies() if x.kind == "closure" and x.id.startswith(b.id + "::")]:
            for hbb, ht in bx.calls():
                hp = callee_path(ht)
                if hp in fb.bodies and fb.bodies[hp].kind == "fn" and not (fb.fns.get(hp) or {}).get("public") and hp != b.id:
                    helpers.setdefault(hp, []).append((bx, hbb, ht))
        for s_ in srcs:
            if s_.kind == "alloc" and s_[4] in ADD_NODE:
                continue
            if not scalar and s_.kind == "alloc" and (s_[1] == b.id or s_[1] in helpers) and s_[4] in ("std::default::Default::default",):
                placeholders.append(s_)
                continue
            if not scalar and s_.kind == "const":
                placeholders.append(s_)
                continue
            bad.append(fmt_src(s_))
        if not srcs:
            bad.append("no source found")
        over = []
        if placeholders and not bad:
            # every placeholder element is overwritten: `*slot = id` where slot is an iter_mut item of the returned array
            # and id an add_node result, inside an unfiltered zip/for_each
            pk = {(s_[1], s_[2]) for s_ in placeholders if s_.kind == "alloc"}
            for cb in fb.prod_bodies():
                if cb.kind != "closure" or not cb.id.startswith(b.id + "::"):
                    continue
                for bb, si, st in cb.stmts():
                    if st["k"] != "assign" or st["pl"]["p"] != ["*"] or "NodeIndex" not in st["pl"].get("ty", ""):
                        continue
                    tsrc = fl.sources_local(cb, st["pl"]["l"], ())
                    t_ok = bool(tsrc) and all(x.kind == "alloc" and (x[1], x[2]) in pk and "$item" in x[3] for x in tsrc)
                    if not t_ok:
                        continue
                    vsrc = fl.sources_operand(cb, st["rv"]["op"]) if st["rv"]["k"] == "use" else frozenset()
                    v_ok = bool(vsrc) and all(x.kind == "alloc" and x[4] in ADD_NODE for x in vsrc)
                    uses = fl.closure_uses(cb)
                    drv_ok = len(uses) == 1 and callee_path(uses[0][2]) == "std::iter::Iterator::for_each" and not cond_guards(cb, bb)
                    sel = []
                    if drv_ok:
                        ub, ubb, ut, ai = uses[0]
                        sel = [c[0] for c in iterator_chain(ctx, ub, expr_operand(ub, ut["args"][0])) if c[0] in SELECTIVE_ITER or c[0] in REORDER_ITER]
                    over.append((v_ok and drv_ok and not sel, "slot <- %s%s" % (sorted(fmt_src(x) for x in vsrc)[:2], " narrowed by %s" % sel if sel else "")))
            # `for (f, slot) in fns.into_iter().zip(ids.iter_mut()) { *slot = self.add_fn(f); }` in the method's own body
            for bb, si, st in b.stmts():
                if st["k"] != "assign" or st["pl"]["p"] != ["*"] or "NodeIndex" not in st["pl"].get("ty", ""):
                    continue
                tsrc = fl.sources_local(b, st["pl"]["l"], ())
                if not (tsrc and all(x.kind == "alloc" and (x[1], x[2]) in pk and "$item" in x[3] for x in tsrc)):
                    continue
                vsrc = fl.sources_operand(b, st["rv"]["op"]) if st["rv"]["k"] == "use" else frozenset()
                v_ok = bool(vsrc) and all(x.kind == "alloc" and x[4] in ADD_NODE for x in vsrc)
                lr_ = loop_region(ctx, b, bb)
                sel = ["not in a loop"]
                if lr_ is not None:
                    sel = [c[0] for c in iterator_chain(ctx, b, lr_["iter_expr"]) if c[0] in SELECTIVE_ITER or c[0] in REORDER_ITER] if lr_.get("iter_expr") is not None else []
                    if lr_["early_exits"]:
                        sel.append("early exit")
                    if [g for g in cond_guards(b, bb) if g[0] in lr_["blocks"] and g[0] != lr_.get("switch_bb")]:
                        sel.append("conditional")
                over.append((v_ok and not sel, "slot <- %s%s" % (sorted(fmt_src(x) for x in vsrc)[:2], " (%s)" % sel if sel else "")))
            for hp, hsites in sorted(helpers.items()):
                hb = fb.bodies[hp]
                for bb, si, st in hb.stmts():
                    if st["k"] != "assign" or st["pl"]["p"] != ["*"]:
                        continue
                    tsrc = fl.sources_local(hb, st["pl"]["l"], ())
                    if not (tsrc and all(x.kind == "alloc" and (x[1], x[2]) in pk and "$item" in x[3] for x in tsrc)):
                        continue
                    summ = fl.sources_operand(hb, st["rv"]["op"], (), "prov@" + hp) if st["rv"]["k"] == "use" else frozenset()
                    v_ok = bool(summ)
                    seen_v = set()
                    for (cbx, cbb, ct) in hsites:
                        inst = fl.instantiate_summary(cbx, ct, hp, summ)
                        seen_v |= {fmt_src(x) for x in inst}
                        if not inst or not all(x.kind == "alloc" and x[4] in ADD_NODE for x in inst):
                            v_ok = False
                    lr_ = loop_region(ctx, hb, bb)
                    sel = []
                    if lr_ is not None and lr_.get("iter_expr") is not None:
                        sel = [c[0] for c in iterator_chain(ctx, hb, lr_["iter_expr"]) if c[0] in SELECTIVE_ITER or c[0] in REORDER_ITER]
                    over.append((v_ok and not sel, "slot <- %s (through helper %s)%s" % (sorted(seen_v)[:2], short(hp), " narrowed by %s" % sel if sel else "")))
            if not over:
                bad.append("placeholder elements are never overwritten with add_node results")
            elif not all(o[0] for o in over):
                bad.append("placeholder overwrite not established: %s" % [o[1] for o in over if not o[0]])
        ctx.check(not bad, rule, "returned-id|%s" % b.id.split("::")[-1], where,
                  "the id(s) returned by %s are the NodeIndex values add_node produced for the inserted functions" % b.id.split("::")[-1],
                  "%s returns ids that are not the ones add_node assigned: %s" % (b.id.split("::")[-1], "; ".join(bad)))
    ctx.floor(rule, 2, "public FnGraphBuilder methods returning FnId(s)")


PANICKY_BINOPS = ("SubWithOverflow", "MulWithOverflow", "Div", "Rem", "ShlWithOverflow", "ShrWithOverflow", "Shl", "Shr", "Sub", "Mul",
                  "SubUnchecked", "MulUnchecked", "ShlUnchecked", "ShrUnchecked")
PANIC_CALLS = ("std::rt::begin_panic", "std::panicking::panic", "std::panicking::panic_fmt", "std::panicking::panic_explicit",
               "std::panicking::unreachable_display", "std::panicking::panic_display", "std::panicking::assert_failed",
               "std::rt::panic_fmt", "std::panicking::panic_nounwind", "std::option::unwrap_failed", "std::result::unwrap_failed",
               "std::panicking::panic_const")
UNWRAPPERS = ("std::option::Option::<T>::unwrap", "std::option::Option::<T>::expect", "std::result::Result::<T, E>::unwrap",
              "std::result::Result::<T, E>::expect", "std::result::Result::<T, E>::unwrap_err", "std::result::Result::<T, E>::expect_err")


def P1(ctx, rule="P1", scope="build"):
    """Panic-site inventory of build(): in the bodies reachable from build()
    there is no arithmetic that can trap (subtraction, multiplication, division,
    shift: only `+ 1` style additions bounded by the node/edge count), no
    explicit panic/assert, no unwrap/expect other than on the Result of an edge
    insertion (whose unreachability is the acyclicity argument), and slices are
    taken only as list[i..] with i an enumeration index of that list."""
    m, fl = ctx.model, ctx.model.flow
    b0 = build_body(ctx)
    if b0 is None:
        ctx.unverifiable(rule, "build", "-", "build() not found")
        return
    n_arith = n_unwrap = n_slice = 0
    bodies = build_reach(ctx)
    if scope == "api":
        # the same inventory over the other public methods of the builder (add_fn(s), add_*_edge(s)): an accepted edge or
        # function must not be able to panic either
        ids = set()
        for f in ctx.fb.fns.values():
            if (f.get("impl_self") or "").startswith("fn_graph_builder::FnGraphBuilder<") and not f.get("impl_trait") and f.get("public") and \
                    f["id"] != b0.id and f["id"] in ctx.fb.bodies:
                ids |= set(m.reach(f["id"]))
        ids -= {x.id for x in bodies}
        bodies = [ctx.fb.bodies[i] for i in sorted(ids) if not ctx.fb.is_test_body(ctx.fb.bodies[i])]
    for b in bodies:
        for bb, si, s_ in b.stmts():
            if s_["k"] != "assign" or s_["rv"]["k"] != "binop":
                continue
            op = s_["rv"]["op"]
            if op in ("AddWithOverflow", "Add", "AddUnchecked"):
                n_arith += 1
                continue
            if op not in PANICKY_BINOPS:
                continue
            ty = s_["rv"]["a"].get("pl", {}).get("ty") or s_["rv"]["a"].get("ty") or ""
            n_arith += 1
            # guarded by a comparison of the left operand (x > 0, x != 0, x >= y)?
            a = strip_refs(expr_operand(b, s_["rv"]["a"]))
            guarded = False
            for sb, de, vals in cond_guards(b, bb):
                e = strip_refs(de)
                if e.kind == "binop" and e[1] in ("Gt", "Ge", "Ne", "Lt", "Le", "Eq") and (strip_refs(e[2]) == a or strip_refs(e[3]) == a):
                    guarded = True
            ctx.check(guarded, rule, "arith|%s|%s" % (short(b.id), op), m.where(b, bb, si),
                      "`%s` in build() is guarded by a comparison of its left operand" % op,
                      "%s evaluates `%s` on `%s` with no guard on that operand: it traps (debug) or wraps (release) for some graph or call sequence, e.g. the empty one" % (
                          "build()" if scope == "build" else "a public builder method (%s)" % short(b.id), op, fmt_expr(a, b)))
        for bb, t in b.calls():
            p = callee_path(t) or ""
            where = m.where(b, bb)
            if p in PANIC_CALLS or p.startswith("std::panicking::") or p.startswith("core::panicking::"):
                ctx.bad(rule, "panic|%s" % short(b.id), where, "build() can reach an explicit panic/assert (%s)" % p)
            elif p in UNWRAPPERS:
                n_unwrap += 1
                ty = t["args"][0].get("pl", {}).get("ty", "") if isinstance(t["args"][0], dict) else ""
                ctx.check("daggy::WouldCycle<" in ty, rule, "unwrap|%s|%s" % (short(b.id), p.split("::")[-1]), where,
                          "the only unwrap/expect sites in build() are on the Result of an edge insertion (WouldCycle; unreachable by the rank argument)",
                          "build() unwraps a `%s`: a new panic path" % ty)
            elif p in ("std::ops::Index::index", "std::ops::IndexMut::index_mut") and len(t["args"]) == 2:
                ity = t["args"][1].get("pl", {}).get("ty", "") if isinstance(t["args"][1], dict) else (t["args"][1].get("ty", "") if isinstance(t["args"][1], dict) else "")
                if "std::ops::Range" not in ity:
                    continue
                n_slice += 1
                rng = strip_refs(expr_operand(b, t["args"][1]))
                ok = False
                why = "range `%s`" % fmt_expr(rng, b)
                if ity.startswith("std::ops::RangeFull"):
                    ok = True
                elif ity.startswith("std::ops::RangeFrom<") and rng.kind == "agg":
                    st0 = strip_plus_one(strip_refs(rng[4][0]))      # list[i + 1..] with i < len is within bounds as well
                    rng = E((rng[0], rng[1], rng[2], rng[3], (st0,) + tuple(rng[4][1:])))
                    srcs = sources_of_expr(ctx, b, strip_refs(rng[4][0]))
                    ok = bool(srcs) and all(s2.kind == "alloc" and s2[4] == "std::iter::Iterator::enumerate" and "$item" in s2[3] for s2 in srcs)
                    if not ok:
                        ok = bool(srcs) and all(s2.kind == "const" and str(s2[1]) == "0" for s2 in srcs)
                    if not ok:
                        # a position produced by iterating `0..list.len()` of the very list that is sliced
                        st_e = strip_refs(rng[4][0])
                        ip = loop_item_path(st_e)
                        rr = None
                        if ip is not None and ip[1] == ():
                            lr2 = None
                            for (src_, hdr_) in b.back_edges():
                                pass
                            ch2 = iterator_chain(ctx, b, strip_refs(b_next_iter(b, ip[0])))
                            rr = [c for c in ch2 if c[0] == "leaf:agg" and c[2][2] == "std::ops::Range"]
                            sel2 = [c[0] for c in ch2 if c[0] in SELECTIVE_ITER]
                            if rr and not sel2:
                                lo_, hi_ = strip_refs(rr[0][2][4][0]), strip_refs(rr[0][2][4][1])
                                if is_const(lo_, 0) and hi_.kind == "call" and hi_[1].split("::")[-1] == "len" and hi_[2]:
                                    l1 = {(x[1], x[2]) for x in sources_of_expr(ctx, b, hi_[2][0]) if x.kind == "alloc" and not x[3]}
                                    l2 = {(x[1], x[2]) for x in sources_of_expr(ctx, b, strip_refs(expr_operand(b, t["args"][0]))) if x.kind == "alloc" and not x[3]}
                                    ok = bool(l1) and l1 == l2
                    if not ok and srcs:
                        # ... or a closure parameter fed by `(0..list.len())`: every source is that range / its bounds
                        l2 = {(x[1], x[2]) for x in sources_of_expr(ctx, b, strip_refs(expr_operand(b, t["args"][0]))) if x.kind == "alloc" and not x[3]}
                        okr = True
                        seen_range = False
                        for s2 in srcs:
                            if s2.kind == "agg" and s2[4] == "std::ops::Range":
                                st2 = ctx.fb.bodies[s2[1]].blocks[s2[2]]["stmts"][s2[3]]
                                bx2 = ctx.fb.bodies[s2[1]]
                                lo_ = strip_refs(expr_operand(bx2, st2["rv"]["ops"][0]))
                                hi_ = strip_refs(expr_operand(bx2, st2["rv"]["ops"][1]))
                                l1 = {(x[1], x[2]) for x in sources_of_expr(ctx, bx2, hi_[2][0]) if x.kind == "alloc" and not x[3]} \
                                    if hi_.kind == "call" and hi_[1].split("::")[-1] == "len" and hi_[2] else set()
                                if is_const(lo_, 0) and l1 and l1 == l2:
                                    seen_range = True
                                else:
                                    okr = False
                            elif s2.kind == "const" and str(s2[1]) == "0":
                                continue
                            elif s2.kind == "alloc" and s2[4].split("::")[-1] == "len":
                                continue        # the range's upper bound (never yielded itself)
                            else:
                                okr = False
                        ok = okr and seen_range
                    why = "start of `%s` comes from %s" % (fmt_expr(rng, b), [fmt_src(x) for x in srcs][:3])
                ctx.check(ok, rule, "slice|%s" % short(b.id), where,
                          "slice taken as list[i..] with i an index produced by enumerate(): always within bounds",
                          "build() slices with a computed bound (%s): out of range for some graph" % why)
    ctx.ok(rule, "inventory", m.where(b0), "%d bodies reachable from build(): %d arithmetic ops, %d unwrap/expect sites, %d slice sites inspected" % (
        len(bodies), n_arith, n_unwrap, n_slice))
    if scope == "api":
        if len(bodies) < 4:
            ctx.unverifiable(rule, "floor", m.where(b0), "expected the bodies of at least four public builder methods, found %d" % len(bodies))
    elif n_unwrap < 2 or n_arith < 1:
        ctx.unverifiable(rule, "floor", m.where(b0), "expected >= 2 expect sites and >= 1 addition in build()'s reach, found %d / %d" % (n_unwrap, n_arith))


# ---------------------------------------------------------------------------
# C12

STABLE_SORTS = ("std::slice::<impl [T]>::sort_by", "std::slice::<impl [T]>::sort_by_key", "std::slice::<impl [T]>::sort",
                "std::slice::<impl [T]>::sort_by_cached_key")
UNSTABLE_SORTS = ("std::slice::<impl [T]>::sort_unstable_by", "std::slice::<impl [T]>::sort_unstable_by_key",
                  "std::slice::<impl [T]>::sort_unstable")


def augment_body(ctx):
    cm = conflict_model(ctx)
    if "error" in cm:
        return None
    b = enum_frame(ctx, cm)["body"]
    while b.kind == "closure" and b.parent:
        b = ctx.fb.bodies[b.parent]
    return b


def enum_frame(ctx, cm):
    """The body in which the pair (a, b) is enumerated.  Normally the body of
    the insertion itself; when the per-pair work was extracted into a private
    function taking the two ids as parameters, the (single) call site of that
    function, with a and b rewritten to the caller's argument expressions."""
    fl, fb = ctx.model.flow, ctx.fb
    b, bb, t, p = cm["site"]
    a_e, b_e = cm["a"], cm["b"]
    hops = 0
    while b.kind == "fn" and loop_region(ctx, b, bb) is None and a_e.kind == "arg" and b_e.kind == "arg" and hops < 3:
        hops += 1
        reach = {x.id for x in build_reach(ctx)}
        callers = [(cb, cbb, ct) for (cb, cbb, ct) in fl.call_sites().get(b.id, []) if cb.id in reach and not fb.is_test_body(cb)]
        if len(callers) != 1:
            break
        cb, cbb, ct = callers[0]
        args = [strip_refs(expr_operand(cb, x)) for x in ct["args"]]
        if not (1 <= a_e[1] <= len(args) and 1 <= b_e[1] <= len(args)):
            break
        a_e, b_e = args[a_e[1] - 1], args[b_e[1] - 1]
        b, bb = cb, cbb
    return {"body": b, "bb": bb, "a": a_e, "b": b_e}


def D1(ctx, rule="D1"):
    m, fl = ctx.model, ctx.model.flow
    ab = augment_body(ctx)
    if ab is None:
        ctx.unverifiable(rule, "augment", "-", "augmenter not found")
        return
    sorts = [(bb, t) for bb, t in ab.calls() if callee_path(t) in STABLE_SORTS + UNSTABLE_SORTS]
    if not sorts:
        # the sorted list is produced by a private helper of the augmenter
        for hid in sorted(m.reach_calls(ab.id)):
            hb = ctx.fb.bodies[hid]
            hs = [(bb, t) for bb, t in hb.calls() if callee_path(t) in STABLE_SORTS + UNSTABLE_SORTS]
            if hs and hb.kind == "fn":
                ab = hb
                sorts = hs
                break
    if len(sorts) != 1:
        ctx.bad(rule, "sort-count", m.where(ab), "expected exactly one sort of the id list in the augmenter, found %d" % len(sorts))
        return
    bb, t = sorts[0]
    where = m.where(ab, bb)
    p = callee_path(t)
    ctx.check(p in STABLE_SORTS, rule, "stable", where, "the id list is sorted with a stable sort (%s): equal ranks keep insertion order" % p.split("::")[-1],
              "the id list is sorted with %s: the tie-break by insertion order is lost" % p.split("::")[-1])
    # the list: ascending ids
    lsrc = fl.sources_operand(ab, t["args"][0])
    coll = [s for s in lsrc if s.kind == "alloc" and s[4] == "std::iter::Iterator::collect"]
    ok_list = False
    why = "list is not a collect() of 0..node_count mapped to ids"
    if len(coll) == 1 and len(lsrc) == 1 and coll[0][1] == ab.id:
        ct = ab.blocks[coll[0][2]]["term"]
        chain = iterator_chain(ctx, ab, expr_operand(ab, ct["args"][0]))
        names = [c[0] for c in chain]
        if names[:1] == ["std::iter::Iterator::map"] and not [n for n in names if n in SELECTIVE_ITER or n == "std::iter::Iterator::rev"]:
            f = chain[0][2][2][1]
            src = strip_refs(chain[0][2][2][0])
            is_new = f.kind == "fnconst" and f[1].endswith("NodeIndex::<Ix>::new")
            is_range = src.kind == "agg" and src[2] in ("std::ops::Range",) and is_const(src[4][0], 0) and \
                src[4][1].kind == "call" and src[4][1][1] in NODE_COUNT_FNS
            ok_list = is_new and is_range
            if not ok_list:
                why = "list is %s over %s" % (fmt_expr(f, ab), fmt_expr(src, ab))
        elif names and names[0] in ("daggy::petgraph::Graph::<N, E, Ty, Ix>::node_indices",):
            ok_list = True
        elif ranges_all_nodes(chain) and not [n for n in names if n in SELECTIVE_ITER or n == "std::iter::Iterator::rev"] and \
                len([n for n in names if n == "std::iter::Iterator::map"]) <= 1:
            ok_list = True      # the same enumeration behind a private helper (`fn_ids_all(graph)`)
        else:
            why = "list chain is %s" % names
    cm_list = coll
    ctx.check(ok_list, rule, "ascending-list", where, "the list is built in ascending id (= insertion) order: (0..node_count).map(NodeIndex::new)", why)
    # comparator / key
    fcl = closure_of_arg(ctx, ab, expr_operand(ab, t["args"][1])) if len(t["args"]) > 1 else None
    if fcl is None:
        ctx.check(p.endswith("::sort"), rule, "comparator", where, "natural order", "comparator closure not found")
        return
    re_ = return_expr(fcl)
    ok_cmp = False
    why = "comparator is `%s`" % (fmt_expr(re_, fcl) if re_ is not None else "?")
    ranks_param = None
    if re_ is not None and p.endswith("sort_by") and re_.kind == "call" and re_[1] in ("std::cmp::Ord::cmp", "std::cmp::PartialOrd::partial_cmp"):
        l, r = strip_refs(re_[2][0]), strip_refs(re_[2][1])
        el, er = rank_elem(l), rank_elem(r)
        if el and er:
            li = strip_refs(el[1])
            ri = strip_refs(er[1])
            # first parameter on the left
            lp = [x for x in walk_expr(li) if x.kind == "arg"]
            rp = [x for x in walk_expr(ri) if x.kind == "arg"]
            same_c = el[0] == er[0]
            csrc = sources_of_expr(ctx, fcl, el[0])
            rcb = rank_calc_body(ctx)
            is_ranks = bool(csrc) and all((s.kind == "alloc" and rcb is not None and s[1] in ctx.model.reach(rcb.id)) or
                                          (s.kind == "param" and "Rank" in ctx.fb.bodies[s[1]].locals[s[2]]["s"]) for s in csrc)
            if lp and rp and lp[0][1] == 2 and rp[0][1] == 3 and same_c and is_ranks:
                ok_cmp = True
            else:
                why = "comparator does not compare ranks[first] with ranks[second] in that order (ascending): `%s`" % fmt_expr(re_, fcl)
    elif re_ is not None and "sort_by_key" in p or (re_ is not None and "cached_key" in p):
        el = rank_elem(strip_refs(re_))
        if el:
            ok_cmp = True
    ctx.check(ok_cmp, rule, "comparator", m.where(fcl),
              "the sort key is ranks[id] only, first argument on the left (ascending rank)", why)


def rank_elem(e):
    """ranks[idx] as (container, idx)"""
    e = strip_refs(e)
    if e.kind == "index":
        return e[1], e[2]
    if e.kind == "deref":
        return rank_elem(e[1])
    er = elem_read(e)
    return er


def D2(ctx, rule="D2"):
    """edge goes from the outer element to the inner element; inner iteration
    ranges over positions >= the outer index of the same list"""
    m, fl = ctx.model, ctx.model.flow
    cm = conflict_model(ctx)
    if "error" in cm:
        ctx.unverifiable(rule, "site", "-", cm["error"])
        return
    b, bb, t, p = cm["site"]
    where = m.where(b, bb)
    fr = enum_frame(ctx, cm)
    if fr["body"].id != b.id:
        # per-pair helper: go on in the body that enumerates the pairs
        cm = dict(cm)
        cm["a"], cm["b"] = fr["a"], fr["b"]
        cm["site"] = (fr["body"], fr["bb"], t, p)
        b, bb = fr["body"], fr["bb"]
    # loop form: two nested `for` loops in the augmenter's own body
    lr_in = loop_region(ctx, b, bb) if b.kind != "closure" else None
    lr_out = loop_region(ctx, b, bb, skip_headers=(lr_in["header"],)) if lr_in else None
    if lr_in is not None and lr_out is not None:
        D2_loops(ctx, rule, cm, lr_in, lr_out)
        return
    if b.kind == "closure":
        # mixed form: the outer iteration is a closure passed to a consumer, the inner one a `for` loop in that closure
        lr_mixed = loop_region(ctx, b, bb)
        if lr_mixed is not None and loop_region(ctx, b, bb, skip_headers=(lr_mixed["header"],)) is None:
            D2_mixed(ctx, rule, cm, lr_mixed)
            return
    # b is the inner closure; its parameter is the inner element, `a` comes from the outer closure's item
    inner_uses = fl.closure_uses(b)
    if len(inner_uses) != 1 or b.parent is None:
        ctx.unverifiable(rule, "inner", where, "insertion is not in a closure passed to one consumer")
        return
    ob, ubb, ut, ai = inner_uses[0]
    a_src = sources_of_expr(ctx, b, cm["a"])
    b_src = sources_of_expr(ctx, b, cm["b"])
    # inner chain
    chain = iterator_chain(ctx, ob, expr_operand(ob, ut["args"][0]))
    ok_inner, outer_idx, list_inner, why = inner_range_start(ctx, chain)
    ctx.check(ok_inner, rule, "inner-range", m.where(ob, ubb), "the inner iteration ranges over list[outer_index..] (later positions only)", why)
    if not ok_inner:
        return
    # outer: enumerate over the same list; outer_idx is item.0 and `a` is item.1 of the same enumeration
    outer_uses = fl.closure_uses(ob)
    ok_outer = False
    why = "outer closure not passed to one consumer"
    if len(outer_uses) == 1:
        pb, ubb2, ut2, ai2 = outer_uses[0]
        ochain = iterator_chain(ctx, pb, expr_operand(pb, ut2["args"][0]))
        names = [c[0] for c in ochain]
        sel_o = [n_ for n_ in names if n_ in SELECTIVE_ITER]
        ctx.check(not sel_o, rule, "outer-complete", m.where(pb, ubb2),
                  "the outer iteration visits every element of the sorted list (no skip / take / filter)",
                  "the outer iteration is narrowed by %s: the elements it drops never get their outgoing Data edges" % [n_.split("::")[-1] for n_ in sel_o])
        if "std::iter::Iterator::enumerate" in names:
            # the list under enumerate
            srcl = sources_of_expr(ctx, pb, ochain[-1][2][2][0]) if ochain[-1][2][2] else frozenset()
            # enumerate item = (index, element) = outer closure parameter (.0, .1)
            oi = strip_refs(outer_idx)
            idx_ok = oi.kind == "field" and oi[1].kind == "arg" and oi[1][1] == 2 and oi[2] == 0
            # `from` is a captured variable of the inner closure bound to the outer parameter's element
            a_ok = False
            ui = upvar_index(cm["a"])
            if ui is not None:
                sites = fl.closure_sites().get(b.id, [])
                if len(sites) == 1 and sites[0][0].id == ob.id:
                    ae = strip_refs(expr_operand(ob, sites[0][3]["rv"]["ops"][ui]))
                    a_ok = ae.kind == "field" and ae[1].kind == "arg" and ae[1][1] == 2 and ae[2] == 1
            b_ok = cm["b"].kind == "arg" and cm["b"][1] == 2
            same_list = bool(srcl) and {(s[1], s[2]) for s in srcl if s.kind == "alloc" and not s[3]} == \
                {(s[1], s[2]) for s in list_inner if s.kind == "alloc" and not s[3]} and \
                any(s.kind == "alloc" and not s[3] for s in srcl)
            # the index is the element's POSITION in the list: nothing reorders or narrows the list before enumerate() counts
            below = names[names.index("std::iter::Iterator::enumerate") + 1:]
            pos_ok = not [n_ for n_ in below if n_ == "std::iter::Iterator::rev" or n_ in SELECTIVE_ITER]
            ok_outer = idx_ok and a_ok and same_list and b_ok and pos_ok
            why = "index from enumerate: %s, `from` is outer element: %s, same list: %s, `to` is inner element: %s, enumerate counts list positions: %s" % (
                idx_ok, a_ok, same_list, b_ok, pos_ok)
        elif [c for c in ochain if c[0] == "leaf:agg" and c[2][2] == "std::ops::Range"]:
            # `(0..list.len()).rev().for_each(|index| { let a = list[index]; list[index..].for_each(|b| ..) })`
            rl = [c for c in ochain if c[0] == "leaf:agg" and c[2][2] == "std::ops::Range"][0]
            ae = None
            ui = upvar_index(cm["a"])
            if ui is not None:
                sites = fl.closure_sites().get(b.id, [])
                if len(sites) == 1 and sites[0][0].id == ob.id:
                    ae = strip_refs(expr_operand(ob, sites[0][3]["rv"]["ops"][ui]))
            b_ok = cm["b"].kind == "arg" and cm["b"][1] == 2
            D2_index_outer(ctx, rule, cm, None, None, rl, names.count("std::iter::Iterator::rev"), outer_idx, list_inner,
                           frame=ob, a_e=ae if ae is not None else E(("unknown", "a")), b_e=cm["b"], outer_item=E(("arg", 2)), inner_item_ok=b_ok)
            return
        else:
            why = "outer iteration has no enumerate: chain %s" % names
    if len(outer_uses) == 1 and "std::iter::Iterator::enumerate" in names:
        n_rev = names.count("std::iter::Iterator::rev")
        ctx.check(n_rev % 2 == 1, rule, "outer-descending", m.where(pb, ubb2),
                  "the outer iteration walks the ascending-sorted list from its end (highest rank first): when an element is examined, "
                  "every Data edge among later elements already exists, so has_path_connecting suppresses every implied ordering",
                  "the outer iteration walks the sorted list from the lowest rank upward: the path test runs before the later chain edges exist, "
                  "so Data edges that repeat an implied ordering are added")
    ctx.check(ok_outer, rule, "direction", where,
              "the Data edge goes from the outer (earlier-sorted) element to an element at a later position of the same sorted list",
              "edge direction / list identity not established: %s" % why)


def D2_mixed(ctx, rule, cm, lr_in):
    """outer iteration = closure given to one consumer (`enumerate().rev().for_each(|(index, a)| ..)`), inner = `for b in list[index..]`
    in that closure's body"""
    m, fl = ctx.model, ctx.model.flow
    b, bb, t, p = cm["site"]
    where = m.where(b, bb)
    ichain = iterator_chain(ctx, b, lr_in["iter_expr"])
    ok_inner, outer_idx, list_inner, why = inner_range_start(ctx, ichain)
    ctx.check(ok_inner, rule, "inner-range", m.where(b, lr_in["next_bb"]),
              "the inner loop ranges over list[outer_index..] (later positions only)", why)
    if not ok_inner:
        return
    outer_uses = fl.closure_uses(b)
    if len(outer_uses) != 1:
        ctx.unverifiable(rule, "outer", where, "the closure holding the inner loop is not passed to exactly one consumer")
        return
    pb, ubb2, ut2, ai2 = outer_uses[0]
    ochain = iterator_chain(ctx, pb, expr_operand(pb, ut2["args"][0]))
    names = [c[0] for c in ochain]
    sel_o = [n_ for n_ in names if n_ in SELECTIVE_ITER]
    ctx.check(not sel_o, rule, "outer-complete", m.where(pb, ubb2),
              "the outer iteration visits every element of the sorted list (no skip / take / filter)",
              "the outer iteration is narrowed by %s: the elements it drops never get their outgoing Data edges" % [n_.split("::")[-1] for n_ in sel_o])
    if "std::iter::Iterator::enumerate" not in names:
        ctx.unverifiable(rule, "direction", where, "outer iteration of the mixed closure / loop form has no enumerate: chain %s" % names)
        return
    n_rev = names.count("std::iter::Iterator::rev")
    ctx.check(n_rev % 2 == 1, rule, "outer-descending", m.where(pb, ubb2),
              "the outer iteration walks the ascending-sorted list from its end (highest rank first): when an element is examined, "
              "every Data edge among later elements already exists, so has_path_connecting suppresses every implied ordering",
              "the outer iteration walks the sorted list from the lowest rank upward: the path test runs before the later chain edges exist, "
              "so Data edges that repeat an implied ordering are added")
    srcl = sources_of_expr(ctx, pb, ochain[-1][2][2][0]) if ochain[-1][2][2] else frozenset()
    oi = strip_refs(outer_idx)
    idx_ok = oi.kind == "field" and oi[1].kind == "arg" and oi[1][1] == 2 and oi[2] == 0
    ae = strip_refs(cm["a"])
    a_ok = ae.kind == "field" and ae[1].kind == "arg" and ae[1][1] == 2 and ae[2] == 1
    b_ok = loop_item_path(cm["b"]) == (lr_in["next_bb"], ())
    same_list = bool(srcl) and {(s[1], s[2]) for s in srcl if s.kind == "alloc" and not s[3]} == \
        {(s[1], s[2]) for s in list_inner if s.kind == "alloc" and not s[3]} and \
        any(s.kind == "alloc" and not s[3] for s in srcl)
    below = names[names.index("std::iter::Iterator::enumerate") + 1:]
    pos_ok = not [n_ for n_ in below if n_ == "std::iter::Iterator::rev" or n_ in SELECTIVE_ITER]
    ctx.check(idx_ok and a_ok and same_list and b_ok and pos_ok, rule, "direction", where,
              "the Data edge goes from the outer (earlier-sorted) element to an element at a later position of the same sorted list",
              "edge direction / list identity not established: index from enumerate: %s, `from` is outer element: %s, same list: %s, "
              "`to` is inner element: %s, enumerate counts list positions: %s" % (idx_ok, a_ok, same_list, b_ok, pos_ok))


def D2_coverage(ctx, rule="R6"):
    """pair coverage only: the inner iteration ranges over list[outer position..] of the same list the outer iteration
    enumerates, so every unordered pair of functions is examined once (the outer direction, which only matters for
    non-redundancy, is not required here)"""
    D2(ctx, rule)
    ctx.obs = [o for o in ctx.obs if not (o.rule == rule and o.key == "outer-descending")]


def loop_item_path(e):
    """e = ((next(..) as Some).0).f1.f2.. -> (bb of the next call, (f1, f2, ..))"""
    path = []
    e = strip_refs(e)
    while e.kind == "field":
        path.append(e[2])
        e = strip_refs(e[1])
    if e.kind == "downcast" and e[2] == "Some":
        c = strip_refs(e[1])
        if c.kind == "call" and len(c) > 3 and path and path[-1] == 0:
            path.pop()
            path.reverse()
            return c[3], tuple(path)
    return None


def D2_loops(ctx, rule, cm, lr_in, lr_out):
    m = ctx.model
    b, bb, t, p = cm["site"]
    where = m.where(b, bb)
    ichain = iterator_chain(ctx, b, lr_in["iter_expr"])
    ok_inner, outer_idx, list_inner, why = inner_range_start(ctx, ichain)
    sel = [p2 for p2, cb, e in ichain if (p2 in SELECTIVE_ITER and p2 != RANGE_SKIP) or p2 == "std::iter::Iterator::rev"]
    ctx.check(ok_inner and not sel, rule, "inner-range", m.where(b, lr_in["next_bb"]),
              "the inner loop ranges over list[outer_index..] (later positions only), in list order", why if not ok_inner else "inner iteration adaptors %s" % sel)
    if not ok_inner:
        return
    ochain = iterator_chain(ctx, b, lr_out["iter_expr"])
    names = [c[0] for c in ochain]
    sel_o = [n_ for n_ in names if n_ in SELECTIVE_ITER]
    ctx.check(not sel_o, rule, "outer-complete", m.where(b, lr_out["next_bb"]),
              "the outer loop visits every element of the sorted list (no skip / take / filter)",
              "the outer loop is narrowed by %s: the elements it drops never get their outgoing Data edges" % [n_.split("::")[-1] for n_ in sel_o])
    n_rev = names.count("std::iter::Iterator::rev")
    rng_leaf = [c for c in ochain if c[0] == "leaf:agg" and c[2][2] == "std::ops::Range"]
    if rng_leaf and "std::iter::Iterator::enumerate" not in names:
        D2_index_outer(ctx, rule, cm, lr_in, lr_out, rng_leaf[0], n_rev, outer_idx, list_inner)
        return
    ctx.check("std::iter::Iterator::enumerate" in names and n_rev % 2 == 1, rule, "outer-descending", m.where(b, lr_out["next_bb"]),
              "the outer loop walks the ascending-sorted list from its end (highest rank first): when an element is examined, "
              "every Data edge among later elements already exists, so has_path_connecting suppresses every implied ordering",
              "the outer loop does not enumerate the sorted list from its end (chain %s): Data edges that repeat an implied ordering are added" % [n.split("::")[-1] for n in names])
    ia, ib, ii = loop_item_path(cm["a"]), loop_item_path(cm["b"]), loop_item_path(outer_idx)
    idx_ok = ii == (lr_out["next_bb"], (0,))
    a_ok = ia == (lr_out["next_bb"], (1,))
    b_ok = ib == (lr_in["next_bb"], ())
    srcl = sources_of_expr(ctx, b, ochain[-1][2][2][0]) if ochain and ochain[-1][2][2] else frozenset()
    same_list = bool(srcl) and {(s[1], s[2]) for s in srcl if s.kind == "alloc" and not s[3]} == \
        {(s[1], s[2]) for s in list_inner if s.kind == "alloc" and not s[3]} and any(s.kind == "alloc" and not s[3] for s in srcl)
    ctx.check(idx_ok and a_ok and b_ok and same_list, rule, "direction", where,
              "the Data edge goes from the outer (earlier-sorted) element to an element at a later position of the same sorted list",
              "edge direction / list identity not established: index from enumerate: %s, `from` is outer element: %s, same list: %s, `to` is inner element: %s" % (
                  idx_ok, a_ok, same_list, b_ok))


def D2_index_outer(ctx, rule, cm, lr_in, lr_out, rng_leaf, n_rev, outer_idx, list_inner, frame=None, a_e=None, b_e=None, outer_item=None, inner_item_ok=None):
    """outer iteration `for index in (0..list.len()).rev()` with `a = list[index]`, inner over `list[index..]`"""
    m = ctx.model
    b, bb, t, p = cm["site"]
    fb_ = frame or b
    where = m.where(b, bb)
    r_ = rng_leaf[2]
    lo, hi = strip_refs(r_[4][0]), strip_refs(r_[4][1])
    len_of = None
    if hi.kind == "call" and hi[1].split("::")[-1] == "len" and hi[2]:
        len_of = sources_of_expr(ctx, rng_leaf[1], hi[2][0])
    listk = {(s[1], s[2]) for s in list_inner if s.kind == "alloc" and not s[3]}
    lenk = {(s[1], s[2]) for s in (len_of or ()) if s.kind == "alloc" and not s[3]}
    full = is_const(lo, 0) and bool(listk) and listk == lenk
    ctx.check(full and n_rev % 2 == 1, rule, "outer-descending", m.where(fb_, lr_out["next_bb"]) if lr_out else where,
              "the outer loop walks the positions 0..len of the ascending-sorted list from the end (highest rank first): when an element is examined, "
              "every Data edge among later elements already exists, so has_path_connecting suppresses every implied ordering",
              "the outer loop is not `(0..list.len()).rev()` over the sorted list (range %s..%s, reversed %d times)" % (fmt_expr(lo, fb_), fmt_expr(hi, fb_), n_rev))
    a_e = a_e if a_e is not None else cm["a"]
    b_e = b_e if b_e is not None else cm["b"]
    # index of the inner range = the outer position; `from` = list[outer position]; `to` = inner item
    if outer_item is None:
        ii = loop_item_path(outer_idx)
        idx_ok = ii == (lr_out["next_bb"], ())
        era = elem_read(a_e)
        a_ok = era is not None and loop_item_path(era[1]) == (lr_out["next_bb"], ()) and \
            {(s[1], s[2]) for s in sources_of_expr(ctx, fb_, era[0]) if s.kind == "alloc" and not s[3]} == listk
        ib = loop_item_path(b_e)
        b_ok = ib == (lr_in["next_bb"], ())
    else:
        idx_ok = strip_refs(outer_idx) == outer_item
        era = elem_read(a_e)
        a_ok = era is not None and strip_refs(era[1]) == outer_item and \
            {(s[1], s[2]) for s in sources_of_expr(ctx, fb_, era[0]) if s.kind == "alloc" and not s[3]} == listk
        b_ok = bool(inner_item_ok)
    ctx.check(idx_ok and a_ok and b_ok, rule, "direction", where,
              "the Data edge goes from list[position] to an element at a later position of the same sorted list",
              "edge direction / list identity not established: inner range starts at the outer position: %s, `from` is list[position]: %s, `to` is inner element: %s" % (idx_ok, a_ok, b_ok))


NONDET_PAT = ("std::time::", "std::thread::", "rand::", "std::env::", "std::process::id", "std::ptr::addr", "getrandom",
              "std::hash::RandomState::new", "std::collections::hash_map::RandomState::new")
HASH_ITER = ("::iter", "::into_iter", "::keys", "::values", "::drain", "::iter_mut", "::values_mut", "::into_keys", "::into_values")


def D3(ctx, rule="D3"):
    """determinism of build(): no hash-ordered container, RNG, clock, thread in reach"""
    m = ctx.model
    b0 = build_body(ctx)
    if b0 is None:
        ctx.unverifiable(rule, "build", "-", "build() not found")
        return
    bad = []
    n_calls = 0
    for b in build_reach(ctx):
        for bb, t in b.calls():
            n_calls += 1
            p = callee_path(t) or ""
            if any(p.startswith(x) for x in NONDET_PAT):
                bad.append((b, bb, "call to %s" % p))
            # iteration over a hash-ordered container (its order would leak into the result)
            if (p.startswith("std::collections::HashMap") or p.startswith("std::collections::HashSet") or
                    p.startswith("std::collections::hash_map") or p.startswith("std::collections::hash_set")) and \
                    any(p.endswith(x) for x in HASH_ITER):
                bad.append((b, bb, "iteration over a hash-ordered container (%s)" % p))
        for bb, si, s in b.stmts():
            if s["k"] == "assign" and s["rv"]["k"] == "cast" and "Expose" in s["rv"]["ck"]:
                bad.append((b, bb, "pointer-to-integer cast"))
    if bad:
        for b, bb, why in bad[:10]:
            ctx.bad(rule, "nondet|%s" % short(b.id), m.where(b, bb), "build() depends on a non-deterministic source: %s" % why)
    else:
        ctx.ok(rule, "deterministic", m.where(b0), "no iteration over a hash-ordered container, RNG, clock, thread, environment or address-derived value in the %d bodies / %d calls reachable from build()" % (len(build_reach(ctx)), n_calls))


def nondet_sites(ctx, bodies):
    """calls that read ambient state: RNG, clock, thread, environment, hash seeds / hash-ordered iteration, address-derived values"""
    out = []
    n_calls = 0
    for b in bodies:
        for bb, t in b.calls():
            n_calls += 1
            p = callee_path(t) or ""
            if any(p.startswith(x) for x in NONDET_PAT):
                out.append((b, bb, "call to %s" % p))
            if p.startswith(("std::collections::HashMap", "std::collections::HashSet", "std::collections::hash_map", "std::collections::hash_set")):
                if any(p.endswith(x) for x in HASH_ITER):
                    out.append((b, bb, "iteration over a hash-ordered container (%s)" % p))
                elif p.split("::")[-1] in ("new", "with_capacity", "default", "from_iter", "from"):
                    out.append((b, bb, "construction of a RandomState-seeded container (%s): its iteration order depends on a per-thread seed counter that earlier runs advanced" % p))
            if p == "std::iter::Iterator::collect" or p == "std::iter::FromIterator::from_iter":
                ty = (t.get("dest") or {}).get("ty", "")
                if ty.startswith(("std::collections::HashMap<", "std::collections::HashSet<")):
                    out.append((b, bb, "collect() into a RandomState-seeded %s" % ty.split("<")[0]))
        for bb, si, s in b.stmts():
            if s["k"] == "assign" and s["rv"]["k"] == "cast" and "Expose" in s["rv"]["ck"]:
                out.append((b, bb, "pointer-to-integer cast"))
    return out, n_calls


BLOCKING_CALLS = ("futures::executor::block_on", "tokio::runtime::Handle::block_on", "tokio::runtime::Runtime::block_on", "std::thread::sleep",
                  "tokio::sync::mpsc::Sender::<T>::blocking_send", "tokio::sync::mpsc::Receiver::<T>::blocking_recv",
                  "tokio::sync::RwLock::<T>::blocking_write", "tokio::sync::RwLock::<T>::blocking_read", "tokio::sync::Mutex::<T>::blocking_lock",
                  "tokio::task::block_in_place", "std::thread::park", "std::sync::Condvar::wait", "std::sync::Barrier::wait",
                  "std::sync::mpsc::Receiver::<T>::recv", "futures::executor::block_on_stream")


def N7(ctx, rule="N7"):
    """nothing in the crate blocks the thread it runs on: no nested executor (`block_on`), blocking channel / lock operation,
    sleep or park in any non-test body. A blocked scheduler thread cannot deliver the wake-up the blocked call waits for, and
    runs sharing the task cannot make progress either."""
    m = ctx.model
    bad = []
    n_calls = 0
    for b in ctx.fb.prod_bodies():
        for bb, t in b.calls():
            n_calls += 1
            p = callee_path(t) or ""
            if p in BLOCKING_CALLS or p.split("::")[-1] in ("block_on", "blocking_send", "blocking_recv", "blocking_lock", "blocking_write", "blocking_read"):
                bad.append((b, bb, p))
    for b, bb, p in bad[:10]:
        ctx.bad(rule, "blocking|%s|%s" % (short(b.id), p.split("::")[-1]), m.where(b, bb),
                "%s blocks the calling thread (%s): called from a task, the wake-up it waits for may need this very thread" % (short(b.id), p))
    if not bad:
        ctx.ok(rule, "non-blocking", "-", "no nested executor, blocking channel/lock operation, sleep or park among %d calls of the crate" % n_calls)


def N6(ctx, rule="N6"):
    """nothing a run does depends on ambient state that earlier / concurrent runs change: no RNG, clock, thread id, environment,
    hash-seeded container or address-derived value anywhere in the crate's non-test bodies"""
    m = ctx.model
    bodies = [b for b in ctx.fb.prod_bodies()]
    bad, n_calls = nondet_sites(ctx, bodies)
    if bad:
        for b, bb, why in bad[:10]:
            ctx.bad(rule, "ambient|%s" % short(b.id), m.where(b, bb), "a run depends on ambient state outside the graph and the call's own allocations: %s" % why)
    else:
        ctx.ok(rule, "no-ambient-state", "-", "no RNG, clock, thread, environment, hash-seeded container or address-derived value in %d bodies / %d calls of the crate" % (len(bodies), n_calls))


def projection_signature(ctx, chain):
    """what the `map` steps of an iterator chain turn an element into, as position-sensitive text (closure-relative)"""
    sig = []
    for c in chain:
        if c[0] == "std::iter::Iterator::map" and len(c[2][2]) > 1:
            fcl = closure_of_arg(ctx, c[1], c[2][2][1])
            re_ = return_expr(fcl) if fcl is not None else None
            sig.append(fmt_expr(re_, None) if re_ is not None else "?%s" % (fcl.id if fcl is not None else "closure"))
    return sig


def iter_eq_same_projection(ctx, rule, b, bb, t, what):
    """`a.eq(b)` over two mapped iterators: both sides project their elements the same way, position by position"""
    sg = [projection_signature(ctx, iterator_chain(ctx, b, expr_operand(b, a))) for a in t["args"][:2]]
    ok = sg[0] == sg[1] and not any(x.startswith("?") for x in sg[0])
    nth = sum(1 for bb2, t2 in b.calls() if bb2 < bb and callee_path(t2) == "std::iter::Iterator::eq")
    ctx.check(ok, rule, "same-projection|%s|%d" % (short(b.id), nth), ctx.model.where(b, bb),
              "both operands of this elementwise comparison project their elements identically (%s)" % ("; ".join(sg[0])[:120] or "no map"),
              "%s compares differently projected elements: `%s` on one side, `%s` on the other - equal values compare unequal, or "
              "differing ones equal" % (what, "; ".join(sg[0])[:100], "; ".join(sg[1])[:100]))


REORDER_OPS = frozenset("sort sort_by sort_by_key sort_by_cached_key sort_unstable sort_unstable_by sort_unstable_by_key reverse dedup dedup_by "
                        "dedup_by_key retain retain_mut swap swap_remove remove pop truncate drain rotate_left rotate_right "
                        "select_nth_unstable select_nth_unstable_by select_nth_unstable_by_key split_off clear".split())


def eq_no_reorder(ctx, rule, eqb, what):
    """`==` compares the two values' sequences as stored: nothing inside it sorts, reverses, dedups or shortens a collected copy
    (on one side that makes equal values unequal; on both it equates values whose sequences differ)"""
    m = ctx.model
    bad = 0
    for bid in sorted(m.reach(eqb.id)):
        b = ctx.fb.bodies[bid]
        if not (bid == eqb.id or bid.startswith(eqb.id + "::")):
            continue
        for bb, t in b.calls():
            p = callee_path(t) or ""
            nm = p.split("::")[-1]
            if nm not in REORDER_OPS or not t["args"] or t["args"][0]["k"] == "const":
                continue
            ty = (t["args"][0].get("pl") or {}).get("ty") or ""
            if ty.startswith(("&mut [", "&mut std::vec::Vec<", "&mut std::collections::VecDeque<")) or p.startswith(("core::slice::", "std::slice::", "std::vec::Vec")):
                bad += 1
                ctx.bad(rule, "no-reorder|%s|%s" % (short(b.id), nm), m.where(b, bb),
                        "%s applies `%s` to a collected sequence before comparing: the comparison no longer sees the elements in stored "
                        "order (applied to one side, equal values compare unequal; applied to both, differing ones compare equal)" % (what, nm))
    if not bad:
        ctx.ok(rule, "no-reorder", m.where(eqb), "%s never sorts, reverses, dedups or shortens a sequence it compares" % what)


def zip_sides_same(ctx, rule, chain, key, where, what):
    """`a.zip(b)` inside `==`: both zipped sequences are produced by the same steps (insertion order with insertion order,
    raw edges with raw edges), one rooted in each value"""
    names = [c[0] for c in chain]
    for i, c in enumerate(chain):
        if c[0] != "std::iter::Iterator::zip" or not (c[2].kind == "call" and len(c[2][2]) > 1):
            continue
        from rules_sched import NEUTRAL_ITER
        neutral = set(NEUTRAL_ITER) | {"std::ops::Deref::deref", "std::ops::DerefMut::deref_mut", "std::vec::Vec::<T, A>::as_slice",
                                       "std::convert::AsRef::as_ref", "std::slice::<impl [T]>::iter_mut"}
        left = [n_ for n_ in names[i + 1:] if not n_.startswith(("leaf:", "inline:")) and n_ not in neutral]
        rch = iterator_chain(ctx, c[1], c[2][2][1])
        right = [x[0] for x in rch if not x[0].startswith(("leaf:", "inline:")) and x[0] not in neutral]
        lsig, rsig = projection_signature(ctx, chain[i + 1:]), projection_signature(ctx, rch)
        ctx.check(left == right and lsig == rsig, rule, "zip-same-source|%s" % key, where,
                  "both zipped sequences are produced by the same steps (%s)" % ", ".join(x.split("::")[-1] for x in left)[:100],
                  "%s zips differently produced sequences: [%s] with [%s] - the pairs compared do not correspond (e.g. insertion order "
                  "against topological order)" % (what, ", ".join(x.split("::")[-1] for x in left)[:120], ", ".join(x.split("::")[-1] for x in right)[:120]))


def operand_shape(e, body=None):
    """the projection an operand applies, without its root: calls and fields from the outside in (the element index into the
    pair a zipped closure receives is part of the root)"""
    out = []
    x = strip_refs(e)
    hops = 0
    while hops < 12:
        hops += 1
        if x.kind in ("ref", "deref", "cast"):
            x = x[2] if x.kind == "ref" else x[1]
        elif x.kind == "call" and x[2]:
            out.append(x[1])
            x = x[2][0]
        elif x.kind == "field":
            base = x[1]
            while base.kind in ("ref", "deref", "cast"):
                base = base[2] if base.kind == "ref" else base[1]
            if base.kind in ("arg", "local") and body is not None and isinstance(x[2], int) and \
                    body.locals[base[1]]["s"].lstrip("&").replace("mut ", "").strip().startswith("("):
                break       # pair.0 / pair.1: which side, not which attribute
            out.append(".%s" % (x[2],))
            x = base
        elif x.kind == "binop":
            out.append(x[1])
            break
        else:
            break
    return out


def eq_same_attribute(ctx, rule, eqb, what):
    """every comparison inside `==` that relates the two values compares the SAME attribute of both (source with source, weight
    with weight): the two operands apply the same projection to their side"""
    m, fl = ctx.model, ctx.model.flow
    n = 0
    for bid in sorted(m.reach(eqb.id)):
        b = ctx.fb.bodies[bid]
        if not (bid == eqb.id or bid.startswith(eqb.id + "::")):
            continue
        k = 0
        for bb, t in b.calls():
            if (callee_path(t) or "") not in ("std::cmp::PartialEq::eq", "std::cmp::PartialEq::ne") or len(t["args"]) < 2:
                continue
            ex = [strip_refs(expr_operand(b, a)) for a in t["args"][:2]]
            sh = [operand_shape(x, b) for x in ex]
            if not sh[0] and not sh[1]:
                continue
            k += 1
            n += 1
            ctx.check(sh[0] == sh[1], rule, "same-attribute|%s|%d" % (short(b.id), k), m.where(b, bb),
                      "both operands of the comparison are the same attribute of their side (%s)" % (" ".join(x.split("::")[-1] for x in sh[0])[:80]),
                      "%s compares `%s` of one value with `%s` of the other" % (what, fmt_expr(ex[0], b)[:80], fmt_expr(ex[1], b)[:80]))
        for bb, si, s_ in b.stmts():
            if s_["k"] == "assign" and s_["rv"]["k"] == "binop" and s_["rv"]["op"] in ("Eq", "Ne"):
                ex = [strip_refs(expr_operand(b, a)) for a in (s_["rv"]["a"], s_["rv"]["b"])]
                sh = [operand_shape(x, b) for x in ex]
                if not sh[0] and not sh[1]:
                    continue
                if any(x.kind == "const" for x in ex):
                    continue
                k += 1
                n += 1
                ctx.check(sh[0] == sh[1], rule, "same-attribute|%s|%d" % (short(b.id), k), m.where(b, bb),
                          "both operands of the comparison are the same attribute of their side",
                          "%s compares `%s` of one value with `%s` of the other" % (what, fmt_expr(ex[0], b)[:80], fmt_expr(ex[1], b)[:80]))
    return n


def eq_monotone(ctx, rule, eqb, what, eq_like_sites=(), helper_ok=()):
    """`==` answers `false` only after some comparison found a difference and may answer `true` only if none did: on every
    decision path of the function, with every test on it understood, a constant `false` is returned only below a failed
    comparison and a value that can be `true` only below none. (`a != b` for `a == b`, `if all_equal { return false }`.)"""
    m, fl = ctx.model, ctx.model.flow
    pcs = []
    for xb in eqb.exits():
        r = path_conditions(eqb, xb, ret_local=0)
        if r is None:
            return
        pcs += r
    sites = set(eq_like_sites)

    def polarity(sym):
        """+1: true means "equal so far"; -1: true means "differs"; None: not understood; 0: ignore"""
        if sym[0] == "expr":
            txt = sym[1]
            if txt.startswith("Eq("):
                return 1
            if txt.startswith("Ne("):
                return -1
            return None
        if sym[0] == "call":
            t = eqb.blocks[sym[1]]["term"]
            p = callee_path(t) or ""
            if p in ("std::cmp::PartialEq::eq", "std::iter::Iterator::eq"):
                return 1
            if p in ("std::cmp::PartialEq::ne", "std::iter::Iterator::ne"):
                return -1
            if (eqb.id, sym[1]) in sites:
                return 1
            if p in ctx.fb.bodies and t["dest"]["ty"] == "bool" and p in helper_ok:
                return 1        # a private comparison step of `==` that was itself found monotone
            return None
        if sym[0] == "discr" and str(sym[1]).startswith(("std::iter::Iterator::next(", "(std::iter::Iterator::next(")):
            return 0            # the loop's own exhaustion test
        if sym[0] == "discr":
            # the variant of an all-pairs-equal consumer's own result (`Continue(x) | Break(x)`): its payload carries the answer
            for (sb_id, sbb) in sites:
                if sb_id == eqb.id and str(sym[1]).startswith((callee_path(eqb.blocks[sbb]["term"]) or "?") + "("):
                    return 0
            return None
        if sym[0] in ("assigned", "unknown"):
            l = sym[2] if sym[0] == "assigned" else sym[1]
            if eqb.locals[l]["s"] != "bool":
                return None
            # every definition of the flag reads the payload of the result of one of the all-pairs-equal consumers
            defs = get_defs(eqb)
            roots = set()
            for kind, dbb, dsi, dx in defs.of(l):
                root = None
                if kind == "stmt" and dx["rv"]["k"] == "use" and dx["rv"]["op"]["k"] != "const":
                    cur = dx["rv"]["op"]["pl"]["l"]
                    for _ in range(6):
                        d = defs.unique_full(cur)
                        if d is None:
                            break
                        if d[0] == "call":
                            root = (eqb.id, d[1])
                            break
                        if d[0] == "stmt" and d[3]["rv"]["k"] == "use" and d[3]["rv"]["op"]["k"] != "const":
                            cur = d[3]["rv"]["op"]["pl"]["l"]
                            continue
                        break
                elif kind == "call":
                    root = (eqb.id, dbb)
                roots.add(root)
            if roots and None not in roots and all(r in sites for r in roots):
                return 1
            return None
        return None
    bad = None
    for pc in pcs:
        ret = pc.get("$ret")
        neg = False
        understood = True
        for sym, v in pc.items():
            if sym == "$ret" or not isinstance(sym, tuple):
                continue
            pol = polarity(sym)
            if pol is None:
                understood = False
                break
            if pol == 0:
                continue
            truth = (v != "0")
            if (pol == 1 and not truth) or (pol == -1 and truth):
                neg = True
        if not understood or ret is None:
            continue
        if ret[0] == "const":
            is_false = str(ret[1]) in ("0", "false")
            if is_false and not neg:
                bad = "a path on which every comparison made found equality returns `false`"
            if not is_false and neg:
                bad = "a path on which a comparison found a difference returns `true`"
        else:
            pr = polarity(ret)
            if pr == 1 and neg:
                bad = "a path on which a comparison found a difference goes on to return the result of a later comparison"
            if pr == -1:
                bad = "the result of a `!=` / difference test is returned as the value of `==`"
    ctx.check(bad is None, rule, "monotone|%s" % short(eqb.id), m.where(eqb),
              "%s answers false only below a failed comparison and can answer true only below none (%d paths)" % (what, len(pcs)),
              "%s: %s" % (what, bad))


def D4(ctx, rule="D4"):
    """PartialEq for FnGraph compares node count, source, target, weight and each function"""
    fb, m, fl = ctx.fb, ctx.model, ctx.model.flow
    eqb = None
    for b in fb.prod_bodies():
        sig = fb.fns.get(b.id)
        if sig and sig.get("impl_trait") == "std::cmp::PartialEq" and (sig.get("impl_self") or "").startswith("fn_graph::FnGraph<") and sig["name"] == "eq":
            eqb = b
    if eqb is None:
        ctx.unverifiable(rule, "eq", "-", "PartialEq::eq for FnGraph not found")
        return
    attrs = set()
    for bid in m.reach(eqb.id):
        b = fb.bodies[bid]
        for bb, t in b.calls():
            p = callee_path(t) or ""
            if p in ("std::cmp::PartialEq::eq", "std::cmp::PartialEq::ne"):
                for a in t["args"][:2]:
                    e = strip_refs(expr_operand(b, a))
                    for c in walk_expr(e):
                        if c.kind == "call" and c[1].endswith("Edge::<E, Ix>::source"):
                            attrs.add("source")
                        if c.kind == "call" and c[1].endswith("Edge::<E, Ix>::target"):
                            attrs.add("target")
                        if c.kind == "call" and c[1] in NODE_COUNT_FNS:
                            attrs.add("node_count")
                        if c.kind == "call" and c[1].endswith("::edge_count"):
                            attrs.add("edge_count")
                    ty = a.get("pl", {}).get("ty", "")
                    if "edge::Edge" in ty and "petgraph" not in ty:
                        attrs.add("weight")
                    if ty in ("&&F", "&F"):
                        attrs.add("function")
        for bb, si, s in b.stmts():
            if s["k"] == "assign" and s["rv"]["k"] == "binop" and s["rv"]["op"] in ("Eq", "Ne"):
                for a in (s["rv"]["a"], s["rv"]["b"]):
                    e = strip_refs(expr_operand(b, a))
                    for c in walk_expr(e):
                        if c.kind == "call" and c[1] in NODE_COUNT_FNS:
                            attrs.add("node_count")
                        if c.kind == "call" and c[1].endswith("::edge_count"):
                            attrs.add("edge_count")
                        # `raw_nodes().len()` / `raw_edges().len()` are the same numbers
                        if c.kind == "call" and c[1].split("::")[-1] == "len" and c[2]:
                            inner_ = [x[1].split("::")[-1] for x in walk_expr(c[2][0]) if x.kind == "call"]
                            if "raw_nodes" in inner_ or "node_weights" in inner_:
                                attrs.add("node_count")
                            if "raw_edges" in inner_:
                                attrs.add("edge_count")
    # each comparison relates the two graphs: one operand derives from `self`, the other from `other`
    for bid in sorted(m.reach(eqb.id)):
        b = fb.bodies[bid]
        for bb, t in b.calls():
            if (callee_path(t) or "") not in ("std::cmp::PartialEq::eq", "std::cmp::PartialEq::ne") or len(t["args"]) < 2:
                continue
            sd = []
            for a in t["args"][:2]:
                ss = fl.sources_operand(b, a, (), "taint")
                sd.append({q[2] for q in ss if q.kind == "param" and q[1] == eqb.id})
            if sd[0] and sd[1] and len(sd[0]) == 1 and sd[0] == sd[1]:
                ctx.bad(rule, "sides|%s" % short(b.id), m.where(b, bb),
                        "a comparison inside FnGraph == relates a value of one graph to a value of the SAME graph (`x.f() == x.f()`): "
                        "it is always true, so graphs differing there compare equal")
    # `a.eq(b)` over two iterators: elementwise equality of the full sequences; what an element consists of is read off the
    # iterator chains (a `map` to (source(), target(), weight), the node weights of iter_insertion())
    iter_eqs = []
    for bid in sorted(m.reach(eqb.id)):
        b = fb.bodies[bid]
        for bb, t in b.calls():
            if callee_path(t) != "std::iter::Iterator::eq" or len(t["args"]) < 2:
                continue
            sides = []
            for a in t["args"][:2]:
                chain = iterator_chain(ctx, b, expr_operand(b, a))
                names = [c[0] for c in chain]
                at = set()
                for c in chain:
                    if c[0] == "std::iter::Iterator::map" and len(c[2][2]) > 1:
                        fcl = closure_of_arg(ctx, c[1], c[2][2][1])
                        re_ = return_expr(fcl) if fcl is not None else None
                        if re_ is not None:
                            for x in walk_expr(re_):
                                if x.kind == "call" and x[1].endswith("Edge::<E, Ix>::source"):
                                    at.add("source")
                                if x.kind == "call" and x[1].endswith("Edge::<E, Ix>::target"):
                                    at.add("target")
                            if re_.kind == "agg":
                                for o in re_[4]:
                                    o = strip_refs(o)
                                    if o.kind == "field" and o[2] == "weight" or (o.kind == "field" and isinstance(o[2], int) and
                                                                                  any(y.kind == "arg" for y in walk_expr(o)) and not any(y.kind == "call" for y in walk_expr(o))):
                                        at.add("weight")
                if any(n_.startswith("inline:") and n_.endswith("::iter_insertion") for n_ in names) or (
                        any("node_weights" in n_ or "node_references" in n_ or "raw_nodes" in n_ for n_ in names) and
                        not any(n_ == "std::iter::Iterator::map" for n_ in names)):
                    at.add("function")
                sel = [n_ for n_ in names if n_ in SELECTIVE_ITER]
                sides.append((at, sel, [n_ for n_ in names if not n_.startswith("inline:")]))
            iter_eqs.append((b, bb, t, sides))
            iter_eq_same_projection(ctx, rule, b, bb, t, "FnGraph ==")
    for (b, bb, t, sides) in iter_eqs:
        if sides[0][0] == sides[1][0] and sides[0][2] == sides[1][2]:
            attrs |= sides[0][0]
    where = m.where(eqb)
    for a in ("node_count", "source", "target", "weight", "function"):
        ctx.check(a in attrs, rule, "compares|%s" % a, where, "FnGraph == compares %s" % a,
                  "FnGraph == does not compare %s: graphs differing in it compare equal" % a)
    # `zip` stops at the shorter sequence: the number of edges is compared too, unless the edge sequences are compared with
    # `Iterator::eq`, which compares lengths itself
    edges_by_iter_eq = any("source" in sides_[0][0] and sides_[0][0] == sides_[1][0] for (_, _, _, sides_) in iter_eqs)
    ctx.check("edge_count" in attrs or edges_by_iter_eq, rule, "compares|edge_count", where,
              "FnGraph == compares the number of edges (or compares the edge sequences with Iterator::eq)",
              "FnGraph == zips the two edge lists without comparing their lengths: a graph whose edges are a prefix of the other's compares equal")
    # iterates both graphs' raw edges zipped (no filter)
    zips = 0
    eq_like = []
    for bid in m.reach(eqb.id):
        b = fb.bodies[bid]
        for bb, t in b.calls():
            if callee_path(t) in ("std::iter::Iterator::try_fold", "std::iter::Iterator::all", "std::iter::Iterator::eq", "std::iter::Iterator::fold",
                                  "std::iter::Iterator::find_map", "std::iter::Iterator::any", "std::iter::Iterator::position", "std::iter::Iterator::find",
                                  "std::iter::Iterator::try_for_each"):
                chain = iterator_chain(ctx, b, expr_operand(b, t["args"][0]))
                names = [c[0] for c in chain]
                sel = [n for n in names if n in SELECTIVE_ITER]
                if "std::iter::Iterator::zip" in names:
                    zips += 1
                    zip_sides_same(ctx, rule, chain, "%d" % zips, m.where(b, bb), "FnGraph ==")
                    if b.kind == "fn" and b.id != eqb.id and not (fb.fns.get(b.id) or {}).get("public"):
                        # a private generic helper (`pairs_all_eq(a, b, |x, y| ..)`) used for each of the two comparisons: one zipped
                        # comparison per call; each call's result must be a conjunct of the returned value
                        hsites = [(cb_, cbb_, ct_) for (cb_, cbb_, ct_) in fl.call_sites().get(b.id, []) if cb_.id in m.reach(eqb.id) and not fb.is_test_body(cb_)]
                        if not hsites or any(cb_.id != eqb.id for cb_, _, _ in hsites):
                            hsites = []        # called from elsewhere (a `diff()` chain): its combination is judged where it is made
                        zips += max(0, len(hsites) - 1)
                        pcs_h = []
                        for xb in eqb.exits():
                            pcs_h += (path_conditions(eqb, xb, ret_local=0) or [{"$ret": ("unknown", "too many paths")}])
                        for (cb_, cbb_, ct_) in hsites:
                            okh = cb_.id == eqb.id and bool(pcs_h)
                            sym_ = ("call", cbb_)
                            for pc in pcs_h:
                                ret = pc.get("$ret")
                                if (ret is not None and ret[0] == "const" and str(ret[1]) in ("0", "false")) or ret == sym_:
                                    continue
                                if pc.get(sym_) is None or pc.get(sym_) == "0":
                                    okh = False
                            ctx.check(okh, rule, "conjunctive-call|%d" % cbb_, m.where(cb_, cbb_),
                                      "the result of this pairwise comparison is a conjunct of the value == returns",
                                      "== can return true although this pairwise comparison was false or never made")
                    ctx.check(not sel, rule, "zip-unfiltered|%d" % zips, m.where(b, bb), "pairwise comparison over the full zipped sequences", "comparison narrowed by %s" % sel)
                    okc, whyc = conjunctive_consumer(ctx, b, bb, t)
                    if okc and callee_path(t) in ("std::iter::Iterator::all", "std::iter::Iterator::eq", "std::iter::Iterator::try_fold", "std::iter::Iterator::fold"):
                        eq_like.append((b.id, bb))
                    ctx.check(okc, rule, "conjunctive|%d" % zips, m.where(b, bb),
                              "the pairwise comparison is a conjunction: one unequal pair makes the result false (%s)" % whyc,
                              "the pairwise comparison is not a conjunction over all pairs: %s" % whyc)
    # comparison steps written as private bool helpers with a `for (a, b) in x.zip(y) { if !(..) { return false } } true` loop
    helper_ok = []
    for bid in sorted(m.reach(eqb.id)):
        hb = fb.bodies[bid]
        hsig = fb.fns.get(bid) or {}
        if hb.kind != "fn" or hb.id == eqb.id or hsig.get("public") or (hsig.get("output") or {}).get("s") != "bool":
            continue
        seen_h = set()
        n_loop = 0
        for (src_, hdr_) in hb.back_edges():
            if hdr_ in seen_h:
                continue
            seen_h.add(hdr_)
            lr_ = loop_region(ctx, hb, src_)
            if lr_ is None or lr_.get("iter_expr") is None:
                continue
            chain_ = iterator_chain(ctx, hb, lr_["iter_expr"])
            names_ = [c[0] for c in chain_]
            if "std::iter::Iterator::zip" not in names_:
                continue
            n_loop += 1
            zips += 1
            zip_sides_same(ctx, rule, chain_, "%d" % zips, m.where(hb, lr_["next_bb"]), "FnGraph ==")
            sel_ = [n_ for n_ in names_ if n_ in SELECTIVE_ITER]
            ctx.check(not sel_, rule, "zip-unfiltered|%d" % zips, m.where(hb, lr_["next_bb"]), "pairwise comparison loop over the full zipped sequences",
                      "comparison loop narrowed by %s" % sel_)
        n_before = len([o for o in ctx.obs if o.status != "ok"])
        eq_monotone(ctx, rule, hb, "FnGraph == (%s)" % short(hb.id), eq_like, helper_ok)
        if len([o for o in ctx.obs if o.status != "ok"]) == n_before:
            helper_ok.append(hb.id)
    eq_same_attribute(ctx, rule, eqb, "FnGraph ==")
    eq_no_reorder(ctx, rule, eqb, "FnGraph ==")
    eq_monotone(ctx, rule, eqb, "FnGraph ==", eq_like, helper_ok)
    if iter_eqs:
        # every `a.eq(b)` result is a conjunct of the returned value: on each path to the return, the result is `false`, or is the
        # comparison itself, or the comparison was found true on the way
        pcs_all = []
        for xb in eqb.exits():
            pcs_all += (path_conditions(eqb, xb, ret_local=0) or [{"$ret": ("unknown", "too many paths")}])
        for (b, bb, t, sides) in iter_eqs:
            zips += 1
            ctx.check(not sides[0][1] and not sides[1][1] and sides[0][2] == sides[1][2], rule, "zip-unfiltered|%d" % zips, m.where(b, bb),
                      "elementwise comparison (Iterator::eq) of two unfiltered sequences built the same way",
                      "Iterator::eq compares differently built / narrowed sequences: %s vs %s" % (sides[0][2], sides[1][2]))
            okc = b.id == eqb.id and bool(pcs_all)
            sym = ("call", bb)
            for pc in pcs_all:
                ret = pc.get("$ret")
                is_false = ret is not None and ret[0] == "const" and str(ret[1]) in ("0", "false")
                if is_false or ret == sym:
                    continue
                v = pc.get(sym)
                if v is None or v == "0":
                    okc = False
            ctx.check(okc, rule, "conjunctive|%d" % zips, m.where(b, bb),
                      "the elementwise comparison is a conjunct of the result: whenever it is false, == returns false",
                      "== can return true although this elementwise comparison was false or never made")
    ctx.check(zips >= 2, rule, "zips", where, "edges and functions are compared pairwise (2 zipped sequences)", "expected 2 zipped comparisons, found %d" % zips)


def difference_search(ctx, b, bb, t):
    """`zip(..).find_map(|(x, y)| (!(x == y)).then_some(D))` / `.any(|(x, y)| x != y)`: a search for the first unequal pair.
    The closure must report a hit on every path on which one of its comparisons is false, and only then."""
    p = callee_path(t)
    fcl = closure_of_arg(ctx, b, expr_operand(b, t["args"][1])) if len(t["args"]) > 1 else None
    if fcl is None or len(fcl.exits()) != 1:
        return False, "search closure not found"
    cmps = {}
    for cbb, ct in fcl.calls():
        cp = callee_path(ct)
        if cp in ("std::cmp::PartialEq::eq", "std::cmp::PartialEq::ne"):
            cmps[("call", cbb)] = cp
    if not cmps:
        return False, "the search closure compares nothing"
    # the boolean that decides the hit
    defs = get_defs(fcl)
    hit_local, neg, at_bb = None, False, fcl.exits()[0]
    if p == "std::iter::Iterator::find_map":
        ts = [(cbb, ct) for cbb, ct in fcl.calls() if (callee_path(ct) or "").endswith("::then_some")]
        if len(ts) != 1 or ts[0][1]["args"][0]["k"] == "const":
            return False, "find_map closure is not `cond.then_some(..)`"
        at_bb = ts[0][0]
        hit_local = ts[0][1]["args"][0]["pl"]["l"]
    else:
        hit_local = 0
    # peel `!x`
    for _ in range(3):
        d = defs.unique_full(hit_local)
        if d and d[0] == "stmt" and d[3]["rv"]["k"] == "unop" and d[3]["rv"]["op"] == "Not" and d[3]["rv"]["a"]["k"] != "const":
            neg = not neg
            hit_local = d[3]["rv"]["a"]["pl"]["l"]
        elif d and d[0] == "stmt" and d[3]["rv"]["k"] == "use" and d[3]["rv"]["op"]["k"] != "const" and not d[3]["rv"]["op"]["pl"]["p"]:
            hit_local = d[3]["rv"]["op"]["pl"]["l"]
        else:
            break
    pcs = path_conditions(fcl, at_bb, watch=[hit_local])
    if not pcs:
        return False, "cannot enumerate the paths of the search closure"
    for pc in pcs:
        # is some comparison unequal on this path?
        unequal = False
        undecided = []
        for sym, cp in cmps.items():
            if sym in pc:
                truth = pc[sym] != "0"
                if (cp.endswith("::eq") and not truth) or (cp.endswith("::ne") and truth):
                    unequal = True
            else:
                undecided.append(sym)
        v = pc.get("$L%d" % hit_local)
        if v is None:
            return False, "value of the hit flag unknown"
        if v[0] == "const":
            val = str(v[1]) in ("1", "true")
        elif v in cmps and not unequal:
            # the flag is the last comparison's own result
            cp = cmps[v]
            # flag true <=> comparison call returned true
            hit_if_true = (cp.endswith("::ne")) != neg
            hit_if_false = (cp.endswith("::eq")) != neg
            # equal pair must be no hit, unequal pair must be a hit
            eq_truth = cp.endswith("::eq")       # call returns true on an equal pair iff it is `eq`
            hit_on_equal = (eq_truth != neg) if True else None
            if hit_on_equal:
                return False, "an equal pair counts as a difference"
            continue
        else:
            return False, "hit flag is `%s` on some path" % (v,)
        hit = (val != neg)
        if hit != unequal:
            return False, "the search reports %s on a path where the pair is %s" % ("a difference" if hit else "no difference", "unequal" if unequal else "equal")
    return True, "%s that stops at the first unequal pair" % p.split("::")[-1]


def conjunctive_consumer(ctx, b, bb, t):
    """The consumer of a zipped comparison lets a single unequal pair decide:
    all / Iterator::eq by definition; try_fold when the closure short-circuits
    (Break/Err/None) on the unequal branch or its result depends on the
    accumulator; fold only when the result depends on the accumulator."""
    fl = ctx.model.flow
    p = callee_path(t)
    if p in ("std::iter::Iterator::all", "std::iter::Iterator::eq"):
        return True, p.split("::")[-1]
    if p in ("std::iter::Iterator::find_map", "std::iter::Iterator::any", "std::iter::Iterator::position", "std::iter::Iterator::find"):
        return difference_search(ctx, b, bb, t)
    if p == "std::iter::Iterator::try_for_each":
        # zip(..).try_for_each(|(x, y)| if cmp(x, y) { Continue(()) } else { Break(()) }).is_continue()
        fcl = closure_of_arg(ctx, b, expr_operand(b, t["args"][1])) if len(t["args"]) > 1 else None
        if fcl is None:
            return False, "try_for_each closure not found"
        cmps = []
        for sb, blk in enumerate(fcl.blocks):
            if blk["term"]["k"] == "switch":
                e = strip_refs(switch_expr_(fcl, sb))
                if e.kind == "call" and (e[1] in ("std::cmp::PartialEq::eq", "std::cmp::PartialEq::ne") or
                                         (len(e) > 3 and is_param_call(fcl.blocks[e[3]]["term"]))):
                    cmps.append((sb, e[1] if e[1] else "callback"))
        n_break = 0
        conts_ok = bool(cmps)
        for kind, dbb, si, x in get_defs(fcl).of(0):
            rv = x["rv"] if kind == "stmt" else None
            if rv is not None and rv["k"] == "agg" and ((rv.get("def") == "std::ops::ControlFlow" and rv.get("variant") == "Break") or
                                                       (rv.get("def") == "std::result::Result" and rv.get("variant") == "Err") or
                                                       (rv.get("def") == "std::option::Option" and rv.get("variant") == "None")):
                n_break += 1
                continue
            gs = {sb: vals for sb, vals in guards_of_(fcl, dbb)}
            for sb, fn in cmps:
                vals = gs.get(sb)
                if vals is None or (not str(fn).endswith("::ne") and "0" in vals) or (str(fn).endswith("::ne") and vals != frozenset(["0"])):
                    conts_ok = False
        # the consumer's result is turned into a bool by `is_continue()` / `is_ok()` / `is_some()`
        pos = False
        for ubb, ut in b.calls():
            if (callee_path(ut) or "").split("::")[-1] in ("is_continue", "is_ok", "is_some") and ut["args"]:
                e0 = strip_refs(expr_operand(b, ut["args"][0]))
                if e0.kind == "call" and len(e0) > 3 and e0[3] == bb:
                    pos = True
        if n_break and conts_ok and pos:
            return True, "try_for_each that breaks unless the comparison(s) of the pair hold, read with is_continue()"
        return False, "try_for_each: breaks on an unequal pair: %s, continues only on equal pairs: %s, result read positively: %s" % (bool(n_break), conts_ok, pos)
    fcl = closure_of_arg(ctx, b, expr_operand(b, t["args"][2])) if len(t["args"]) > 2 else None
    if fcl is None:
        return False, "fold closure not found"
    init = strip_refs(expr_operand(b, t["args"][1]))
    if not (init.kind == "const" and str(init[1]) in ("1", "true")):
        return False, "the fold starts from `%s`, not `true`: two empty sequences compare unequal" % fmt_expr(init, b)
    # accumulator = first closure parameter (_2; _1 for a named function)
    acc_l = 2 if fcl.kind == "closure" else 1
    acc_used = False
    for s_ in fl.sources_local(fcl, 0, (), "taint"):
        if s_.kind in ("param", "closure_param") and s_[1] == fcl.id and s_[2] == acc_l:
            acc_used = True
    if not acc_used:
        # control dependence on the accumulator
        for sb, blk in enumerate(fcl.blocks):
            if blk["term"]["k"] == "switch":
                for s_ in sources_of_expr(ctx, fcl, strip_refs(switch_expr_(fcl, sb)), mode="taint"):
                    if s_.kind in ("param", "closure_param") and s_[1] == fcl.id and s_[2] == acc_l:
                        acc_used = True
    if acc_used:
        return True, "%s whose result depends on the accumulator" % p.split("::")[-1]
    if p == "std::iter::Iterator::try_fold":
        cmps = []
        for sb, blk in enumerate(fcl.blocks):
            if blk["term"]["k"] == "switch":
                e = strip_refs(switch_expr_(fcl, sb))
                if e.kind == "call" and e[1] in ("std::cmp::PartialEq::eq", "std::cmp::PartialEq::ne"):
                    cmps.append((sb, e[1]))
        n_break = 0
        conts_ok = bool(cmps)
        for kind, dbb, si, x in get_defs(fcl).of(0):
            rv = x["rv"] if kind == "stmt" else None
            short_c = rv is not None and rv["k"] == "agg" and (
                (rv.get("def") == "std::ops::ControlFlow" and rv.get("variant") == "Break") or
                (rv.get("def") == "std::result::Result" and rv.get("variant") == "Err") or
                (rv.get("def") == "std::option::Option" and rv.get("variant") == "None"))
            if short_c:
                n_break += 1
                o0 = rv["ops"][0] if rv.get("ops") else None
                if o0 is not None and o0["k"] == "const" and o0.get("ty") == "bool" and str(o0.get("bits", o0.get("val"))) not in ("0", "false"):
                    return False, "the short-circuit result on an unequal pair carries `true`"
                continue
            if rv is not None and rv["k"] == "agg" and rv.get("ops"):
                o0 = rv["ops"][0]
                if o0["k"] == "const" and o0.get("ty") == "bool" and str(o0.get("bits", o0.get("val"))) in ("0", "false"):
                    return False, "the continuing result on an equal pair carries `false`: the fold ends with `false` although every pair was equal"
            # a continuing result requires every comparison to have been true
            gs = {sb: vals for sb, vals in guards_of_(fcl, dbb)}
            for sb, fn in cmps:
                vals = gs.get(sb)
                if vals is None or (fn.endswith("::eq") and "0" in vals) or (fn.endswith("::ne") and vals != frozenset(["0"])):
                    conts_ok = False
        if n_break and conts_ok:
            return True, "try_fold that breaks unless all %d comparison(s) of the pair hold" % len(cmps)
        return False, "try_fold closure neither uses its accumulator nor short-circuits on an unequal pair"
    return False, "`%s` closure ignores its accumulator: only the last pair decides" % p.split("::")[-1]


def guards_of_(body, bb):
    from analysis import guards_of
    return guards_of(body, bb)


def switch_expr_(body, sb):
    from analysis import switch_expr
    return switch_expr(body, sb)


# ---------------------------------------------------------------------------
# C13 / C18: rank calculation

PUSH_FNS = ("std::collections::VecDeque::<T, A>::push_back", "std::collections::VecDeque::<T, A>::push_front",
            "std::vec::Vec::<T, A>::push", "std::collections::VecDeque::<T, A>::extend", "std::vec::Vec::<T, A>::extend",
            "std::iter::Extend::extend", "std::collections::VecDeque::<T, A>::insert", "std::vec::Vec::<T, A>::insert",
            "std::collections::BinaryHeap::<T, A>::push", "std::collections::VecDeque::<T, A>::append", "std::vec::Vec::<T, A>::append")
POP_FNS = ("std::collections::VecDeque::<T, A>::pop_front", "std::collections::VecDeque::<T, A>::pop_back",
           "std::vec::Vec::<T, A>::pop", "std::collections::BinaryHeap::<T, A>::pop")


POLY_GRAPH_CALLS = (
    "::node_count", "::edge_count", "::children", "::parents", "::iter", "::walk_next", "::node_references", "::node_indices",
    "::raw_edges", "::raw_nodes", "::add_node", "::add_edge", "::update_edge", "::graph", "::index", "::new", "::source", "::target",
    "algo::has_path_connecting", "::node_weight", "::node_weights_mut", "::edge_weight", "::next", "::find_edge", "::toposort",
    "::node_identifiers", "::externals", "::neighbors", "::neighbors_directed", "::edges", "::edges_directed", "::edge_references", "::from_elem",
    "Visitable::visit_map", "Visitable::reset_map", "VisitMap::visit", "VisitMap::is_visited", "::node_weights", "::node_bound", "::with_capacity",
)


def rank_calc_body(ctx):
    """the crate-local fn called by build() that returns Vec<Rank> from &Dag"""
    b0 = build_body(ctx)
    if b0 is None:
        return None
    for bb, t in b0.calls():
        p = callee_path(t) or ""
        if p in ctx.fb.bodies and "Rank" in t["dest"]["ty"] and t["dest"]["ty"].startswith("std::vec::Vec<"):
            return ctx.fb.bodies[p]
    # called from a private phase helper of build() (`GraphAnalysis::augment_and_analyze(&mut graph)`)
    for bx in build_reach(ctx):
        if bx.kind != "fn" or bx.id == b0.id:
            continue
        for bb, t in bx.calls():
            p = callee_path(t) or ""
            if p in ctx.fb.bodies and t["dest"]["ty"].startswith("std::vec::Vec<rank::Rank") and \
                    any((a.get("pl", {}).get("ty", "")).startswith("&daggy::Dag<F,") for a in t["args"] if isinstance(a, dict)):
                return ctx.fb.bodies[p]
    return None


def worklist_loops(ctx, bodies):
    """[(body, header, loop blocks, pop call bb, queue sources)]"""
    fl = ctx.model.flow
    out = []
    others = []
    for b in bodies:
        for (src, hdr) in b.back_edges():
            loop = b.natural_loop(src, hdr)
            pops = [(bb, b.blocks[bb]["term"]) for bb in loop if b.blocks[bb]["term"]["k"] == "call" and
                    callee_path(b.blocks[bb]["term"]) in POP_FNS]
            nexts = [(bb, b.blocks[bb]["term"]) for bb in loop if b.blocks[bb]["term"]["k"] == "call" and
                     callee_path(b.blocks[bb]["term"]) in ("std::iter::Iterator::next", "daggy::petgraph::visit::Topo::<N, VM>::next",
                                                           "daggy::Walker::walk_next")]
            if not pops:
                # `while let Some(x) = list.get(cursor) { cursor += 1; .. list.push(y) .. }`: a work list read at a cursor that
                # moves forward by one on every iteration consumes each entry once, like `pop_front`
                for bb in sorted(loop):
                    t_ = b.blocks[bb]["term"]
                    if t_["k"] != "call" or callee_path(t_) not in ("std::slice::<impl [T]>::get", "std::collections::VecDeque::<T, A>::get") or len(t_["args"]) < 2:
                        continue
                    cur = strip_refs(expr_operand(b, t_["args"][1]))
                    if cur.kind != "local":
                        continue
                    writes = [(kind_, dbb, si_, x_) for kind_, dbb, si_, x_ in get_defs(b).of(cur[1]) if dbb in loop]
                    incs = []
                    for kind_, dbb, si_, x_ in writes:
                        if kind_ != "stmt":
                            incs = None
                            break
                        v_ = expr_rvalue(b, x_["rv"], 0, (dbb, si_))
                        v_ = strip_refs(v_[1]) if v_.kind == "field" and v_[2] == 0 else strip_refs(v_)
                        if v_.kind == "binop" and v_[1] in ("Add", "AddWithOverflow") and is_const(v_[3], 1) and strip_refs(v_[2]) == cur:
                            incs.append(dbb)
                        else:
                            incs = None
                            break
                    if incs and len(incs) == 1 and all(b.dominates(incs[0], s_) or incs[0] == s_ for (s_, h_) in b.back_edges() if h_ == hdr and s_ in loop):
                        pops = [(bb, t_)]
                        break
            if pops:
                q = fl.sources_operand(b, pops[0][1]["args"][0])
                out.append((b, hdr, loop, pops[0][0], q))
            elif nexts:
                others.append((b, hdr, "collection-bounded"))
            else:
                others.append((b, hdr, "unbounded"))
    return out, others


def C18_loops(ctx, rule="C18.loops"):
    m, fl, fb = ctx.model, ctx.model.flow, ctx.fb
    b0 = build_body(ctx)
    if b0 is None:
        ctx.unverifiable(rule, "build", "-", "build() not found")
        return
    bodies = build_reach(ctx)
    # (1) no recursion
    cg = m.callgraph()
    ids = {b.id for b in bodies}
    color = {}
    cyc = []

    def dfs(u, stack):
        color[u] = 1
        for v in cg.get(u, ()):
            if v not in ids:
                continue
            if color.get(v) == 1:
                cyc.append((u, v))
            elif v not in color:
                dfs(v, stack + [v])
        color[u] = 2
    dfs(b0.id, [b0.id])
    ctx.check(not cyc, rule, "acyclic-callgraph", m.where(b0), "the call graph of build() (%d bodies) has no recursion" % len(bodies),
              "recursion in build()'s call graph: %s" % cyc[:3])
    # (1b) no per-function list is built by concatenating other per-function lists (`list[a].extend(&list[b])`): without
    # de-duplication such lists hold one entry per PATH, i.e. exponentially many on layered graphs
    BULK = ("std::vec::Vec::<T, A>::extend_from_slice", "std::vec::Vec::<T, A>::append", "std::iter::Extend::extend", "std::vec::Vec::<T, A>::extend",
            "std::collections::VecDeque::<T, A>::extend", "std::collections::VecDeque::<T, A>::append", "std::slice::<impl [T]>::concat",
            "std::slice::<impl [T]>::to_vec", "std::clone::Clone::clone")
    n_bulk = 0
    for b in bodies:
        for bb, t in b.calls():
            p_ = callee_path(t)
            if p_ not in BULK or not t["args"]:
                continue
            src_op = t["args"][1] if len(t["args"]) > 1 else t["args"][0]
            if src_op.get("k") == "const":
                continue
            e_ = strip_refs(expr_operand(b, src_op))
            nested = False
            for c in walk_expr(e_):
                if c.kind == "call" and c[1] in ("std::ops::Index::index", "std::ops::IndexMut::index_mut", "std::slice::<impl [T]>::get") and c[2] and \
                        len(c) > 3 and isinstance(c[3], int) and c[3] < len(b.blocks):
                    t2 = b.blocks[c[3]]["term"]
                    if t2.get("k") == "call" and t2.get("args"):
                        tys = (t2["args"][0].get("pl") or {}).get("ty") or ""
                        if "Vec<std::vec::Vec<" in tys or "Vec<Vec<" in tys or "[std::vec::Vec<" in tys:
                            nested = True
            if p_ in ("std::clone::Clone::clone", "std::slice::<impl [T]>::to_vec") and not nested:
                continue
            if nested:
                n_bulk += 1
                ctx.bad(rule, "list-concat|%s" % short(b.id), m.where(b, bb),
                        "%s copies a whole per-function list (an element of a Vec<Vec<..>>) into another collection inside build(): lists "
                        "assembled from their successors' lists grow with the number of paths, not of functions" % p_.split("::")[-1])
    wl, others = worklist_loops(ctx, bodies)
    for b, hdr, kind in others:
        ctx.check(kind == "collection-bounded", rule, "loop|%s|bb%d" % (short(b.id), hdr), m.where(b, hdr),
                  "loop is driven by an iterator over a collection", "loop in build() is neither collection-bounded nor a guarded worklist")
    n_push = 0
    for (b, hdr, loop, popbb, q) in wl:
        where = m.where(b, popbb)
        # pushes onto the same queue anywhere in the bodies reachable from the loop body
        loop_bodies = {b.id}
        for bb in loop:
            for s in b.blocks[bb]["stmts"]:
                if s["k"] == "assign" and s["rv"]["k"] == "agg" and s["rv"]["ak"] == "closure":
                    loop_bodies |= m.reach(s["rv"]["def"])
            t = b.blocks[bb]["term"]
            if t["k"] == "call" and callee_path(t) in fb.bodies:
                loop_bodies |= m.reach(callee_path(t))
        for bid in sorted(loop_bodies):
            pb = fb.bodies[bid]
            for bb, t in pb.calls():
                if callee_path(t) not in PUSH_FNS:
                    continue
                if bid == b.id and bb not in loop:
                    continue
                qs = fl.sources_operand(pb, t["args"][0])
                if not (set(qs) & set(q)):
                    continue
                n_push += 1
                ok, why = progress_guard(ctx, pb, bb, t)
                if not ok and len(t["args"]) > 1 and callee_path(t).split("::")[-1] in ("extend", "append"):
                    # `queue.extend(children.filter_map(|c| raise(ranks, c, cand).then_some(c)))`: what is queued is filtered by a
                    # private compare-and-store helper that reports a strict improvement
                    for c in iterator_chain(ctx, pb, expr_operand(pb, t["args"][1])):
                        if c[0] not in ("std::iter::Iterator::filter_map", "std::iter::Iterator::filter") or len(c[2][2]) < 2:
                            continue
                        fcl = closure_of_arg(ctx, c[1], c[2][2][1])
                        rs_ = strip_refs(return_expr(fcl)) if fcl is not None and return_expr(fcl) is not None else None
                        if rs_ is None:
                            continue
                        cond = strip_refs(rs_[2][0]) if rs_.kind == "call" and rs_[1].endswith("::then_some") and rs_[2] else rs_
                        if cond.kind == "call" and cond[1] in fb.bodies and fb.bodies[cond[1]].kind == "fn":
                            H = fb.bodies[cond[1]]
                            for st in stores_through_index(H):
                                okg, whyg = progress_guard(ctx, H, st["bb"], {"args": [st["container"], st["idx"]]})
                                gsy = {}
                                pch = path_conditions(H, H.exits()[0], sym_bb=gsy, ret_local=0) if len(H.exits()) == 1 else None
                                gsb = {sb for sb, de, vals in cond_guards(H, st["bb"])}
                                sy = [k for k, bbs in gsy.items() if bbs & gsb]
                                if okg and pch and len(sy) == 1 and faithful_return(H, sy)[0]:
                                    ok, why = True, "filtered by %s: %s" % (short(H.id), whyg)
                ctx.check(ok, rule, "worklist-progress|%s" % short(pb.id), m.where(pb, bb),
                          "push onto the popped work queue is control dependent on a progress guard (%s): each node is re-queued at most once per distinct value" % why,
                          "push onto the popped work queue has no progress guard (%s): the number of pops equals the number of root-to-node paths, exponential on layered/dense graphs" % why)
    # dependency calls into the graph library: only operations known to be polynomial
    n_dep = 0
    for bx in bodies:
        for bb, t in bx.calls():
            p = callee_path(t) or ""
            if p.startswith("daggy::") or p.startswith("petgraph::"):
                n_dep += 1
                base = p.split("::<")[0] if False else p
                if not any(base.endswith(x) or base == x for x in POLY_GRAPH_CALLS):
                    ctx.unverifiable(rule, "graph-library-call|%s|%s" % (short(bx.id), p.split("::")[-1]), m.where(bx, bb),
                                     "build() calls %s, which is not among the graph-library operations known to be polynomial (e.g. simple-path enumeration is exponential)" % p)
    ctx.counts[rule + ".graph_library_calls"] = n_dep
    ctx.counts[rule + ".worklists"] = len(wl)
    ctx.counts[rule + ".pushes"] = n_push
    # the rank relaxation is the one worklist expected today
    rc = rank_calc_body(ctx)
    if rc is not None and not any(b.id in m.reach(rc.id) for (b, _, _, _, _) in wl):
        # no worklist at all in rank calc: fine if it has no loops other than collection-bounded ones
        ctx.note("rank calculation has no worklist loop")
    ctx.floor(rule, 2, "loop-inventory obligations")


def progress_guard(ctx, body, bb, t):
    """Is the push at bb control dependent on a strict-improvement /
    test-and-set / counter-zero guard?"""
    fl = ctx.model.flow
    pushed = strip_refs(expr_operand(body, t["args"][1])) if len(t["args"]) > 1 else None
    gs = cond_guards(body, bb)
    if not gs:
        return False, "unconditional push"
    stores = stores_through_index(body)
    for sb, de, vals in gs:
        e = strip_refs(de)
        taken_true = "otherwise" in vals and "0" not in vals
        taken_false = "0" in vals and "otherwise" not in vals
        cmp_ = None
        if e.kind == "call" and e[1] in ("std::cmp::PartialOrd::gt", "std::cmp::PartialOrd::lt", "std::cmp::PartialOrd::ge", "std::cmp::PartialOrd::le"):
            op = e[1].split("::")[-1]
            cmp_ = (op, strip_refs(e[2][0]), strip_refs(e[2][1]))
        elif e.kind == "call" and e[1] == "std::cmp::PartialEq::ne" and len(e[2]) == 2:
            # `max(existing, candidate) != existing`: true exactly when the candidate is strictly greater
            l_, r_ = strip_refs(e[2][0]), strip_refs(e[2][1])
            for mx, ex in ((l_, r_), (r_, l_)):
                if mx.kind == "call" and mx[1] in ("std::cmp::max", "std::cmp::Ord::max") and \
                        any(fmt_expr(strip_refs(a_), body) == fmt_expr(ex, body) for a_ in mx[2]):
                    cmp_ = ("ne", l_, r_)
        elif e.kind == "binop" and e[1] in ("Gt", "Lt", "Ge", "Le", "Ne"):
            cmp_ = (e[1].lower(), strip_refs(e[2]), strip_refs(e[3]))
        if cmp_:
            op, l, r = cmp_
            strict = (op in ("gt", "lt", "ne") and taken_true) or (op in ("ge", "le") and taken_false)
            if not strict:
                continue
            # one side is the existing per-node value V[i], and V[i] is overwritten with the other side in the guarded region
            for (old, new) in ((l, r), (r, l)):
                er = elem_read(old) if old.kind != "local" else None
                if old.kind == "local" or old.kind == "deref":
                    # local copy of an element read
                    er = elem_read(old)
                if er is None:
                    continue
                for st in stores:
                    if not body.dominates(sb, st["bb"]):
                        continue
                    if fl.sources_operand(body, st["container"]) != sources_of_expr(ctx, body, er[0]):
                        continue
                    i1 = node_index_arg(expr_operand(body, st["idx"]))
                    i2 = node_index_arg(er[1])
                    if i1 is None or i2 is None or not same_value_expr(ctx, body, i1, i2):
                        continue
                    newv = strip_refs(st["value"])
                    if same_value_expr(ctx, body, newv, new) or fmt_expr(newv, body) == fmt_expr(new, body):
                        # and the pushed node is that node
                        if pushed is None or same_value_expr(ctx, body, pushed, i1) or \
                                any(strip_refs(x) == strip_refs(i1) for x in walk_expr(pushed)):
                            return True, "strict improvement `%s %s %s` with the improved value stored" % (fmt_expr(l, body), op, fmt_expr(r, body))
        # `if self.rank_raise(child, candidate) { queue.push(child) }`: a private helper that stores the candidate exactly when
        # it is a strict improvement and returns whether it did
        if e.kind == "call" and e[1] in ctx.fb.bodies and taken_true and ctx.fb.bodies[e[1]].kind == "fn" and \
                not (ctx.fb.fns.get(e[1]) or {}).get("public"):
            hb = ctx.fb.bodies[e[1]]
            hre = return_expr(hb)
            if hre is not None and not hb.back_edges():
                hstores = stores_through_index(hb)
                for st in hstores:
                    for hsb, hde, hvals in cond_guards(hb, st["bb"]):
                        he = strip_refs(hde)
                        if fmt_expr(he, hb) != fmt_expr(strip_refs(hre), hb) or not ("otherwise" in hvals and "0" not in hvals):
                            continue
                        hc = None
                        if he.kind == "call" and he[1] in ("std::cmp::PartialOrd::gt", "std::cmp::PartialOrd::lt"):
                            hc = (strip_refs(he[2][0]), strip_refs(he[2][1]))
                        elif he.kind == "binop" and he[1] in ("Gt", "Lt"):
                            hc = (strip_refs(he[2]), strip_refs(he[3]))
                        if hc is None:
                            continue
                        for (old, new) in (hc, hc[::-1]):
                            er = elem_read(old)
                            if er is None:
                                continue
                            i1 = node_index_arg(expr_operand(hb, st["idx"]))
                            i2 = node_index_arg(er[1])
                            if i1 is None or i2 is None or not same_value_expr(ctx, hb, i1, i2):
                                continue
                            if fl.sources_operand(hb, st["container"]) != sources_of_expr(ctx, hb, er[0]):
                                continue
                            newv = strip_refs(st["value"])
                            if not (same_value_expr(ctx, hb, newv, new) or fmt_expr(newv, hb) == fmt_expr(new, hb)):
                                continue
                            # the node whose value was raised is the node pushed at the call
                            i1s = strip_refs(i1)
                            if i1s.kind == "arg" and 1 <= i1s[1] <= len(e[2]):
                                ai = strip_refs(e[2][i1s[1] - 1])
                                if pushed is None or same_value_expr(ctx, body, pushed, ai) or any(strip_refs(x) == ai for x in walk_expr(pushed)):
                                    return True, "strict improvement stored by %s, which returns whether it stored" % short(hb.id)
        # test-and-set visited flag
        if e.kind in ("deref", "local", "call", "unop"):
            x = e[2] if e.kind == "unop" else e
            er = elem_read(x)
            if er is not None:
                for st in stores:
                    if body.dominates(sb, st["bb"]) and st["value"].kind == "const" and \
                            fl.sources_operand(body, st["container"]) == sources_of_expr(ctx, body, er[0]):
                        # the flag that is tested and set is the flag OF THE NODE BEING QUEUED (a flag of some other node, e.g. the
                        # pair scan's seen flag around a whole inner search, bounds nothing)
                        fi = node_index_arg(er[1])
                        bulk = (callee_path(t) or "").split("::")[-1] in ("extend", "append", "extend_from_slice") if isinstance(t, dict) and t.get("callee") else False
                        if pushed is not None and fi is not None and (same_value_expr(ctx, body, pushed, fi) or
                                                                      (not bulk and any(strip_refs(x_) == strip_refs(fi) for x_ in walk_expr(pushed)))):
                            return True, "test-and-set visited flag"
        # counter reaching zero after decrement
        if e.kind == "binop" and e[1] == "Eq" and (is_const(e[3], 0) or is_const(e[2], 0)):
            x = e[2] if is_const(e[3], 0) else e[3]
            er = elem_read(x)
            if er is not None:
                for st in stores:
                    v = st["value"]
                    if v.kind == "binop" and v[1] == "Sub" and body.dominates(st["bb"], sb) and \
                            fl.sources_operand(body, st["container"]) == sources_of_expr(ctx, body, er[0]):
                        return True, "counter reaching zero after its decrement"
    return False, "guards: %s" % [fmt_expr(strip_refs(de), body) for sb, de, vals in gs]


def emptiness_polarity(ctx, body, e, depth=0):
    """+1 if the boolean expression is true exactly when the walk it tests is
    empty, -1 when non-empty, None if not recognised."""
    e = strip_refs(e)
    if depth > 4:
        return None
    if e.kind == "unop" and e[1] == "Not":
        r = emptiness_polarity(ctx, body, e[2], depth + 1)
        return -r if r else None
    if e.kind == "call":
        p = e[1]
        if p.endswith("Option::<T>::is_none"):
            return 1
        if p.endswith("Option::<T>::is_some"):
            return -1
        if p == "std::iter::Iterator::any" and len(e[2]) > 1:
            cl = closure_of_arg(ctx, body, e[2][1])
            re_ = return_expr(cl) if cl is not None else None
            if re_ is not None and re_.kind == "const" and str(re_[1]) in ("1", "true"):
                return -1
            return None
        if p in ctx.fb.bodies:
            cb = ctx.fb.bodies[p]
            re_ = return_expr(cb)
            return emptiness_polarity(ctx, cb, re_, depth + 1) if re_ is not None else None
        return None
    if e.kind == "binop" and e[1] in ("Eq", "Ne", "Gt", "Lt"):
        a, b_ = strip_refs(e[2]), strip_refs(e[3])
        cnt = a if is_const(b_, 0) else (b_ if is_const(a, 0) else None)
        if cnt is not None and cnt.kind == "call" and cnt[1].endswith("::count"):
            return 1 if e[1] == "Eq" else -1
    return None


def keep_polarity(ctx, fcl, adaptor):
    """polarity of the emptiness test under which a filter / filter_map closure keeps its element"""
    if adaptor == "std::iter::Iterator::filter":
        re_ = return_expr(fcl)
        return emptiness_polarity(ctx, fcl, re_) if re_ is not None else None
    # filter_map(|x| pred(x).then_some(x)): kept exactly when the predicate is true
    re0 = return_expr(fcl)
    if re0 is not None:
        r0 = strip_refs(re0)
        if r0.kind == "call" and r0[1].endswith(("::then_some", "bool::then")) and r0[2]:
            return emptiness_polarity(ctx, fcl, r0[2][0])
    # filter_map: the `Some` result is control dependent on the predicate
    for kind, dbb, si, x in get_defs(fcl).of(0):
        if kind == "stmt" and x["rv"]["k"] == "agg" and x["rv"].get("variant") == "Some":
            for sb, de, vals in cond_guards(fcl, dbb):
                pol = emptiness_polarity(ctx, fcl, de)
                if pol is None:
                    continue
                taken_true = "otherwise" in vals and "0" not in vals
                taken_false = "0" in vals and "otherwise" not in vals
                if taken_true:
                    return pol
                if taken_false:
                    return -pol
    return None


def C13_rules(ctx, rule="K"):
    """K1-K5"""
    m, fl, fb = ctx.model, ctx.model.flow, ctx.fb
    rc = rank_calc_body(ctx)
    if rc is None:
        ctx.unverifiable(rule + "1", "rank-calc", "-", "rank calculation function not found")
        return
    where = m.where(rc)
    # K1: initial ranks
    rsrc = fl.sources_local(rc, 0, ())
    allocs = [s for s in rsrc if s.kind == "alloc"]
    ok1 = False
    why = "returned ranks do not come from one vec![Rank(0); node_count]"
    if len(allocs) == 1 and allocs[0][4] == "std::vec::from_elem" and allocs[0][1] == rc.id:
        t = rc.blocks[allocs[0][2]]["term"]
        e0 = strip_refs(expr_operand(rc, t["args"][0]))
        e1 = strip_refs(expr_operand(rc, t["args"][1]))
        ok1 = e0.kind == "agg" and e0[2] == "rank::Rank" and is_const(e0[4][0], 0) and e1.kind == "call" and e1[1] in NODE_COUNT_FNS
        why = "initial ranks are vec![%s; %s]" % (fmt_expr(e0, rc), fmt_expr(e1, rc))
    elif len(allocs) == 1 and allocs[0][4] == "std::iter::Iterator::collect" and allocs[0][1] == rc.id:
        # repeat(Rank(0)).take(node_count).collect()
        t = rc.blocks[allocs[0][2]]["term"]
        chain = iterator_chain(ctx, rc, expr_operand(rc, t["args"][0]))
        names = [c[0] for c in chain]
        if names[:2] == ["std::iter::Iterator::take", "std::iter::repeat"] or names[:1] == ["std::iter::repeat_n"]:
            if names[0] == "std::iter::repeat_n":
                e0 = strip_refs(chain[0][2][2][0])
                e1 = strip_refs(chain[0][2][2][1])
            else:
                e1 = strip_refs(chain[0][2][2][1])
                e0 = strip_refs(chain[1][2][2][0])
            ok1 = e0.kind == "agg" and e0[2] == "rank::Rank" and is_const(e0[4][0], 0) and e1.kind == "call" and e1[1] in NODE_COUNT_FNS
            why = "initial ranks are repeat(%s).take(%s)" % (fmt_expr(e0, rc), fmt_expr(e1, rc))
    if not ok1 and len(allocs) == 1 and allocs[0][4] == "std::vec::from_elem" and allocs[0][1] in fb.bodies and allocs[0][1] != rc.id and \
            allocs[0][1] in m.reach(rc.id) and not (fb.fns.get(allocs[0][1]) or {}).get("public"):
        # the vector is made by a private constructor of the calculation's working state (`RankPropagation::new(node_count)`)
        hb_ = fb.bodies[allocs[0][1]]
        t = hb_.blocks[allocs[0][2]]["term"]
        e0 = strip_refs(expr_operand(hb_, t["args"][0]))
        nsrc = fl.sources_operand(hb_, t["args"][1])
        ok1 = e0.kind == "agg" and e0[2] == "rank::Rank" and is_const(e0[4][0], 0) and bool(nsrc) and \
            all(x.kind == "alloc" and x[4] in NODE_COUNT_FNS for x in nsrc)
        why = "initial ranks are vec![%s; n] in %s with n from %s" % (fmt_expr(e0, hb_), short(hb_.id), [fmt_src(x) for x in nsrc][:2])
    ctx.check(ok1, rule + "1", "init", where, "initial ranks are Rank(0) for node_count() entries", why)
    # K2: seeds = nodes without parents
    wl, others = worklist_loops(ctx, m.reach_bodies(rc.id))
    if wl:
        b, hdr, loop, popbb, q = wl[0]
        seeds_ok = False
        why = "work queue is not a collect() of the nodes without parents"
        helper_ids = {bx.id for bx in m.reach_bodies(rc.id) if bx.kind == "fn" and not (fb.fns.get(bx.id) or {}).get("public")} | {rc.id}
        colls = [s for s in q if s.kind == "alloc" and s[4] == "std::iter::Iterator::collect" and s[1] in helper_ids and not s[3]]
        fill = None
        if len(colls) == 1:
            cbody = fb.bodies[colls[0][1]]      # the rank calculation itself or a private helper that builds the queue
            fill = (cbody, cbody.blocks[colls[0][2]]["term"]["args"][0])
        elif not colls:
            # `queue = VecDeque::new(); queue.extend(<nodes without parents>)` before the loop (possibly in a private helper)
            exts = []
            for hid in sorted(helper_ids):
                hb_ = fb.bodies[hid]
                for ebb, et in hb_.calls():
                    if callee_path(et) == "std::iter::Extend::extend" and len(et["args"]) > 1 and set(fl.sources_operand(hb_, et["args"][0])) & set(q):
                        exts.append((hb_, ebb, et))
            news_ = [s_ for s_ in q if s_.kind == "alloc" and not s_[3] and s_[4].split("::")[-1] in ("new", "with_capacity", "default")]
            if len(exts) == 1 and len(news_) == 1 and len(q) == 1:
                hb_, ebb, et = exts[0]
                before = (ebb not in loop and hdr in b.reachable_fwd(ebb)) if hb_.id == b.id else \
                    all(cb_.id == b.id and cbb_ not in loop and hdr in b.reachable_fwd(cbb_)
                        for (cb_, cbb_, ct_) in fl.call_sites().get(hb_.id, []) if not fb.is_test_body(cb_)) and not hb_.back_edges()
                if before and not [g for g in cond_guards(hb_, ebb)]:
                    fill = (hb_, et["args"][1])
        if fill is not None:
            cbody = fill[0]
            chain = iterator_chain(ctx, cbody, expr_operand(cbody, fill[1]))
            names = [c[0] for c in chain]
            srcn = [n for n in names if n in ALL_NODE_SOURCES] or (["range"] if ranges_all_nodes(chain) else [])
            filt = [(p, cb, e) for p, cb, e in chain if p in ("std::iter::Iterator::filter_map", "std::iter::Iterator::filter")]
            ext = [(p, cb, e) for p, cb, e in chain if p.endswith("::externals")]
            if ext and not filt and not [n for n in names if n in SELECTIVE_ITER]:
                # petgraph's externals(Incoming): exactly the nodes without incoming edges
                d = strip_refs(ext[0][2][2][1]) if len(ext[0][2][2]) > 1 else None
                dn = None
                if d is not None and d.kind == "agg":
                    dn = d[3]
                seeds_ok = dn == "Incoming"
                why = "work queue is graph.externals(%s)" % dn
            if srcn and len(filt) == 1:
                fcl = closure_of_arg(ctx, filt[0][1], filt[0][2][2][1])
                if fcl is not None:
                    # the predicate: a crate-local fn `parents(g, id).walk_next(g).is_none()` (or inline)
                    bodies = m.reach_bodies(fcl.id)
                    has_parents = any(callee_path(t) == PARENTS for bx in bodies for _, t in bx.calls())
                    has_children = any(callee_path(t) == CHILDREN for bx in bodies for _, t in bx.calls())
                    pol = keep_polarity(ctx, fcl, filt[0][0])
                    seeds_ok = has_parents and not has_children and pol == 1
                    why = "seed predicate uses parents=%s children=%s; element kept when the parent walk is %s" % (
                        has_parents, has_children, {1: "empty", -1: "NON-empty", None: "?"}[pol])
        if not seeds_ok and not colls and fill is None:
            # the queue starts empty and is filled by a loop over all nodes that pushes exactly the parent-less ones
            news = [s_ for s_ in q if s_.kind == "alloc" and s_[1] == rc.id and not s_[3] and s_[4].split("::")[-1] in ("new", "with_capacity", "default")]
            pre = []
            for pbb, pt in rc.calls():
                if callee_path(pt) in PUSH_FNS and pbb not in loop and set(fl.sources_operand(rc, pt["args"][0])) & set(q) and rc.dominates(pbb, hdr) is False:
                    pre.append((pbb, pt))
            pre = [(pbb, pt) for pbb, pt in pre if hdr in rc.reachable_fwd(pbb) or True]
            if len(news) == 1 and len(pre) == 1:
                pbb, pt = pre[0]
                lrp = loop_region(ctx, rc, pbb)
                if lrp is not None and not lrp["early_exits"]:
                    chain = iterator_chain(ctx, rc, lrp["iter_expr"]) if lrp.get("iter_expr") is not None else []
                    names = [c[0] for c in chain]
                    all_nodes = ranges_all_nodes(chain) and not [n_ for n_ in names if n_ in SELECTIVE_ITER]
                    pushed = strip_refs(expr_operand(rc, pt["args"][1]))
                    ip = loop_item_path(pushed)
                    item_ok = ip is not None and ip[0] == lrp["next_bb"]
                    pols = []
                    others_g = []
                    for sb, de, vals in cond_guards(rc, pbb):
                        if sb == lrp.get("switch_bb"):
                            continue
                        pol = emptiness_polarity(ctx, rc, de)
                        tt = "otherwise" in vals and "0" not in vals
                        tf = "0" in vals and "otherwise" not in vals
                        if pol is not None and (tt or tf):
                            pols.append(pol if tt else -pol)
                        else:
                            others_g.append(fmt_expr(strip_refs(de), rc))
                    bodies = [bx for g in cond_guards(rc, pbb) for c in walk_expr(strip_refs(g[1])) if c.kind == "call" and c[1] in fb.bodies for bx in m.reach_bodies(c[1])] + [rc]
                    has_parents = any(callee_path(t2) == PARENTS for bx in bodies for _, t2 in bx.calls())
                    has_children_pred = any(callee_path(t2) == CHILDREN for bx in bodies if bx.id != rc.id for _, t2 in bx.calls())
                    seeds_ok = all_nodes and item_ok and pols == [1] and not others_g and has_parents and not has_children_pred
                    why = "seeding loop: over all nodes %s, pushes the loop item %s, guard polarity %s, other guards %s, parents walk %s" % (
                        all_nodes, item_ok, pols, others_g, has_parents)
        ctx.check(seeds_ok, rule + "2", "seeds", m.where(rc), "the work queue is seeded with exactly the nodes that have no parents", why)
    else:
        ctx.unverifiable(rule + "2", "seeds", where, "no worklist loop found in the rank calculation")
    # K3/K4: stores to ranks
    n_store = 0
    for bx in m.reach_bodies(rc.id):
        for st in stores_through_index(bx):
            csrc = fl.sources_operand(bx, st["container"])
            if not (set(csrc) & set(allocs)):
                continue
            n_store += 1
            swhere = m.where(bx, st["bb"], st["si"])
            v = strip_refs(st["value"])
            # candidate = ranks[parent] + 1, directly or through max(existing, cand)
            cand = v
            via_max = False
            if v.kind == "call" and v[1] in ("std::cmp::max", "std::cmp::Ord::max"):
                via_max = True
                ops = [strip_refs(x) for x in v[2]]
                # the operand that is not ranks[child]
                idx_child = node_index_arg(expr_operand(bx, st["idx"]))
                cand = None
                for o in ops:
                    er = elem_read(o)
                    if er is None or not same_value_expr(ctx, bx, node_index_arg(er[1]) or er[1], idx_child):
                        cand = o
            helper_sites = None
            cs_ = strip_refs(cand) if cand is not None else None
            if bx.kind == "fn" and bx.id != rc.id and not (fb.fns.get(bx.id) or {}).get("public") and cs_ is not None and cs_.kind == "arg" and not via_max:
                # `fn rank_raise(ranks, child, candidate) -> bool`: compare-and-store in a private helper that reports whether it
                # raised; what the candidate is and whether the child is queued is decided at its call sites
                helper_sites = [(cb_, cbb_, ct_) for (cb_, cbb_, ct_) in fl.call_sites().get(bx.id, []) if cb_.id in m.reach(rc.id) and not fb.is_test_body(cb_)]
            if helper_sites:
                ok3, why3 = True, ""
                for (cb_, cbb_, ct_) in helper_sites:
                    o3, w3 = candidate_ok(ctx, cb_, expr_operand(cb_, ct_["args"][cs_[1] - 1]), allocs)
                    if not o3:
                        ok3, why3 = False, w3
                # the helper stores only under its comparison and returns exactly that comparison's outcome
                gsyms = {}
                pcs_h = path_conditions(bx, bx.exits()[0], sym_bb=gsyms, ret_local=0) if len(bx.exits()) == 1 else None
                gsb = {sb for sb, de, vals in cond_guards(bx, st["bb"])}
                syms_h = [sy for sy, bbs in gsyms.items() if bbs & gsb]
                f_ok, f_why = faithful_return(bx, syms_h) if pcs_h and len(syms_h) == 1 else (False, "no single guard around the store")
                taken_true = any("otherwise" in vals and "0" not in vals for sb, de, vals in cond_guards(bx, st["bb"]) if sb in gsb)
                ctx.check(ok3 and f_ok and taken_true, rule + "3", "store|%s" % short(bx.id), swhere,
                          "the helper stores its candidate (ranks[parent] + 1 at every call site) under a `candidate > existing` guard and returns whether it did",
                          "raise helper: candidate at the call sites: %s; returns exactly its guard: %s %s" % (why3 or "ok", f_ok, f_why))
                # K4 at the call sites: the child is queued exactly when the helper reports a raise
                ci_ = strip_refs(node_index_arg(expr_operand(bx, st["idx"])) or E(("unknown", "idx")))
                okp = ci_.kind == "arg"
                for (cb_, cbb_, ct_) in helper_sites:
                    if not okp:
                        break
                    child_e = strip_refs(expr_operand(cb_, ct_["args"][ci_[1] - 1]))
                    queued = False
                    # (a) `if raise(..) { queue.push(child) }`
                    for pbb_, pt_ in cb_.calls():
                        if callee_path(pt_) in PUSH_FNS and len(pt_["args"]) > 1 and same_value_expr(ctx, cb_, strip_refs(expr_operand(cb_, pt_["args"][1])), child_e):
                            gs_ = [(sb, strip_refs(de), vals) for sb, de, vals in cond_guards(cb_, pbb_)]
                            if any(de.kind == "call" and len(de) > 3 and de[3] == cbb_ and "0" not in vals for sb, de, vals in gs_) and \
                                    cb_.all_paths_pass(cbb_, [pbb_] + [sb for sb, de, vals in gs_ if de.kind == "call" and len(de) > 3 and de[3] == cbb_], cb_.exits()):
                                queued = True
                    # (b) `children.filter_map(|c| raise(.., c, ..).then_some(c))` handed to `queue.extend(..)`
                    re_ = return_expr(cb_) if cb_.kind == "closure" else None
                    rs_ = strip_refs(re_) if re_ is not None else None
                    if rs_ is not None and rs_.kind == "call" and rs_[1].endswith("::then_some") and len(rs_[2]) == 2:
                        cnd, val = strip_refs(rs_[2][0]), strip_refs(rs_[2][1])
                        if cnd.kind == "call" and len(cnd) > 3 and cnd[3] == cbb_ and same_value_expr(ctx, cb_, val, child_e):
                            for (ub_, ubb_, ut_, ai_) in fl.closure_uses(cb_):
                                if callee_path(ut_) != "std::iter::Iterator::filter_map":
                                    continue
                                for xbb, xt in ub_.calls():
                                    if callee_path(xt) in PUSH_FNS and len(xt["args"]) > 1:
                                        xch = iterator_chain(ctx, ub_, expr_operand(ub_, xt["args"][1]))
                                        if any(c[0] == "std::iter::Iterator::filter_map" and len(c[2]) > 3 and c[2][3] == ubb_ for c in xch) and \
                                                not [c for c in xch if c[0] in SELECTIVE_ITER and c[0] != "std::iter::Iterator::filter_map"]:
                                            queued = True
                    if not queued:
                        okp = False
                ctx.check(okp, rule + "4", "requeue|%s" % short(bx.id), swhere,
                          "wherever the raise helper is called, the child is (re)queued exactly when it reports a raise",
                          "a raise of ranks[child] reported by the helper is not followed by queueing the child: descendants keep stale ranks")
                continue
            ok3, why3 = candidate_ok(ctx, bx, cand, allocs)
            guarded = False
            if not via_max:
                ok_g, why_g = progress_guard(ctx, bx, st["bb"], {"args": [st["container"], st["idx"]]})
                # progress_guard with `pushed` = index operand: reuse for the store itself
                guarded = any(True for sb, de, vals in cond_guards(bx, st["bb"]) if strip_refs(de).kind in ("call", "binop"))
            ctx.check(ok3 and (via_max or guarded), rule + "3", "store|%s" % short(bx.id), swhere,
                      "ranks[child] is set to ranks[parent] + 1 %s" % ("merged by max" if via_max else "under a `candidate > existing` guard"),
                      "store to ranks[child] is not `max(existing, ranks[parent] + 1)` / a guarded raise: %s" % why3)
            # K4: re-queue when raised
            pushes = [(bb, t) for bb, t in bx.calls() if callee_path(t) in PUSH_FNS and bx.dominates(st["bb"], bb) or
                      (callee_path(t) in PUSH_FNS and bb == st["bb"])]
            same_region = [(bb, t) for bb, t in bx.calls() if callee_path(t) in PUSH_FNS and
                           (bx.dominates(st["bb"], bb) or bx.dominates(bb, st["bb"]))]
            ch = node_index_arg(expr_operand(bx, st["idx"]))
            okp = any(same_value_expr(ctx, bx, strip_refs(expr_operand(bx, t["args"][1])), ch) for bb, t in same_region) if ch is not None else False
            if okp:
                # ... on every path: nothing between the raise and the push can skip it
                pb_ = [bb for bb, t in same_region if same_value_expr(ctx, bx, strip_refs(expr_operand(bx, t["args"][1])), ch)]
                before = [bb for bb in pb_ if bx.dominates(bb, st["bb"]) and bb != st["bb"]]
                lr_ = loop_region(ctx, bx, st["bb"])
                ends = list(bx.exits()) + ([lr_["next_bb"]] if lr_ else [])
                nxt = st["bb"]
                if not before and not bx.all_paths_pass(nxt, pb_, ends):
                    okp = False
            ctx.check(okp, rule + "4", "requeue|%s" % short(bx.id), swhere,
                      "whenever ranks[child] may be raised the child is (re)queued, so the raise propagates to its descendants",
                      "a raise of ranks[child] is not followed by queueing the child: descendants keep stale ranks")
    # K6: neither the walk over the children of a popped node nor the worklist loop can be left before it is exhausted
    for bx in m.reach_bodies(rc.id):
        for st in stores_through_index(bx):
            if not (set(fl.sources_operand(bx, st["container"])) & set(allocs)):
                continue
            skip = ()
            for depth in range(3):
                lr_ = loop_region(ctx, bx, st["bb"], skip_headers=skip, extra_drivers=POP_DRIVERS)
                if lr_ is None:
                    break
                ctx.check(not lr_["early_exits"], rule + "4", "walk-complete|%s|%d" % (short(bx.id), depth), m.where(bx, lr_["next_bb"]),
                          "the loop around the rank update runs until its source is exhausted (every child is examined; the queue is drained)",
                          "the loop around the rank update can be left early (%s): the remaining children are neither raised nor queued, so their ranks stay too low" % (
                              ["bb%d->bb%d" % e_ for e_ in lr_["early_exits"]][:3]))
                skip = skip + (lr_["header"],)
            if bx.kind == "closure":
                us_ = fl.closure_uses(bx)
                # ... nor the loops of the enclosing body around the walk the closure is handed to (the worklist loop)
                for (ub_, ubb_, ut_, ai_) in us_:
                    skip2 = ()
                    for depth2 in range(3):
                        lr2 = loop_region(ctx, ub_, ubb_, skip_headers=skip2, extra_drivers=POP_DRIVERS)
                        if lr2 is None:
                            break
                        ctx.check(not lr2["early_exits"], rule + "4", "walk-complete|%s|outer%d" % (short(ub_.id), depth2), m.where(ub_, lr2["next_bb"]),
                                  "the loop around the children walk runs until its source is exhausted (the queue is drained)",
                                  "the loop around the children walk can be left early (%s): raises still waiting in the queue are dropped, descendants keep stale ranks" % (
                                      ["bb%d->bb%d" % e_ for e_ in lr2["early_exits"]][:3]))
                        skip2 = skip2 + (lr2["header"],)
                drv = [callee_path(u[2]) or "?" for u in us_]
                ctx.check(bool(us_) and all(d in ("std::iter::Iterator::for_each", "std::iter::Iterator::fold") or d in fb.bodies for d in drv),
                          rule + "4", "walk-driver|%s" % short(bx.id), m.where(bx),
                          "the per-child rank update is driven by %s over the children walk (no short-circuit)" % [d.split("::")[-1] for d in drv],
                          "the per-child rank update is driven by %s, which can stop before every child was examined" % drv)
    ctx.check(n_store >= 1, rule + "3", "store-count", where, "%d store(s) to the ranks vector" % n_store, "no store to the ranks vector found")
    # K5: parametricity + ranks field is the pre-augmentation value
    sig = fb.fns.get(rc.id, {})
    preds = [p for p in sig.get("preds", []) if p.startswith("F:") and "Sized" not in p]
    reads_w = []
    for bx in m.reach_bodies(rc.id):
        for bb, t in bx.calls():
            p = callee_path(t) or ""
            if p.endswith("::edge_weight") or p.endswith("::raw_edges") or p.endswith("::edge_weights_mut") or "edge_references" in p or p in ACCESS_FNS:
                reads_w.append(p)
            if p in ("std::ops::Index::index", "std::ops::IndexMut::index_mut") and len(t["args"]) > 1 and \
                    "EdgeIndex" in t["args"][1].get("pl", {}).get("ty", t["args"][1].get("ty", "")):
                reads_w.append("graph[edge_id]")
            if p == "std::iter::Iterator::for_each":
                chain = iterator_chain(ctx, bx, expr_operand(bx, t["args"][0]))
                names = [c[0] for c in chain]
                if CHILDREN in names:
                    sel = [x for x in names if x in SELECTIVE_ITER]
                    if sel:
                        reads_w.append("children walk narrowed by %s" % sel)
    ctx.check(not preds and not reads_w, rule + "5", "parametric", where,
              "the rank calculation is generic over an unbounded F, never reads an edge weight and walks all children: it cannot depend on access declarations or edge kinds",
              "rank calculation depends on F's traits %s / edge weights or a narrowed walk %s" % (preds, reads_w))
    b0 = build_body(ctx)
    roles = structure_roles(ctx)
    if b0 is not None and roles and roles.get("ranks") is not None:
        b0 = roles.get("ctor") or b0
        for bb, si, s in b0.stmts():
            if s["k"] == "assign" and s["rv"]["k"] == "agg" and s["rv"].get("def") == "fn_graph::FnGraph":
                op = s["rv"]["ops"][roles["ranks"]]
                e = strip_refs(expr_operand(b0, op))
                rs = fl.sources_operand(b0, op)
                ok5 = bool(rs) and set(rs) == set(rsrc)
                ctx.check(ok5, rule + "5", "ranks-field", m.where(b0, bb, si),
                          "FnGraph.ranks is the value returned by the rank calculation, unchanged",
                          "FnGraph.ranks is not the rank calculation's result: %s" % [fmt_src(x) for x in rs])


def candidate_ok(ctx, body, cand, rank_allocs):
    """cand == ranks[parent] + 1 where parent is the popped node whose children are walked"""
    fl, fb = ctx.model.flow, ctx.fb
    if cand is None:
        return False, "no candidate operand"
    # resolve through captured variable
    e = cand
    b = body
    hops = 0
    while hops < 4:
        e = strip_refs(e)
        ui = upvar_index(e)
        if ui is not None and b.parent:
            sites = fl.closure_sites().get(b.id, [])
            if len(sites) != 1:
                break
            pb, bb, si, s = sites[0]
            e = expr_operand(pb, s["rv"]["ops"][ui])
            b = pb
            hops += 1
            continue
        break
    e = strip_refs(e)
    one = None
    base = None
    if e.kind == "call" and e[1] == "std::ops::Add::add":
        base, one = strip_refs(e[2][0]), e[2][1]
        # Rank: Add<usize> must add the fields
        t = b.blocks[e[3]]["term"]
        r = (t.get("callee") or {}).get("resolved")
        if isinstance(r, dict) and r["path"] in fb.bodies:
            ab = fb.bodies[r["path"]]
            re_ = return_expr(ab)
            okadd = re_ is not None and re_.kind == "agg" and re_[4] and strip_refs(re_[4][0]).kind == "binop" and strip_refs(re_[4][0])[1] == "Add"
            if not okadd:
                return False, "Rank + usize is implemented as %s" % (fmt_expr(re_, ab) if re_ is not None else "?")
    elif e.kind == "binop" and e[1] == "Add":
        base, one = strip_refs(e[2]), e[3]
    elif e.kind == "agg" and e[2] == "rank::Rank" and e[4]:
        inner = strip_refs(e[4][0])
        if inner.kind == "binop" and inner[1] == "Add":
            base, one = strip_refs(inner[2]), inner[3]
    if base is None:
        return False, "candidate is `%s`, not ranks[parent] + 1" % fmt_expr(e, b)
    one_s = strip_refs(one)
    if one_s.kind == "agg" and one_s[2] == "rank::Rank" and len(one_s[4]) == 1:
        one = one_s[4][0]        # `ranks[p] + Rank(1)` through `Add<Rank> for Rank` (its body was checked to add the fields)
    if not is_const(one, 1):
        return False, "increment is %s, not 1" % fmt_expr(one, b)
    er = elem_read(base)
    if er is None and base.kind == "field":
        er = elem_read(base[1])
    if er is None:
        return False, "base `%s` is not an element of the ranks vector" % fmt_expr(base, b)
    cs = sources_of_expr(ctx, b, er[0])
    if not (set(cs) & set(rank_allocs)):
        return False, "base is not read from the ranks vector"
    pid = node_index_arg(er[1])
    psrc = sources_of_expr(ctx, b, pid) if pid is not None else frozenset()
    popped = bool(psrc) and all(s.kind == "alloc" and s[4] in POP_FNS or (s.kind == "alloc" and "$item" in s[3] and "collect" in s[4]) for s in psrc)
    # children are taken of that same node
    ok_ch = False
    for bb, t in b.calls():
        if callee_path(t) == CHILDREN:
            if fl.sources_operand(b, t["args"][1]) == psrc:
                ok_ch = True
    if not ok_ch:
        # ... or inside a private helper that is handed that node (`Self::child_fn_ids(graph, fn_id)`)
        for bb, t in b.calls():
            hp = callee_path(t) or ""
            H = fb.bodies.get(hp)
            if H is None or H.kind != "fn":
                continue
            for hbb, ht in H.calls():
                if callee_path(ht) == CHILDREN and len(ht["args"]) > 1:
                    for q in fl.sources_operand(H, ht["args"][1], (), "prov@" + H.id):
                        if q.kind == "param" and q[1] == H.id and not q[3] and q[2] - 1 < len(t["args"]) and \
                                fl.sources_operand(b, t["args"][q[2] - 1]) == psrc:
                            ok_ch = True
    if not ok_ch:
        return False, "children() is not walked for the node whose rank is the base"
    return True, ""


# ---------------------------------------------------------------------------
# C16: builder edge methods

def per_element_insertion(ctx, M, ins):
    """The insertion runs once per element of the edge array, in array order,
    with (from, to) = the element's two ids, and stops at the first error."""
    m, fl, fb = ctx.model, ctx.model.flow, ctx.fb
    L = ins["ends_frame"]
    a, c = ins["a"], ins["c"]
    # the call performed per element in L: the mutator itself or the link towards it
    site_bb = None
    if ins["site"][0].id == L.id:
        site_bb = ins["site"][1]
    else:
        for (cb, cbb, ct) in ins.get("links", []):
            if cb.id == L.id:
                site_bb = cbb
    if site_bb is None:
        return False, "cannot locate the per-element insertion in %s" % short(L.id)
    if L.kind == "closure":
        ok_ft = a.kind == "field" and c.kind == "field" and a[1] == c[1] and (a[2], c[2]) == (0, 1) and \
            any(x.kind == "arg" for x in walk_expr(a))
        uses = fl.closure_uses(L)
        if len(uses) != 1:
            return False, "per-element closure is not passed to one consumer"
        pb, ubb, ut, ai = uses[0]
        cons = callee_path(ut)
        hsites = fl.internal_callback_sites(L) if cons in fb.bodies else []
        if cons in fb.bodies and len(hsites) == 1 and hsites[0][0].kind == "fn" and not (fb.fns.get(cons) or {}).get("public"):
            # the closure is handed to a private generic helper (`try_map_array(edges, |(from, to)| ..)`) that calls it once per
            # element of the array it is given, in a loop that stops at the first error
            H, hbb, ht = hsites[0]
            lr = loop_region(ctx, H, hbb)
            if lr is None:
                return False, "helper %s does not call the per-element closure inside a loop over the array" % short(H.id)
            for (x, s_) in lr["early_exits"]:
                fr = [bb2 for bb2, t2 in H.calls() if callee_path(t2) == "std::ops::FromResidual::from_residual"]
                if not fr or not H.all_paths_pass(s_, fr, H.exits()):
                    return False, "the helper's loop can be left early without returning the error"
            if [g for g in cond_guards(H, hbb) if g[0] in lr["blocks"] and g[0] != lr.get("switch_bb")]:
                return False, "the helper calls the per-element closure conditionally"
            tb = [bb2 for bb2, t2 in H.calls() if callee_path(t2) == "std::ops::Try::branch" and bb2 in lr["blocks"]]
            nxt = H.blocks[hbb]["term"].get("target")
            if nxt is None or not H.all_paths_pass(nxt, tb, [lr["next_bb"]]):
                return False, "the helper goes on to the next element without examining the closure's result (`?`)"
            # the element given to the closure is the loop item, the loop runs over the array parameter that receives `edges`
            item_ok = False
            if len(ht["args"]) > 1:
                ae = strip_refs(expr_operand(H, ht["args"][1]))
                if ae.kind == "agg" and ae[4]:
                    ae = strip_refs(ae[4][0])
                ip = loop_item_path(ae)
                item_ok = ip is not None and ip[0] == lr["next_bb"]
            chain = iterator_chain(ctx, H, lr["iter_expr"]) if lr.get("iter_expr") is not None else []
            arr_params = {s_[2] for c_ in chain if not c_[0].startswith("leaf:") and c_[2].kind == "call" and c_[2][2]
                          for s_ in sources_of_expr(ctx, c_[1], c_[2][2][0], mode="prov@" + H.id) if s_.kind == "param" and s_[1] == H.id and not s_[3]}
            arr_ok = False
            for ap in arr_params:
                if ap - 1 < len(ut["args"]):
                    asrc = fl.sources_operand(pb, ut["args"][ap - 1])
                    if asrc and all(q.kind == "param" and q[1] == M.id and q[2] == 2 and not q[3] for q in asrc):
                        arr_ok = True
            if not (item_ok and arr_ok):
                return False, "helper %s: closure applied to the loop item: %s, loop over this method's edge array: %s" % (short(H.id), item_ok, arr_ok)
            if cond_guards(L, site_bb) or L.back_edges():
                return False, "the insertion is conditional / repeated inside the per-element closure"
        elif cons not in ("std::iter::Iterator::try_for_each", "std::iter::Iterator::try_fold"):
            return False, "does not use a short-circuiting try_for_each over the edges (%s)" % cons
        else:
            chain = iterator_chain(ctx, pb, expr_operand(pb, ut["args"][0]))
            if cond_guards(L, site_bb) or L.back_edges():
                return False, "the insertion is conditional / repeated inside the per-element closure"
    else:
        lr = loop_region(ctx, L, site_bb)
        if lr is None:
            return False, "the insertion is not inside a loop over the edge array"
        ia, ic = loop_item_path(a), loop_item_path(c)
        ok_ft = ia is not None and ic is not None and ia[0] == ic[0] == lr["next_bb"] and ia[1][:-1] == ic[1][:-1] and (ia[1][-1], ic[1][-1]) == (0, 1)
        chain = iterator_chain(ctx, L, lr["iter_expr"]) if lr.get("iter_expr") is not None else []
        # leaving the loop early is allowed only on the error path (`?`)
        for (x, s_) in lr["early_exits"]:
            fr = [bb2 for bb2, t2 in L.calls() if callee_path(t2) == "std::ops::FromResidual::from_residual"]
            if not fr or not L.all_paths_pass(s_, fr, L.exits()):
                return False, "the loop over the edges can be left early without returning the error"
        gs = [g for g in cond_guards(L, site_bb) if g[0] in lr["blocks"] and g[0] != lr.get("switch_bb")]
        if gs:
            return False, "the insertion is conditional inside the loop"
        tb = [bb2 for bb2, t2 in L.calls() if callee_path(t2) == "std::ops::Try::branch" and bb2 in lr["blocks"]]
        nxt = L.blocks[site_bb]["term"].get("target")
        if nxt is None or not L.all_paths_pass(nxt, tb, [lr["next_bb"]]):
            return False, "the loop goes on to the next edge without examining the result of the insertion (`?`): edges after a failing one are still added"
    if not ok_ft:
        return False, "endpoints are not the (from, to) pair of the iterated element: (%s, %s)" % (fmt_expr(a, L), fmt_expr(c, L))
    if any(x.kind == "index" for e_ in (a, c) for x in walk_expr(e_)):
        return False, "endpoints are looked up by a computed index (%s, %s), not taken from the element the iteration hands out: the order " \
                      "of insertion is whatever the index sequence says" % (fmt_expr(a, L), fmt_expr(c, L))
    for bid in ctx.model.reach(M.id):
        if bid == M.id or bid.startswith(M.id + "::"):
            for bb_, t_ in fb.bodies[bid].calls():
                if (callee_path(t_) or "").split("::")[-1] in REORDER_OPS and t_["args"] and t_["args"][0]["k"] != "const" and \
                        ((t_["args"][0].get("pl") or {}).get("ty") or "").startswith(("&mut [", "&mut std::vec::Vec<")):
                    return False, "the batch form reorders a sequence (`%s`) before inserting" % (callee_path(t_) or "").split("::")[-1]
    names = [x[0] for x in chain]
    sel = [x for x in names if x in SELECTIVE_ITER or x == "std::iter::Iterator::rev"]
    if sel:
        return False, "edge array is reordered/narrowed by %s" % sel
    return True, ""


def subst_args(e, args):
    """replace ('arg', i) leaves of an expression by the caller's argument expressions"""
    if not isinstance(e, E):
        return e
    if e.kind == "arg":
        i = e[1]
        return args[i - 1] if 1 <= i <= len(args) else e
    out = []
    for x in e:
        if isinstance(x, E):
            out.append(subst_args(x, args))
        elif isinstance(x, tuple) and any(isinstance(z, E) for z in x):
            out.append(tuple(subst_args(z, args) if isinstance(z, E) else z for z in x))
        else:
            out.append(x)
    return E(tuple(out))


def b_next_iter(body, next_bb):
    """iterator expression stepped by the `next()` call at next_bb"""
    from rules_sched import _resolve_iter_local
    t = body.blocks[next_bb]["term"]
    return _resolve_iter_local(body, expr_operand(body, t["args"][0]))


def lift_expr(ctx, M, X, e, max_hops=4):
    """Expression `e` in the frame of body X, rewritten into the frame of the
    body M from which X is reached: X's parameters are replaced by the
    arguments of its single call site inside the bodies reachable from M
    (context-sensitive where a shared helper has one call per caller).
    Returns (expr, frame body) -- frame is M on success."""
    fb, m, fl = ctx.fb, ctx.model, ctx.model.flow
    reach = m.reach(M.id)
    hops = 0
    while X.id != M.id and hops < max_hops:
        hops += 1
        if X.kind != "fn" or not has_arg_leaf(e):
            break
        callers = [(cb, cbb, ct) for (cb, cbb, ct) in fl.call_sites().get(X.id, []) if cb.id in reach and not fb.is_test_body(cb)]
        if len(callers) != 1:
            break
        cb, cbb, ct = callers[0]
        args = [strip_refs(expr_operand(cb, x)) for x in ct["args"]]
        e = subst_args(e, args)
        X = cb
    return e, X


def root_is_arg(e):
    e = strip_refs(e)
    while e.kind in ("field", "downcast", "deref", "ref", "cast"):
        e = strip_refs(e[2] if e.kind == "ref" else e[1])
    return e.kind == "arg"


def has_arg_leaf(e):
    return any(x.kind == "arg" for x in walk_expr(e))


def edge_insertions(ctx, M):
    """Every edge-mutating call reachable from builder method M, with its
    (from, to, kind) expressions lifted through crate-local helpers into the
    frame of M: a helper's parameters are replaced by the arguments of its
    (single) call site on the way up.  Each result also records the bodies on
    the way (`chain`) and the frame in which from/to stop being parameters."""
    fb, m, fl = ctx.fb, ctx.model, ctx.model.flow
    reach = m.reach(M.id)
    out = []
    for bid in sorted(reach):
        bx = fb.bodies[bid]
        for bb, t in bx.calls():
            p = callee_path(t) or ""
            if not (p in DAG_MUTATORS and p != "daggy::Dag::<N, E, Ix>::add_node" or
                    p.startswith("daggy::petgraph::Graph::<N, E, Ty, Ix>::update_edge") or
                    p.startswith("daggy::petgraph::Graph::<N, E, Ty, Ix>::add_edge") or
                    p.startswith("daggy::petgraph::graph::Graph::<N, E, Ty, Ix>::")):
                continue
            ins = {"site": (bx, bb, t, p), "chain": [bx], "ok": True, "why": ""}
            if p != UPDATE_EDGE or len(t["args"]) < 4:
                ins["ok"] = False
                ins["why"] = "mutates edges through %s" % p
                out.append(ins)
                continue
            a = strip_refs(expr_operand(bx, t["args"][1]))
            c = strip_refs(expr_operand(bx, t["args"][2]))
            w = strip_refs(expr_operand(bx, t["args"][3]))
            X = bx
            ins["ends_frame"] = None
            hops = 0
            while X.id != M.id and not X.id.startswith(M.id + "::") and hops < 4:
                hops += 1
                if X.kind != "fn":
                    # closure inside a helper: its captured values are not tracked; stay in this frame
                    if ins["ends_frame"] is None:
                        ins["ends_frame"] = X
                    Xf = fb.bodies.get(X.root) if getattr(X, "root", None) else None
                    if Xf is None or Xf.id == X.id:
                        break
                    # resolve captured upvars through the closure's creation site
                    sites = fl.closure_sites().get(X.id, [])
                    if len(sites) != 1:
                        ins["ok"], ins["why"] = False, "closure %s created at %d sites" % (short(X.id), len(sites))
                        break
                    pb_, bb_, si_, st_ = sites[0]
                    def up(e_):
                        ui = upvar_index_(e_)
                        if ui is not None:
                            return strip_refs(expr_operand(pb_, st_["rv"]["ops"][ui]))
                        return e_
                    w = up(w)
                    X = pb_
                    ins["chain"].append(X)
                    continue
                callers = [(cb, cbb, ct) for (cb, cbb, ct) in fl.call_sites().get(X.id, []) if cb.id in reach and not fb.is_test_body(cb)]
                if len(callers) != 1:
                    ins["ok"], ins["why"] = False, "helper %s is called from %d sites within %s" % (short(X.id), len(callers), short(M.id))
                    break
                cb, cbb, ct = callers[0]
                args = [strip_refs(expr_operand(cb, x)) for x in ct["args"]]
                if ins["ends_frame"] is None and not (root_is_arg(a) and root_is_arg(c)):
                    ins["ends_frame"] = X
                if ins["ends_frame"] is None:
                    a, c = subst_args(a, args), subst_args(c, args)
                w = subst_args(w, args)
                ins.setdefault("links", []).append((cb, cbb, ct))
                X = cb
                ins["chain"].append(X)
            if ins["ends_frame"] is None:
                ins["ends_frame"] = X
            ins["a"], ins["c"], ins["w"], ins["frame"] = a, c, w, X
            out.append(ins)
    return out


def upvar_index_(e):
    from analysis import upvar_index
    return upvar_index(e)


def C16_rules(ctx, rule="E"):
    fb, m, fl = ctx.fb, ctx.model, ctx.model.flow
    builder_fns = [f for f in fb.fns.values() if (f.get("impl_self") or "").startswith("fn_graph_builder::FnGraphBuilder<") and
                   not f.get("impl_trait")]
    singles = {}
    n = 0
    for f in sorted(builder_fns, key=lambda x: x["name"]):
        b = fb.bodies.get(f["id"])
        if b is None or not f.get("public"):
            continue
        where = m.where(b)
        takes_ids = [i for i in f["inputs"][1:] if "NodeIndex" in i["s"]]
        returns_res = "WouldCycle" in f["output"]["s"]
        if returns_res and len(takes_ids) == 2 and "[" not in f["inputs"][1]["s"]:
            # single-edge form (E1)
            n += 1
            inss = edge_insertions(ctx, b)
            ok = len(inss) == 1 and inss[0]["ok"]
            why = "edge mutations: %s" % [(x["site"][3].split("::")[-1], x["why"]) for x in inss]
            kind = None
            if ok:
                ins = inss[0]
                a, c, w = ins["a"], ins["c"], ins["w"]
                ok = ins["frame"].id == b.id and a.kind == "arg" and a[1] == 2 and c.kind == "arg" and c[1] == 3
                if not ok:
                    why = "endpoints passed as (%s, %s), not (from, to)" % (fmt_expr(a, ins["frame"]), fmt_expr(c, ins["frame"]))
                if w.kind == "agg" and w[2] == "edge::Edge":
                    kind = w[3]
                else:
                    ok = False
                    why = "edge kind is not a constant"
                # result returned unchanged through every body on the way
                rs = fl.sources_local(b, 0, ()) | fl.sources_local(b, 0, ("E",))
                ret_ok = bool(rs) and all(s.kind == "alloc" and s[4] == UPDATE_EDGE for s in rs)
                pure = True
                extra = []
                for X in ins["chain"]:
                    rdefs = get_defs(X).of(0)
                    links = [callee_path(t2) for _, t2 in X.calls()]
                    allowed = {UPDATE_EDGE} | {y.id for y in ins["chain"]}
                    others = [l for l in links if l not in allowed]
                    if len(rdefs) != 1 or rdefs[0][0] != "call" or others or X.back_edges() or \
                            any(blk["term"]["k"] == "switch" for blk in X.blocks):
                        pure = False
                        extra += others
                if ok and not (ret_ok and pure):
                    ok = False
                    why = "the method does more than return update_edge's result unchanged (extra checks / early returns / other calls %s)" % extra
            singles[f["id"]] = kind
            ctx.check(ok, rule + "1", "single|%s" % f["name"], where,
                      "%s is exactly daggy::Dag::update_edge(from, to, Edge::%s) with its result returned unchanged" % (f["name"], kind),
                      "%s: %s" % (f["name"], why))
    # kinds: the two single forms use Logic and Contains, each exactly once, and the name matches
    kinds = sorted(k for k in singles.values() if k)
    ctx.check(kinds == ["Contains", "Logic"], rule + "1", "kinds", "-", "single-edge forms insert Edge::Logic and Edge::Contains respectively",
              "single-edge forms insert kinds %s" % kinds)
    for fid, k in singles.items():
        nm = fb.fns[fid]["name"]
        if k and k.lower() not in nm:
            ctx.bad(rule + "1", "kind-name|%s" % nm, ctx.model.where(fb.bodies[fid]), "%s inserts Edge::%s" % (nm, k))
    # E2 batch forms
    for f in sorted(builder_fns, key=lambda x: x["name"]):
        b = fb.bodies.get(f["id"])
        if b is None or not f.get("public"):
            continue
        if "WouldCycle" in f["output"]["s"] and len(f["inputs"]) >= 2 and f["inputs"][1]["s"].startswith("[("):
            n += 1
            where = m.where(b)
            want_kind = "Logic" if "logic" in f["name"] else ("Contains" if "contains" in f["name"] else None)
            inss = edge_insertions(ctx, b)
            ok = len(inss) == 1 and inss[0]["ok"]
            why = "edge mutations: %s" % [(x["site"][3].split("::")[-1], x["why"]) for x in inss]
            if ok:
                ins = inss[0]
                w = ins["w"]
                got = w[3] if w.kind == "agg" and w[2] == "edge::Edge" else None
                if got != want_kind:
                    ok = False
                    why = "inserts edges of kind %s (`%s`)" % (got, fmt_expr(w, ins["frame"]))
            if ok:
                okl, whyl = per_element_insertion(ctx, b, ins)
                if not okl:
                    ok, why = False, whyl
            if ok:
                rs = fl.sources_local(b, 0, ("E",))
                if not any(s.kind == "alloc" and s[4] == UPDATE_EDGE for s in rs):
                    ok = False
                    why = "the first error is not propagated to the caller"
            ctx.check(ok, rule + "2", "batch|%s" % f["name"], where,
                      "%s inserts one Edge::%s per element in array order (same insertion as the single form) and returns the first error" % (f["name"], want_kind),
                      "%s: %s" % (f["name"], why))
    # E3: no other builder method mutates edges
    for f in sorted(builder_fns, key=lambda x: x["name"]):
        b = fb.bodies.get(f["id"])
        if b is None or f["id"] in singles or f["name"] == "build" or not f.get("public"):
            continue
        if "WouldCycle" in f["output"]["s"]:
            continue
        bad = []
        for bid in m.reach(b.id):
            bx = fb.bodies[bid]
            for bb, t in bx.calls():
                p = callee_path(t) or ""
                if p in DAG_MUTATORS and p != "daggy::Dag::<N, E, Ix>::add_node" and \
                        "daggy::Dag<F," in ((t["args"][0].get("pl") or {}).get("ty", "") if t["args"] and isinstance(t["args"][0], dict) else ""):
                    bad.append(p)
        n += 1
        ctx.check(not bad, rule + "3", "no-edge-mutation|%s" % f["name"], m.where(b),
                  "%s does not mutate edges" % f["name"], "%s mutates the graph through %s" % (f["name"], bad))
    # E4: a method that borrows the builder (`&mut self`) changes the user's graph only in place, through the Dag's own
    # insertion methods: it never moves the graph out of the builder or stores another graph into it (`mem::take(&mut self.graph)`
    # .. `?` .. `self.graph = graph` loses every function and edge when an edge of the batch is rejected)
    n4 = 0
    for f in sorted(builder_fns, key=lambda x: x["name"]):
        b = fb.bodies.get(f["id"])
        if b is None or not f["inputs"] or not f["inputs"][0]["s"].startswith("&mut"):
            continue
        n4 += 1
        bad = []
        for bid in sorted(m.reach(b.id)):
            bx = fb.bodies[bid]
            for bb, t in bx.calls():
                p = callee_path(t) or ""
                if p.split("::<")[0] in ("std::mem::take", "std::mem::replace", "std::mem::swap") and \
                        any(isinstance(a_, dict) and "daggy::Dag<F," in ((a_.get("pl") or {}).get("ty", "")) for a_ in t["args"]):
                    bad.append("%s at %s" % (p.split("::<")[0], bx.loc(bb)))
            for bb, si, st in bx.stmts():
                if st["k"] != "assign" or not st["pl"]["p"]:
                    continue
                # whole-field store through the receiver: `(*self).graph = ..`
                pr = st["pl"]["p"]
                if pr and isinstance(pr[-1], dict) and "f" in pr[-1] and "*" in pr[:-1] and \
                        st["rv"]["k"] == "use" and st["rv"]["op"]["k"] in ("move", "copy") and \
                        "daggy::Dag<F," in (st["rv"]["op"]["pl"].get("ty", "")):
                    bad.append("`graph` field overwritten at %s" % bx.loc(bb))
        ctx.check(not bad, rule + "4", "graph-in-place|%s" % f["name"], m.where(b),
                  "%s changes the builder's graph only in place: the graph is never moved out of or replaced in the builder" % f["name"],
                  "%s moves the user's graph out of the builder / replaces it (%s): an early return in between loses every function and edge added so far" % (f["name"], bad[:3]))
    if n4 < 3:
        ctx.unverifiable(rule + "4", "floor", "-", "expected at least 3 `&mut self` builder methods, found %d" % n4)
    ctx.counts[rule] = n
    if len(singles) < 2:
        ctx.unverifiable(rule + "1", "floor", "-", "expected 2 single-edge builder methods, found %d" % len(singles))
