// expect: E0616 private
// The scheduling fields (structure copies, ranks, counts) cannot be written by a caller.
use fn_graph::FnGraph;
pub fn poke<F>(g: &mut FnGraph<F>) {
    g.ranks.clear();
}
fn main() {}
