import json,glob,re,sys
for f in glob.glob(sys.argv[1]+"/*/meta.json"):
    m=json.load(open(f)); c=m["demo_cmd"]; c=re.sub(r"^cd \S+ && ","",c); c=re.sub(r"\s+\(.*$","",c).strip(); m["demo_cmd"]=c; json.dump(m,open(f,"w"),indent=1)
