// expect: E0277 cannot be shared between threads safely
// FnRef holds `&F`: Send requires F: Sync.
use fn_graph::FnRef;
fn assert_send<T: Send>(_: &T) {}
pub fn fn_ref_is_send<'a, F: Send>(r: &FnRef<'a, F>) {
    assert_send(r);
}
fn main() {}
